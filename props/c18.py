"""C18 - Images and flow fields survive a write/read round trip in every supported format."""
from __future__ import annotations

import hashlib
import os
import pathlib
import shutil
import tempfile

import numpy as np
import torch
from hypothesis import strategies as st

from vlib import gen, ref
from vlib.case import hash_noise, make_grid, tdtype
from vlib.core import EPS32, EPS64, Facet, Skip, Violation, check_close
from vlib.findings import Known

PROPERTY = "C18"
MANIFEST = {
    "text": "The finite configuration space file suffix (13 suffixes: native MetaImage .mha, native NIfTI .nii/.nii.gz/.hdr/.img/"
            ".hdr.gz/.img.gz, and .mhd/.nrrd/.nhdr/.vtk/.mnc/.h5 through SimpleITK) x D in {2,3} x channels in {1,2,3} x dtype in "
            "{uint8,int16,int32,float32,float64} x compress in {True,False} is enumerated completely in both tiers; every "
            "configuration is crossed with Hypothesis-generated oriented anisotropic grids (2 per configuration quick, 20 thorough) and "
            "hash-noise content spanning the dtype's range. Checked: Image.write -> Image.read (shape, channels, dtype, bit-exact "
            "values, grid within header precision); files written by deepali read by SimpleITK and files written by SimpleITK "
            "(from an independent float64 grid model) read by Image.read / Grid.from_file; FlowField.write stores world vectors "
            "(read back with SimpleITK, compared with the model's world vectors; vectors already given w.r.t. the stored axes are "
            "stored bit-exactly) and FlowField.read(...).axes(original) restores the vectors; in-memory meta_image_bytes/"
            "read_meta_image (incl. non-contiguous / read-only array arguments and big-endian element order) and sitk()/from_sitk "
            "conversions. Images that came out of a reader are written again: all 13 x 13 ordered pairs read(A) -> write(B) "
            "for images and flow fields with the first file written by deepali or by SimpleITK, drawn chains of 3-4 formats, and "
            "every hand-over between the back ends (read_image/write_image, from_sitk, sitk(), Grid.from_file, the reader's grid "
            "reused, from_uri/to_uri); every file of a chain is compared with the model image through SimpleITK. The same values "
            "held in unusual memory (channels-last / transposed / strided / offset views, Fortran order, read-only NumPy memory, "
            "tensors that require grad; grids built from transposed views, NumPy views, float64 tensors) go through every writer; "
            "file names with several dots, upper-case suffixes, spaces, not yet existing output directories, overwritten files, "
            "relative paths, URIs, str and pathlib.Path arguments; the dtype argument of the readers and unsigned 16/32-bit files "
            "written by SimpleITK. Exploration, not proof.",
    "note": "Trusted: SimpleITK (reader/writer and as the arbiter of what a format can represent: a configuration/grid whose "
            "SimpleITK write->read does not reproduce the model image is skipped and counted; likewise an upper-case file name "
            "SimpleITK cannot use for a format only it implements), nibabel, the float64 grid model of vlib/ref.py. Every read by "
            "SimpleITK of bytes that deepali produced (its writers, meta_image_bytes, or sitk.WriteImage of an image returned by "
            "sitk()) goes through one helper: a file SimpleITK refuses to open is a violation (sitk_cannot_read_*), wherever along a "
            "chain it is opened, and so is a sitk() image SimpleITK refuses to write in a format that holds the model image; only "
            "the harness' own model files are read unguarded (a failure there is a harness error). Tolerances: "
            "data bit-exact; deepali -> file -> deepali: spacing and direction (stored verbatim in float32) 2*eps32 for "
            "double-precision headers and 8*eps32 for the float32 NIfTI header (derivations next to K_ATTR_*), origin (recomputed "
            "from the float32 centre) 8*eps32 resp. 64*eps32 of the world scale; header of a natively written file read by "
            "SimpleITK vs the float32 grid attributes: same bounds; comparisons against the float64 model 64*eps32 (deepali stores "
            "grid attributes in float32), plus the per-hop bounds along a conversion chain. "
            ".nia is not exercised (SimpleITK cannot read or write it); .tif/.png/.jpg/.bmp/.gipl/.mrc/.dcm lose origin or "
            "direction in SimpleITK itself and are outside 'supported'.",
    "technique": "property-based testing (Hypothesis) with exhaustive enumeration of the finite configuration space, round-trip "
                 "and differential oracles against SimpleITK and a float64 reference grid model",
}
ASSUMPTIONS = [
    "grids: size 1..6 per axis, spacing in [0.05, 20], |center| <= 500, |det direction| = 1 (.vtk: identity direction, the only "
    "orientation SimpleITK's VTK writer keeps)",
    "a (configuration, grid) that SimpleITK itself cannot write and read back unchanged (e.g. vector images in .h5, 3-D .vtk "
    "with one slice, NIfTI vector images whose last axis has one sample) is skipped and counted, independent of deepali's behaviour; "
    "in a conversion chain this holds for every format of the chain",
    "finite voxel values only (no NaN/inf/-0.0); files live in a per-case directory under ./.scratch which is always removed; every "
    "file gets its own directory (ITK's NIfTI reader opens a sibling x.nii when asked for x.nii.gz)",
    "upper-case suffixes: asserted for the formats deepali implements itself (.MHA, .NII, .NII.GZ, .HDR/.IMG[.GZ]: the suffix tests "
    "lower-case the name) with SimpleITK reading a lower-case copy of the file, and for SimpleITK-backed formats only where "
    "SimpleITK can use the name; mixed-case '.Gz' is not generated",
    "unsigned 16/32-bit files (written by SimpleITK): values must be preserved; the result may have the widened signed dtype "
    "(int32/int64, what all three readers do for scalar images) or the stored unsigned dtype (SimpleITK vector pixels with torch >= 2.3)",
    "big-endian MetaImage data is requested with the header key BinaryDataByteOrderMSB only (the legacy alias ElementByteOrderMSB "
    "makes meta_image_bytes emit two contradicting keys, which MetaIO resolves in favour of BinaryDataByteOrderMSB = False; not asserted)",
]

K_MODEL = 64.0   # vs float64 model: float32 grid attributes + header precision
K_TEXT = 8.0     # deepali -> file -> deepali through double-precision headers: origin (recomputed from the float32 centre)
K_NIFTI = 64.0   # NIfTI: float32 sform/pixdim (origin)
# Spacing and direction are stored verbatim (float32) by a Grid, so a header that holds doubles returns them within
# 1 eps32: decimal text of a float32 parses back to the same float32 (.mha, .mhd, .mnc, .h5, .vtk), NRRD stores the
# products direction*spacing and splits them on reading (column norm of a float32-rounded rotation = 1 +- eps32/2, plus
# eps32/2 for the cast to float32).  K = 2 leaves a factor two.  Directions whose columns are further from unit norm (grids read
# from a float32 header) get renormalisation_allowance() on top.
K_ATTR_TEXT = 2.0
# NIfTI: float32 product direction*spacing (eps32/2), float32 srow (eps32/2), pixdim = column norm (eps32/2 + eps32/2 for its
# float32 cast), division and cast to float32 (eps32) -> < 4 eps32; K = 8 leaves a factor two.
K_ATTR_NIFTI = 8.0
K_DOUBLE = 4.0   # float64 header values of meta_image_bytes, in eps64: the shortest round-trip text of a double parses to that double

META_NATIVE = (".mha",)
NIFTI = (".nii", ".nii.gz", ".hdr", ".img", ".hdr.gz", ".img.gz")
SITK_ONLY = (".mhd", ".nrrd", ".nhdr", ".vtk", ".mnc", ".h5")
SUFFIXES = META_NATIVE + NIFTI + SITK_ONLY
DIMS = (2, 3)
CHANNELS = (1, 2, 3)
DTYPES = ("uint8", "int16", "int32", "float32", "float64")
NPDT = {"uint8": np.uint8, "int16": np.int16, "int32": np.int32, "float32": np.float32, "float64": np.float64,
        "uint16": np.uint16, "uint32": np.uint32, "int64": np.int64}
WIDENED = {"uint16": "int32", "uint32": "int64"}   # unsigned types torch lacks are widened by all three readers
FLOW_AXES = ("world", "grid", "cube", "cube_corners")
IDENTITY_ONLY = (".vtk",)   # SimpleITK's VTK writer does not store the direction cosines


def dispatch_of(suffix: str) -> str:
    return "meta" if suffix in META_NATIVE else "nifti" if suffix in NIFTI else "sitk"


def _axes(name):
    from deepali.core import Axes

    return Axes(name)


# ---------------------------------------------------------------------------------------
# scratch files


class Scratch:
    """Per-case directory under <cwd>/.scratch; always removed."""

    def __enter__(self):
        base = os.path.join(os.getcwd(), ".scratch")
        os.makedirs(base, exist_ok=True)
        self.dir = tempfile.mkdtemp(prefix="c18_", dir=base)
        return self

    def path(self, stem: str, suffix: str) -> str:
        d = os.path.join(self.dir, stem)
        os.makedirs(d, exist_ok=True)
        return os.path.join(d, "image" + suffix)

    def subdir(self, stem: str) -> str:
        d = os.path.join(self.dir, stem)
        os.makedirs(d, exist_ok=True)
        return d

    def __exit__(self, *exc):
        shutil.rmtree(self.dir, ignore_errors=True)
        return False


# ---------------------------------------------------------------------------------------
# content, model images


def content(shape, dtype: str, key: int) -> np.ndarray:
    """Hash noise over the whole range of the dtype; shape (C, ..., X). First/last element = extremes."""
    dt = NPDT[dtype]
    if np.issubdtype(dt, np.integer):
        info = np.iinfo(dt)
        a = np.floor(hash_noise(shape, key, float(info.min), float(info.max) + 1.0))
        a = np.clip(a, info.min, info.max).astype(dt)
        a.flat[0] = info.max
        a.flat[-1] = info.min
        return a
    info = np.finfo(dt)
    u = hash_noise(shape, key, -1.0, 1.0)
    top = 30 if dt == np.float32 else 300
    exps = np.array([0, 3, -3, top, -top, 1, -1, 6], dtype=np.float64)
    e = exps[np.arange(u.size) % len(exps)].reshape(u.shape)
    a = (u * 10.0 ** e).astype(dt)
    a[a == 0] = 1  # no -0.0 / 0.0 ambiguity
    a.flat[0] = info.max
    a.flat[-1] = -info.max
    if a.size > 2:
        a.flat[1] = info.tiny
    return a


def vector_content(shape, key: int) -> np.ndarray:
    """Flow vectors in [-1, 1) (units of whatever axes the case names); shape (D, ..., X), float64."""
    return hash_noise(shape, key, -1.0, 1.0)


def sitk_array(arr: np.ndarray) -> np.ndarray:
    """(C, ..., X) -> SimpleITK array layout (..., X) or (..., X, C)."""
    return np.ascontiguousarray(arr[0] if arr.shape[0] == 1 else np.moveaxis(arr, 0, -1))


def model_image(m: ref.GridModel, arr: np.ndarray):
    """SimpleITK image built from the float64 grid model and a (C, ..., X) array - no deepali involved."""
    import SimpleITK as sitk

    img = sitk.GetImageFromArray(sitk_array(arr), isVector=arr.shape[0] > 1)
    img.SetOrigin([float(v) for v in m.o])
    img.SetSpacing([float(v) for v in m.s])
    img.SetDirection([float(v) for v in m.R.ravel()])
    return img


def world_scale(m: ref.GridModel) -> float:
    return m.cond("grid", "world")


def sitk_mismatch(img, m: ref.GridModel, arr: np.ndarray, K: float = K_MODEL):
    """Compare a SimpleITK image with (model grid, (C,...,X) array). Returns (what, detail, ratio): what None if equal."""
    import SimpleITK as sitk

    D = m.D
    if img.GetDimension() != D:
        return "dimension", f"{img.GetDimension()}-D image, expected {D}-D (size {img.GetSize()})", 0.0
    size = tuple(int(v) for v in m.n)
    if tuple(img.GetSize()) != size:
        return "size", f"size {tuple(img.GetSize())} expected {size}", 0.0
    C = arr.shape[0]
    if img.GetNumberOfComponentsPerPixel() != C:
        return "components", f"{img.GetNumberOfComponentsPerPixel()} components expected {C}", 0.0
    a = sitk.GetArrayFromImage(img)
    if a.dtype != arr.dtype:
        return "dtype", f"pixel type {a.dtype} expected {arr.dtype}", 0.0
    W = world_scale(m)
    ratio = 0.0
    for name, act, exp, bound in (
        ("spacing", np.asarray(img.GetSpacing()) / m.s, np.ones(D), K * EPS32),
        ("direction", np.asarray(img.GetDirection()), m.R.ravel(), K * EPS32),
        ("origin", np.asarray(img.GetOrigin()), m.o, K * EPS32 * W),
    ):
        err = float(np.abs(act - exp).max())
        if not err <= bound:
            return name, f"{name} {np.asarray(act).tolist()} expected {np.asarray(exp).tolist()} (err {err:.3g} > {bound:.3g})", 0.0
        ratio = max(ratio, err / bound)
    exp_arr = sitk_array(arr)
    if a.shape != exp_arr.shape:
        return "pixels", f"array shape {a.shape} expected {exp_arr.shape}", 0.0
    if a.tobytes() != exp_arr.tobytes():
        nbad = int((a != exp_arr).sum())
        return "pixels", f"{nbad} of {a.size} stored values differ", 0.0
    return None, "", ratio


def sitk_write_read(m, arr, path, compress):
    """SimpleITK's own round trip of the model image. Returns (image or None, reason)."""
    import SimpleITK as sitk

    try:
        sitk.WriteImage(model_image(m, arr), path, bool(compress))
        back = sitk.ReadImage(path)
    except RuntimeError as e:
        return None, "error"
    what, _, _ = sitk_mismatch(back, m, arr)
    if what is not None:
        return None, what
    return back, ""


def _sitk_error(e) -> str:
    lines = [ln.strip() for ln in str(e).strip().splitlines() if ln.strip()]
    return (lines[-1] if lines else type(e).__name__)[:200]


def _nifti_header_hint(path) -> str:
    """Diagnostic text only (never decides anything): the header fields ITK's NIfTI reader branches on, read with nibabel."""
    if not any(path.lower().endswith(sfx) for sfx in NIFTI):
        return ""
    try:
        import nibabel as nib

        h = nib.load(path).header
        return (f" [NIfTI header: intent_code={int(h['intent_code'])} datatype={int(h['datatype'])} dim={[int(v) for v in h['dim']]} "
                f"qform_code={int(h['qform_code'])} sform_code={int(h['sform_code'])}]")
    except Exception as e:   # nibabel is only asked for a hint here
        return f" [nibabel cannot read it either: {type(e).__name__}]"


def sitk_read(path, kind="sitk_cannot_read_deepali_file", written_by="deepali", what=""):
    """The one place where SimpleITK opens a file that is not the harness' own.

    `written_by` names who produced the bytes: "deepali" (a deepali writer, or sitk.WriteImage of an image that a deepali
    sitk() conversion made) - then a file SimpleITK refuses is a violation of 'files written by the library are read
    identically by SimpleITK' (Violation(kind)); "sitk" (sitk.WriteImage of the harness' model image, already verified by
    sitk_write_read) - then the read is not guarded and a failure is a harness error."""
    import SimpleITK as sitk

    if written_by != "deepali":
        return sitk.ReadImage(path)
    if not os.path.exists(path):
        raise Violation("file_not_written", f"{what + ': ' if what else ''}{os.path.basename(path)} does not exist after write")
    try:
        return sitk.ReadImage(path)
    except RuntimeError as e:
        raise Violation(kind, f"{what + ': ' if what else ''}SimpleITK cannot read the file written by deepali "
                              f"({os.path.basename(path)}): {_sitk_error(e)}{_nifti_header_hint(path)}")


def sitk_write_converted(simg, path, compress, what):
    """sitk.WriteImage of an image that came out of a deepali conversion (Image.sitk(), FlowField.sitk()) to a format that
    SimpleITK has just shown to hold the model image (sitk_write_read): a refusal is due to the converted image."""
    import SimpleITK as sitk

    try:
        sitk.WriteImage(simg, path, bool(compress))
    except RuntimeError as e:
        raise Violation("sitk_cannot_write_converted_image",
                        f"{what}: SimpleITK cannot write the image returned by sitk() ({simg.GetDimension()}-D, size {simg.GetSize()}, "
                        f"{simg.GetNumberOfComponentsPerPixel()} components, {simg.GetPixelIDTypeAsString()}) as "
                        f"{os.path.basename(path)}, although it writes the model image in this format: {_sitk_error(e)}")


def grid_attrs(grid):
    return (tuple(int(v) for v in grid.size()), grid.origin().double().numpy(), grid.spacing().double().numpy(),
            grid.direction().double().numpy())


def check_grid_vs_model(grid, m: ref.GridModel, prefix: str, what: str, K: float = K_MODEL) -> float:
    if grid.ndim != m.D:
        raise Violation(prefix + "_grid_ndim", f"{what}: {grid.ndim}-D grid (size {tuple(grid.size())}) expected {m.D}-D")
    size, o, s, R = grid_attrs(grid)
    if size != tuple(int(v) for v in m.n):
        raise Violation(prefix + "_grid_size", f"{what}: size {size} expected {tuple(int(v) for v in m.n)}")
    r = check_close(s / m.s, np.ones(m.D), K * EPS32, prefix + "_grid_spacing", f"{what}: spacing {s.tolist()} vs {m.s.tolist()}")
    r = max(r, check_close(R, m.R, K * EPS32, prefix + "_grid_direction", f"{what}: direction"))
    r = max(r, check_close(o, m.o, K * EPS32 * world_scale(m), prefix + "_grid_origin", f"{what}: origin"))
    return r


def hop_bounds(suffix: str):
    """(K origin, K spacing/direction) of one deepali write -> deepali read through a file with this suffix."""
    return (K_NIFTI, K_ATTR_NIFTI) if suffix in NIFTI else (K_TEXT, K_ATTR_TEXT)


def renormalisation_allowance(grid) -> float:
    """Formats that store the products direction*spacing (NRRD space directions, NIfTI sform) return spacing*|column| and
    column/|column|: a written direction whose columns have norm 1 + delta (float32 rounding, or the header precision of the file
    the grid was read from) comes back with spacing and direction changed by |delta|.  In units of eps32, with the factor two
    of the K_ATTR_* constants."""
    R = grid.direction().double().numpy()
    return 2.0 * float(np.abs(np.linalg.norm(R, axis=0) - 1.0).max()) / EPS32


def check_grid_vs_grid(back, grid, m, prefix: str, what: str, K: float, K_attr: float = None) -> float:
    """Read-back grid against the grid that was written (float32 attributes), header precision K*eps32
    (K_attr*eps32 for spacing and direction, which a Grid stores verbatim)."""
    Ko, K = K, (K if K_attr is None else K_attr) + renormalisation_allowance(grid)
    if back.ndim != grid.ndim:
        raise Violation(prefix + "_grid_ndim", f"{what}: {back.ndim}-D grid (size {tuple(back.size())}) expected {grid.ndim}-D")
    size, o, s, R = grid_attrs(back)
    size0, o0, s0, R0 = grid_attrs(grid)
    if size != size0:
        raise Violation(prefix + "_grid_size", f"{what}: size {size} expected {size0}")
    r = check_close(s / s0, np.ones(len(s0)), K * EPS32, prefix + "_grid_spacing", f"{what}: spacing {s.tolist()} vs {s0.tolist()}")
    r = max(r, check_close(R, R0, K * EPS32, prefix + "_grid_direction", f"{what}: direction"))
    r = max(r, check_close(o, o0, Ko * EPS32 * world_scale(m), prefix + "_grid_origin", f"{what}: origin"))
    return r


def check_header_vs_grid(simg, grid, m, suffix: str, prefix: str, what: str) -> float:
    """Header written by one of deepali's own writers (MetaImage text, NIfTI through nibabel), read by SimpleITK, against
    the float32 attributes of the grid that was written: the shortest decimal text of a float32 is within eps32/2 of it
    (K_ATTR_TEXT), the float32 NIfTI header within K_ATTR_NIFTI (see above).  SimpleITK-backed formats receive the
    attributes as Python floats and are compared with the model only."""
    if dispatch_of(suffix) == "sitk" or simg.GetDimension() != grid.ndim:
        return 0.0
    _, o0, s0, R0 = grid_attrs(grid)
    Ko, K = hop_bounds(suffix)
    K += renormalisation_allowance(grid)
    r = check_close(np.asarray(simg.GetSpacing()) / s0, np.ones(len(s0)), K * EPS32, prefix + "_header_spacing",
                    f"{what}: spacing in the file {list(simg.GetSpacing())} vs grid.spacing() {s0.tolist()}")
    r = max(r, check_close(np.asarray(simg.GetDirection()), R0.ravel(), K * EPS32, prefix + "_header_direction",
                           f"{what}: direction in the file vs grid.direction()"))
    r = max(r, check_close(np.asarray(simg.GetOrigin()), o0, Ko * EPS32 * world_scale(m), prefix + "_header_origin",
                           f"{what}: origin in the file vs grid.origin()"))
    return r


def check_tensor(t, arr: np.ndarray, prefix: str, what: str):
    """Shape, channel count, dtype, bit-exact values of a deepali tensor against the (C, ..., X) array."""
    tt = torch.as_tensor(t).as_subclass(torch.Tensor) if isinstance(t, torch.Tensor) else t
    if tt.ndim != arr.ndim:
        raise Violation(prefix + "_ndim", f"{what}: tensor shape {tuple(tt.shape)} expected {arr.shape}")
    if tt.shape[0] != arr.shape[0]:
        raise Violation(prefix + "_channels", f"{what}: tensor shape {tuple(tt.shape)} expected {arr.shape}")
    if tuple(tt.shape) != arr.shape:
        raise Violation(prefix + "_shape", f"{what}: tensor shape {tuple(tt.shape)} expected {arr.shape}")
    a = tt.detach().cpu().numpy()
    if a.dtype != arr.dtype:
        raise Violation(prefix + "_dtype", f"{what}: dtype {a.dtype} expected {arr.dtype}")
    if np.ascontiguousarray(a).tobytes() != np.ascontiguousarray(arr).tobytes():
        nbad = int((a != arr).sum())
        idx = int(np.argmax((a != arr).ravel()))
        raise Violation(prefix + "_values", f"{what}: {nbad} of {a.size} values differ (first at flat index {idx}: "
                                            f"{a.ravel()[idx]!r} expected {arr.ravel()[idx]!r})")


def labels_of(case):
    g = case["grid"]
    out = [case["suffix"], f"dispatch={dispatch_of(case['suffix'])}", f"D={case['D']}", f"compress={case['compress']}", g["kind"]]
    if "C" in case:
        out.append(f"C={case['C']}")
    if "dtype" in case:
        out.append(case["dtype"])
    if gen.grid_is_oblique(g):
        out.append("oblique")
    if gen.grid_is_anisotropic(g):
        out.append("anisotropic")
    return out


def grid_nontrivial(g) -> bool:
    m = ref.GridModel.from_desc(g)
    return gen.grid_is_oblique(g) and gen.grid_is_anisotropic(g) and float(np.abs(m.o).max()) > 1e-3


def image_nontrivial(case) -> bool:
    return grid_nontrivial(case["grid"]) and (case["C"] > 1 or case["D"] == 2 or not case["dtype"].startswith("float"))


# ---------------------------------------------------------------------------------------
# enumeration: configurations x Hypothesis-drawn grids


def _seed() -> int:
    return int(os.environ.get("VERIF_SEED", "0") or 0)


_POOLS = {}
KIND_MIX = ("rotation", "perm", "rotation", "reflection", "rotation", "identity")


def _direction(r, D: int, kind: str) -> dict:
    """Direction descriptor (vlib.gen.directions format) from a Hypothesis-seeded Random; |det| = 1 by construction."""
    nrot = 1 if D == 2 else 3
    rot, perm, flip = [0.0] * nrot, list(range(D)), [1] * D
    if kind in ("perm", "reflection"):
        perm = r.sample(range(D), D)
        flip = [r.choice([1, -1]) for _ in range(D)]
        sign, p = 1, list(perm)
        for i in range(D):
            while p[i] != i:
                j = p[i]
                p[i], p[j] = p[j], p[i]
                sign = -sign
        det = sign * int(np.prod(flip))
        if (kind == "perm" and det < 0) or (kind == "reflection" and det > 0):
            flip[0] = -flip[0]
    if kind in ("rotation", "reflection"):
        rot = [round(r.uniform(-np.pi, np.pi), 3) for _ in range(nrot)]
    return {"rot": rot, "perm": perm, "flip": flip, "kind": kind}


@st.composite
def io_grids(draw, D: int, kind: str, min_size: int = 1):
    """Grid descriptor (format of vlib.gen.grids) with a fixed direction class.

    One draw in four uses the plain Hypothesis strategies (which favour boundary values: zero centre, zero angles, equal
    sizes, size 1); the others spread the values with a Random instance seeded by Hypothesis (st.randoms), because the
    enumeration wants an even cover of oblique anisotropic off-centre grids rather than shrinkable minimal ones."""
    if draw(st.integers(0, 3)) == 0:
        d = draw(gen.directions(D, (kind,)))
        return {"size": draw(st.lists(st.integers(min_size, 6), min_size=D, max_size=D)), "spacing": draw(gen.spacings(D)),
                "center": draw(gen.centers(D)), "rot": d["rot"], "perm": d["perm"], "flip": d["flip"], "kind": d["kind"],
                "ac": draw(st.booleans())}
    r = draw(st.randoms(use_true_random=True))
    d = _direction(r, D, kind)
    s0 = float(f"{np.exp(r.uniform(np.log(0.05), np.log(20.0))):.3g}")
    spacing = [s0] * D if r.random() < 0.25 else [float(f"{np.exp(r.uniform(np.log(0.05), np.log(20.0))):.3g}") for _ in range(D)]
    center = [0.0] * D if r.random() < 0.15 else [round(r.uniform(-500.0, 500.0), 2) for _ in range(D)]
    sizes = [n for n in (1, 2, 2, 3, 3, 4, 5, 6) if n >= min_size]
    return {"size": [r.choice(sizes) for _ in range(D)], "spacing": spacing, "center": center, "rot": d["rot"], "perm": d["perm"],
            "flip": d["flip"], "kind": d["kind"], "ac": r.random() < 0.5}


def _draw(strategy, n: int, tag: str):
    import hypothesis
    from hypothesis import HealthCheck, Phase, given, settings

    out, seen = [], set()

    def body(g):
        h = repr(sorted(g.items()))
        if h not in seen:
            seen.add(h)
            out.append(g)

    hs = int(hashlib.sha1(f"{_seed()}|C18|pool|{tag}".encode()).hexdigest()[:12], 16)
    test = hypothesis.seed(hs)(settings(max_examples=n, database=None, deadline=None, derandomize=False, phases=[Phase.generate],
                                        suppress_health_check=list(HealthCheck))(given(strategy)(body)))
    test()
    return out


def grid_pool(D: int, n: int, identity_only: bool = False, min_size: int = 1):
    """About n distinct grid descriptors drawn by Hypothesis (seeded from VERIF_SEED), stratified by direction class
    (3 rotation : 1 permutation : 1 reflection : 1 identity); deterministic per (seed, D, n)."""
    key = (_seed(), D, n, identity_only, min_size)
    if key in _POOLS:
        return _POOLS[key]
    kinds = ("identity",) if identity_only else KIND_MIX
    per = {k: _draw(io_grids(D, k, min_size), max(8, (n * kinds.count(k)) // len(kinds)), f"{D}|{k}|{min_size}") for k in set(kinds)}
    out, pos = [], {k: 0 for k in per}
    while len(out) < n and any(pos[k] < len(per[k]) for k in per):
        for k in kinds:
            if pos[k] < len(per[k]):
                out.append(per[k][pos[k]])
                pos[k] += 1
    _POOLS[key] = out
    return out


def per_config(tier: str) -> int:
    return 2 if tier == "quick" else 20


def _grids_for(tier, min_size: int = 1):
    k = per_config(tier)
    n = 300 if tier == "quick" else 1500
    pools = {(D, ident): grid_pool(D, n // 6 if ident else n, ident, min_size) for D in DIMS for ident in (False, True)}
    return k, pools


_KNOWN = None


def excluded_known(suffix, D, C) -> bool:
    """Sub-domains behind a *known* (unrepaired) finding are not enumerated while the entry is listed."""
    global _KNOWN
    if _KNOWN is None:
        _KNOWN = Known(PROPERTY)
    known = _KNOWN
    if known.active("N18-1") and suffix in NIFTI and (C > 1 or D == 2):
        return True
    if known.active("N18-2") and suffix in NIFTI and C > 1 and D == 2:
        return True
    return False


def image_enum(tier, offset=0):
    k, pools = _grids_for(tier)
    i = offset
    for suffix in SUFFIXES:
        for D in DIMS:
            for C in CHANNELS:
                if excluded_known(suffix, D, C):
                    continue
                for dtype in DTYPES:
                    for compress in (True, False):
                        pool = pools[(D, suffix in IDENTITY_ONLY)]
                        for j in range(k):
                            g = pool[(i * k + j) % len(pool)]
                            yield {"suffix": suffix, "D": D, "C": C, "dtype": dtype, "compress": compress, "grid": g,
                                   "key": (i * k + j) % 1000}
                        i += 1


def flow_enum(tier):
    k, pools = _grids_for(tier, min_size=2)   # cube axes need two samples per axis
    i = 0
    for suffix in SUFFIXES:
        for D in DIMS:
            if excluded_known(suffix, D, D):
                continue
            for dtype in ("float32", "float64"):
                for axes in FLOW_AXES:
                    for store in ("default", "grid"):
                        for compress in (True, False):
                            pool = pools[(D, suffix in IDENTITY_ONLY)]
                            for j in range(k):
                                g = pool[(i * k + j) % len(pool)]
                                yield {"suffix": suffix, "D": D, "dtype": dtype, "axes": axes, "store": store,
                                       "compress": compress, "grid": g, "key": (i * k + j) % 1000}
                            i += 1


def meta_enum(tier):
    k, pools = _grids_for(tier)
    i = 7
    for D in DIMS:
        for C in CHANNELS:
            for dtype in DTYPES:
                for compress in (True, False):
                    for via in ("bytes", "reader", "path", "str"):
                        pool = pools[(D, False)]
                        for j in range(k):
                            g = pool[(i * k + j) % len(pool)]
                            yield {"suffix": ".mha", "D": D, "C": C, "dtype": dtype, "compress": compress, "via": via,
                                   "grid": g, "key": (i * k + j) % 1000}
                        i += 1
    # array argument held in memory differently / big-endian element order requested in the header dictionary
    vias = ("bytes", "reader", "path", "str")
    for D in DIMS:
        for C in (1, 3):
            for dtype in DTYPES:
                for compress in (True, False):
                    for layout in META_ARRAY_LAYOUTS:
                        for msb in (False, True):
                            if layout == "c" and not msb:
                                continue
                            pool = pools[(D, False)]
                            for j in range(max(1, k // 2)):
                                n = i * k + j
                                yield {"suffix": ".mha", "D": D, "C": C, "dtype": dtype, "compress": compress, "via": vias[n % 4],
                                       "array": layout, "msb": msb, "grid": pool[n % len(pool)], "key": n % 1000}
                            i += 1


# ---------------------------------------------------------------------------------------
# facet 1: deepali writes; deepali and SimpleITK read


def _case_objects(case):
    g = case["grid"]
    m = ref.GridModel.from_desc(g)
    grid = make_grid(g)
    shape = (case["C"],) + tuple(int(v) for v in m.n[::-1])
    arr = content(shape, case["dtype"], case["key"])
    return g, m, grid, arr


def run_deepali_write(case):
    from deepali.core import Grid
    from deepali.data import Image

    g, m, grid, arr = _case_objects(case)
    suffix, compress = case["suffix"], case["compress"]
    K_rt, K_attr = hop_bounds(suffix)
    with Scratch() as tmp:
        # what can the format hold? decided by SimpleITK alone
        _, why = sitk_write_read(m, arr, tmp.path("sitk", suffix), compress)
        if why:
            raise Skip(f"sitk_cannot_represent:{dispatch_of(suffix)}:{why}")
        data = torch.from_numpy(arr.copy())
        image = Image(data, grid)
        path = tmp.path("deepali", suffix)
        image.write(path, compress=compress)
        if not os.path.exists(path):
            raise Violation("file_not_written", f"Image.write({suffix}) left no file {os.path.basename(path)}")
        if not torch.equal(image.tensor(), torch.from_numpy(arr)):
            raise Violation("write_modified_image", f"Image.write({suffix}) changed the image data")
        # (1) deepali reads its own file
        back = Image.read(path, align_corners=bool(g["ac"]))
        if type(back) is not Image:
            raise Violation("readback_type", f"Image.read returned {type(back).__name__}")
        what = f"Image.write->Image.read {suffix} D={case['D']} C={case['C']} {case['dtype']} compress={compress}"
        check_tensor(back.tensor(), arr, "readback", what)
        r = check_grid_vs_grid(back.grid(), grid, m, "readback", what, K_rt, K_attr)
        if back.grid().align_corners() != bool(g["ac"]):
            raise Violation("readback_align_corners", f"Image.read(align_corners={g['ac']}) grid has {back.grid().align_corners()}")
        # (2) SimpleITK reads deepali's file: compared with the independent model
        simg = sitk_read(path, "sitk_cannot_read_deepali_file", what=what)
        bad, detail, r2 = sitk_mismatch(simg, m, arr)
        if bad is not None:
            raise Violation("sitk_reads_deepali_file_" + bad, f"{what}: {detail}")
        r2 = max(r2, check_header_vs_grid(simg, grid, m, suffix, "deepali_file", what))
        # header-only route
        gf = Grid.from_file(path, align_corners=bool(g["ac"]))
        r3 = check_grid_vs_model(gf, m, "grid_from_deepali_file", f"Grid.from_file({suffix}) of a file written by deepali")
    return {"ratio": max(r, r2, r3), "nontrivial": image_nontrivial(case), "labels": labels_of(case)}


# ---------------------------------------------------------------------------------------
# facet 2: SimpleITK writes; deepali reads


def run_sitk_write(case):
    from deepali.core import Grid
    from deepali.data import Image
    from deepali.utils.imageio import read_image

    g, m, grid, arr = _case_objects(case)
    suffix, compress = case["suffix"], case["compress"]
    with Scratch() as tmp:
        path = tmp.path("sitk", suffix)
        _, why = sitk_write_read(m, arr, path, compress)
        if why:
            raise Skip(f"sitk_cannot_represent:{dispatch_of(suffix)}:{why}")
        what = f"sitk.WriteImage->Image.read {suffix} D={case['D']} C={case['C']} {case['dtype']} compress={compress}"
        img = Image.read(path, align_corners=bool(g["ac"]))
        check_tensor(img.tensor(), arr, "reads_sitk_file", what)
        r = check_grid_vs_model(img.grid(), m, "reads_sitk_file", what)
        gf = Grid.from_file(path, align_corners=bool(g["ac"]))
        r = max(r, check_grid_vs_model(gf, m, "grid_from_sitk_file", f"Grid.from_file({suffix})"))
        if gf.align_corners() != bool(g["ac"]) or img.grid().align_corners() != bool(g["ac"]):
            raise Violation("reads_sitk_file_align_corners", "align_corners argument not applied")
        data2, grid2 = read_image(pathlib.Path(path))
        check_tensor(data2, arr, "read_image_sitk_file", what + " (read_image, Path)")
        r = max(r, check_grid_vs_model(grid2, m, "read_image_sitk_file", what + " (read_image, Path)"))
    return {"ratio": r, "nontrivial": image_nontrivial(case), "labels": labels_of(case)}


# ---------------------------------------------------------------------------------------
# facet 3: flow fields


def flow_bounds(m: ref.GridModel, v: np.ndarray, a: str, b: str):
    """v: (..., D) vectors w.r.t. axes a. Returns (expected vectors w.r.t. b, forward bound, round-trip bound in a)."""
    L = m.matrix(a, b)[:, : m.D]
    Li = m.matrix(b, a)[:, : m.D]
    w = v @ L.T
    vmax = max(float(np.abs(v).max()), 1e-30)
    fwd = K_MODEL * EPS32 * max(float(np.abs(L).sum(1).max()) * vmax, 1e-30)
    back = K_MODEL * EPS32 * vmax + float(np.abs(Li).sum(1).max()) * fwd
    return w, fwd, back


def run_flow(case):
    import SimpleITK as sitk
    from deepali.data import FlowField

    g = case["grid"]
    m = ref.GridModel.from_desc(g)
    grid = make_grid(g)
    D = case["D"]
    suffix, compress = case["suffix"], case["compress"]
    a = case["axes"]
    stored = "world" if case["store"] == "default" else case["store"]
    npdt = NPDT[case["dtype"]]
    shape = (D,) + tuple(int(v) for v in m.n[::-1])
    v = vector_content(shape, case["key"]).astype(npdt)          # (D, ..., X) w.r.t. axes a
    v_last = np.moveaxis(v.astype(np.float64), 0, -1)              # (..., X, D)
    w_last, fwd, back_bound = flow_bounds(m, v_last, a, stored)
    w = np.moveaxis(w_last, -1, 0).astype(npdt)                    # model: what the file should hold
    with Scratch() as tmp:
        _, why = sitk_write_read(m, w, tmp.path("sitk", suffix), compress)
        if why:
            raise Skip(f"sitk_cannot_represent:{dispatch_of(suffix)}:{why}")
        flow = FlowField(torch.from_numpy(v.copy()), grid, _axes(a))
        path = tmp.path("deepali", suffix)
        if case["store"] == "default":
            flow.write(path, compress=compress)
        else:
            flow.write(path, axes=_axes(stored), compress=compress)
        if not torch.equal(flow.tensor(), torch.from_numpy(v)) or flow.axes() != _axes(a):
            raise Violation("write_modified_flow", "FlowField.write changed the flow field")
        what = f"FlowField({a}).write({suffix}, axes={case['store']}) D={D} {case['dtype']} compress={compress}"
        simg = sitk_read(path, "sitk_cannot_read_deepali_file", what=what)
        bad, detail, r0 = sitk_mismatch(simg, m, np.zeros_like(w))
        if bad is not None and bad != "pixels":
            raise Violation("flow_file_" + bad, f"{what}: {detail}")
        stored_arr = sitk.GetArrayFromImage(simg)                  # (..., X, D)
        r1 = check_close(stored_arr, w_last, fwd, "flow_file_vectors_not_world" if stored == "world" else "flow_file_vectors_axes",
                         f"{what}: vectors in the file (read by SimpleITK) vs model {stored} vectors")
        if a == stored and stored_arr.tobytes() != np.ascontiguousarray(np.moveaxis(v, 0, -1)).tobytes():
            # Grid.transform_vectors: "If to_grid == self and to_axes == axes, a reference to the unmodified input is returned"
            raise Violation("flow_file_vectors_inexact", f"{what}: vectors already given w.r.t. the stored axes are not stored as they are "
                                                         f"(max |delta| {float(np.abs(stored_arr - np.moveaxis(v, 0, -1)).max()):.3g})")
        # read back: vectors are tagged with the stored axes and convert back to the original representation
        if case["store"] == "default":
            rd = FlowField.read(path, align_corners=bool(g["ac"]))
        else:
            rd = FlowField.read(path, axes=_axes(stored), align_corners=bool(g["ac"]))
        if not isinstance(rd, FlowField):
            raise Violation("flow_read_type", f"FlowField.read returned {type(rd).__name__}")
        if rd.axes() != _axes(stored):
            raise Violation("flow_read_axes", f"{what}: FlowField.read(...).axes() is {rd.axes()}, file holds {stored} vectors")
        if tuple(rd.shape) != shape:
            raise Violation("flow_read_shape", f"{what}: shape {tuple(rd.shape)} expected {shape}")
        if rd.dtype != tdtype(case["dtype"]):
            raise Violation("flow_read_dtype", f"{what}: dtype {rd.dtype}")
        r2 = check_grid_vs_grid(rd.grid(), grid, m, "flow_read", what, *hop_bounds(suffix))
        check_close(rd.tensor(), w, fwd, "flow_read_vectors", f"{what}: FlowField.read tensor vs model {stored} vectors")
        orig = rd.axes(_axes(a))
        if orig.axes() != _axes(a):
            raise Violation("flow_read_axes", f"{what}: .axes({a}) result is tagged {orig.axes()}")
        r3 = check_close(orig.tensor(), v, back_bound, "flow_roundtrip_vectors",
                         f"{what}: FlowField.read(...).axes({a}) vs original vectors")
    nt = grid_nontrivial(g) and a != stored
    return {"ratio": max(r0, r1, r2, r3), "nontrivial": nt,
            "labels": labels_of(case) + [f"axes={a}", f"store={case['store']}", f"ac={g['ac']}"]}


# ---------------------------------------------------------------------------------------
# facet 4: MetaImage serialisation in memory


META_ARRAY_LAYOUTS = ("c", "fortran", "strided", "readonly", "moved_axis")


def meta_array(arr: np.ndarray, layout: str) -> np.ndarray:
    """The MetaImage element array (..., X[, C]) of the (C, ..., X) model array, held in memory as `layout` says."""
    a = sitk_array(arr)
    if layout == "c":
        return a
    if layout == "fortran":
        return np.asfortranarray(a)
    if layout == "strided":
        big = np.full(a.shape[:-1] + (2 * a.shape[-1],), 7, dtype=a.dtype)
        big[..., ::2] = a
        return big[..., ::2]
    if layout == "readonly":
        a = a.copy()
        a.setflags(write=False)
        return a
    if layout == "moved_axis":     # channels-first array viewed channels-last (what torch hands over for C > 1)
        return arr[0] if arr.shape[0] == 1 else np.moveaxis(np.ascontiguousarray(arr), 0, -1)
    raise AssertionError(layout)


def run_meta_bytes(case):
    from deepali.utils.imageio.meta import meta_image_bytes, read_meta_image

    g, m, grid, arr = _case_objects(case)
    C, compress, via = case["C"], case["compress"], case["via"]
    layout, msb = case.get("array", "c"), bool(case.get("msb", False))
    what = (f"meta_image_bytes({layout} array{', BinaryDataByteOrderMSB' if msb else ''})->read_meta_image({via}) D={case['D']} "
            f"C={C} {case['dtype']} compress={compress}")
    # MetaImage element order: x fastest, channels interleaved -> array (..., X) or (..., X, C)
    element_array = meta_array(arr, layout)
    header = {"CompressedData": compress, "ElementNumberOfChannels": C,
              "ElementSpacing": m.s.copy(), "Offset": m.o.copy(), "TransformMatrix": m.R.copy()}
    if msb:
        header["BinaryDataByteOrderMSB"] = True
    blob = meta_image_bytes(element_array, header)
    if not np.array_equal(element_array, sitk_array(arr)):
        raise Violation("meta_bytes_modified_array", f"{what}: the array argument was changed")
    if not isinstance(blob, bytes):
        raise Violation("meta_bytes_type", f"meta_image_bytes returned {type(blob).__name__}")
    with Scratch() as tmp:
        path = tmp.path("deepali", ".mha")
        with open(path, "wb") as f:
            f.write(blob)
        # the serialised bytes are a MetaImage file SimpleITK understands
        simg = sitk_read(path, "sitk_cannot_read_meta_image_bytes", what=what)
        bad, detail, r = sitk_mismatch(simg, m, arr)
        if bad is not None:
            raise Violation("sitk_reads_meta_image_bytes_" + bad, f"{what}: {detail}")
        # the header dictionary holds float64 values: their text form must give the same doubles back (no float32 involved)
        W = world_scale(m)
        for name, act, exp, scale in (("spacing", simg.GetSpacing(), m.s, m.s), ("direction", simg.GetDirection(), m.R.ravel(), 1.0),
                                      ("origin", simg.GetOrigin(), m.o, W)):
            r = max(r, check_close(np.asarray(act) / scale, np.asarray(exp) / scale, K_DOUBLE * EPS64, "meta_bytes_header_" + name + "_digits",
                                   f"{what}: {name} read by SimpleITK {list(act)} vs float64 header value {np.asarray(exp).tolist()}"))
        # and deepali reads them back, from memory / an open file / a path
        spath = tmp.path("sitk", ".mha")
        _, why = sitk_write_read(m, arr, spath, compress)
        if why:
            raise Skip(f"sitk_cannot_represent:meta:{why}")
        for origin_of_bytes, p in (("deepali", path), ("sitk", spath)):
            if via == "bytes":
                with open(p, "rb") as f:
                    data, gr = read_meta_image(f.read())
            elif via == "reader":
                with open(p, "rb") as f:
                    data, gr = read_meta_image(f)
            elif via == "path":
                data, gr = read_meta_image(pathlib.Path(p))
            else:
                data, gr = read_meta_image(str(p))
            pre = "meta_bytes_readback" if origin_of_bytes == "deepali" else "meta_reads_sitk_bytes"
            check_tensor(data, arr, pre, f"{what} [{origin_of_bytes} bytes]")
            r = max(r, check_grid_vs_model(gr, m, pre, f"{what} [{origin_of_bytes} bytes]", K_TEXT))
    return {"ratio": r, "nontrivial": image_nontrivial(case), "labels": labels_of(case) + [f"via={via}", f"array={layout}", f"msb={msb}"]}


# ---------------------------------------------------------------------------------------
# facet 5: in-memory conversion to and from SimpleITK images


@st.composite
def memory_cases(draw):
    D = draw(gen.dims())
    C = draw(st.sampled_from([1, 2, 3]))
    kind = draw(st.sampled_from(list(KIND_MIX)))
    return {"D": D, "C": C, "dtype": draw(st.sampled_from(list(DTYPES))), "grid": draw(io_grids(D, kind)),
            "key": draw(st.integers(0, 999))}


def run_memory(case):
    import SimpleITK as sitk
    from deepali.core import Grid
    from deepali.data import Image
    from deepali.utils.simpleitk.torch import image_from_tensor, tensor_from_image

    g = case["grid"]
    m = ref.GridModel.from_desc(g)
    grid = make_grid(g)
    D, C = case["D"], case["C"]
    shape = (C,) + tuple(int(v) for v in m.n[::-1])
    arr = content(shape, case["dtype"], case["key"])
    what = f"D={D} C={C} {case['dtype']}"
    image = Image(torch.from_numpy(arr.copy()), grid)
    simg = image.sitk()
    bad, detail, r = sitk_mismatch(simg, m, arr)
    if bad is not None:
        raise Violation("image_sitk_" + bad, f"Image.sitk() {what}: {detail}")
    plain = image_from_tensor(torch.from_numpy(arr.copy()))
    if sitk.GetArrayFromImage(plain).tobytes() != sitk_array(arr).tobytes() or plain.GetNumberOfComponentsPerPixel() != C:
        raise Violation("image_from_tensor_pixels", f"image_from_tensor {what}")
    mimg = model_image(m, arr)
    check_tensor(tensor_from_image(mimg), arr, "tensor_from_image", f"tensor_from_image {what}")
    back = Image.from_sitk(mimg, align_corners=bool(g["ac"]))
    check_tensor(back.tensor(), arr, "image_from_sitk", f"Image.from_sitk {what}")
    r = max(r, check_grid_vs_model(back.grid(), m, "image_from_sitk", f"Image.from_sitk {what}"))
    r = max(r, check_grid_vs_model(Grid.from_sitk(mimg), m, "grid_from_sitk", "Grid.from_sitk"))
    labels = [f"D={D}", f"C={C}", case["dtype"], g["kind"]]
    return {"ratio": r, "nontrivial": grid_nontrivial(g) and (C > 1 or D == 2 or not case["dtype"].startswith("float")),
            "labels": labels}


# ---------------------------------------------------------------------------------------
# facet 6: flow fields to and from SimpleITK images in memory


def flow_memory_enum(tier):
    k, pools = _grids_for(tier, min_size=2)   # cube axes need two samples per axis
    i = 3
    for D in DIMS:
        for dtype in ("float32", "float64"):
            for axes in FLOW_AXES:
                for to in ("default",) + FLOW_AXES:
                    pool = pools[(D, False)]
                    for j in range(2 * k):
                        yield {"D": D, "dtype": dtype, "axes": axes, "to_axes": to, "grid": pool[(2 * i * k + j) % len(pool)],
                               "key": (2 * i * k + j) % 1000}
                    i += 1


def run_flow_memory(case):
    import SimpleITK as sitk
    from deepali.data import FlowField

    g = case["grid"]
    m = ref.GridModel.from_desc(g)
    grid = make_grid(g)
    D = case["D"]
    a, to = case["axes"], case["to_axes"]
    stored = "world" if to == "default" else to
    npdt = NPDT[case["dtype"]]
    shape = (D,) + tuple(int(v) for v in m.n[::-1])
    v = vector_content(shape, case["key"]).astype(npdt)
    v_last = np.moveaxis(v.astype(np.float64), 0, -1)
    w_last, fwd, back_bound = flow_bounds(m, v_last, a, stored)
    what = f"D={D} {case['dtype']}"
    flow = FlowField(torch.from_numpy(v.copy()), grid, _axes(a))
    fimg = flow.sitk() if to == "default" else flow.sitk(axes=_axes(to))
    if not torch.equal(flow.tensor(), torch.from_numpy(v)) or flow.axes() != _axes(a):
        raise Violation("sitk_modified_flow", "FlowField.sitk() changed the flow field")
    bad, detail, r = sitk_mismatch(fimg, m, np.zeros_like(v))
    if bad is not None and bad != "pixels":
        raise Violation("flow_sitk_" + bad, f"FlowField.sitk() {what}: {detail}")
    r = max(r, check_close(sitk.GetArrayFromImage(fimg), w_last, fwd,
                           "flow_sitk_vectors_not_world" if stored == "world" else "flow_sitk_vectors_axes",
                           f"FlowField({a}).sitk(axes={to}) vs model {stored} vectors"))
    if a == stored and sitk.GetArrayFromImage(fimg).tobytes() != np.ascontiguousarray(np.moveaxis(v, 0, -1)).tobytes():
        raise Violation("flow_sitk_vectors_inexact", f"FlowField({a}).sitk(axes={to}): vectors already given w.r.t. the target axes changed")
    wimg = model_image(m, np.moveaxis(w_last, -1, 0).astype(npdt))
    f2 = FlowField.from_sitk(wimg, align_corners=bool(g["ac"])) if to == "default" else \
        FlowField.from_sitk(wimg, axes=_axes(to), align_corners=bool(g["ac"]))
    if not isinstance(f2, FlowField):
        raise Violation("flow_from_sitk_type", f"FlowField.from_sitk returned {type(f2).__name__}")
    if f2.axes() != _axes(stored):
        raise Violation("flow_from_sitk_axes", f"FlowField.from_sitk(axes={to}).axes() is {f2.axes()}")
    if f2.dtype != tdtype(case["dtype"]) or tuple(f2.shape) != shape:
        raise Violation("flow_from_sitk_shape", f"FlowField.from_sitk: shape {tuple(f2.shape)} dtype {f2.dtype}")
    r = max(r, check_grid_vs_model(f2.grid(), m, "flow_from_sitk", f"FlowField.from_sitk {what}"))
    r = max(r, check_close(f2.axes(_axes(a)).tensor(), v, back_bound + K_MODEL * EPS32, "flow_from_sitk_vectors",
                           f"FlowField.from_sitk(model {stored} vectors).axes({a}) vs original"))
    return {"ratio": r, "nontrivial": grid_nontrivial(g) and a != stored,
            "labels": [f"D={D}", case["dtype"], f"axes={a}", f"to={to}", g["kind"], f"ac={g['ac']}"]}


# ---------------------------------------------------------------------------------------
# facet 7: format conversion - an image that came out of a reader is written again
#
# Objects produced by a reader differ from descriptor-built ones in memory layout (the .mha reader returns a transposed
# view as direction matrix, the .mha and SimpleITK readers return multi-channel data as a channels-last view, ...), so a
# writer is exercised with both: read(A) -> write(B) -> read, for all ordered pairs of formats.

VIAS = ("Image.read", "read_image", "from_sitk", "sitk()", "Grid.from_file", "reader_grid", "uri")
HANDOFF_TARGETS = (".mha", ".nii.gz", ".nrrd", ".mhd")     # one per writer (native MetaImage, nibabel, SimpleITK x 2)


def _pool_for(pools, D, suffixes):
    return pools[(D, any(sfx in IDENTITY_ONLY for sfx in suffixes))]


def convert_enum(tier):
    """Ordered pairs of suffixes x D x {scalar, multi-channel}; the writer of the first file alternates so that every pair
    sees a deepali-written and a SimpleITK-written first file (thorough: both for every combination)."""
    k = 1 if tier == "quick" else 4
    _, pools = _grids_for(tier)
    i = 11
    for A in SUFFIXES:
        for B in SUFFIXES:
            for D in DIMS:
                for ci, C in enumerate((1, 2 + (i % 2))):
                    if excluded_known(A, D, C) or excluded_known(B, D, C):
                        continue
                    firsts = ("deepali", "sitk") if tier != "quick" else (("deepali", "sitk")[(D + ci) % 2],)
                    for first in firsts:
                        pool = _pool_for(pools, D, (A, B))
                        for j in range(k):
                            n = i * k + j
                            yield {"kind": "image", "chain": [A, B], "first": first, "via": "Image.read", "D": D, "C": C,
                                   "dtype": DTYPES[n % len(DTYPES)], "compress": bool((n // 5) % 2), "grid": pool[n % len(pool)],
                                   "key": n % 1000}
                        i += 1


def convert_flow_enum(tier):
    k = 1 if tier == "quick" else 4
    _, pools = _grids_for(tier, min_size=2)
    i = 5
    for A in SUFFIXES:
        for B in SUFFIXES:
            for D in DIMS:
                if excluded_known(A, D, D) or excluded_known(B, D, D):
                    continue
                firsts = ("deepali", "sitk") if tier != "quick" else (("deepali", "sitk")[(D + SUFFIXES.index(A) + SUFFIXES.index(B)) % 2],)
                for first in firsts:
                    pool = _pool_for(pools, D, (A, B))
                    for j in range(k):
                        n = i * k + j
                        yield {"kind": "flow", "chain": [A, B], "first": first, "via": ("FlowField.read", "flow.sitk()")[(n // 3) % 2],
                               "D": D, "dtype": ("float32", "float64")[n % 2], "axes": FLOW_AXES[(n // 2) % 4],
                               "store": ("default", "grid")[(n // 8) % 2], "compress": bool((n // 16) % 2),
                               "grid": pool[n % len(pool)], "key": n % 1000}
                    i += 1


def handoff_enum(tier):
    """Every way an image read from format A can be handed to a writer, for every A and one target per writer."""
    k = 1 if tier == "quick" else 4
    _, pools = _grids_for(tier)
    i = 17
    for via in VIAS[1:]:
        for A in SUFFIXES:
            for B in HANDOFF_TARGETS:
                for D in (DIMS if tier != "quick" else (DIMS[(i + i // 4) % 2],)):   # every (via, target) and (source, target) sees both
                    C = 1 + (i % 3)
                    if excluded_known(A, D, C) or excluded_known(B, D, C):
                        continue
                    pool = _pool_for(pools, D, (A, B))
                    for j in range(k):
                        n = i * k + j
                        yield {"kind": "image", "chain": [A, B], "first": ("deepali", "sitk")[(n // 3) % 2], "via": via, "D": D, "C": C,
                               "dtype": DTYPES[n % len(DTYPES)], "compress": bool((n // 5) % 2), "grid": pool[n % len(pool)],
                               "key": n % 1000}
                    i += 1


@st.composite
def chain_cases(draw):
    """Longer chains A -> B -> C (-> D) with a hand-over drawn per case."""
    D = draw(gen.dims())
    n = draw(st.integers(3, 4))
    chain = [draw(st.sampled_from(list(SUFFIXES))) for _ in range(n)]
    ident = any(sfx in IDENTITY_ONLY for sfx in chain)
    kind = "identity" if ident else draw(st.sampled_from(list(KIND_MIX)))
    flow = draw(st.integers(0, 3)) == 0
    case = {"kind": "flow" if flow else "image", "chain": chain, "first": draw(st.sampled_from(["deepali", "sitk"])), "D": D,
            "compress": draw(st.booleans()), "key": draw(st.integers(0, 999))}
    if flow:
        case.update(via=draw(st.sampled_from(["FlowField.read", "flow.sitk()"])), dtype=draw(st.sampled_from(["float32", "float64"])),
                    axes=draw(st.sampled_from(list(FLOW_AXES))), store=draw(st.sampled_from(["default", "grid"])),
                    grid=draw(io_grids(D, kind, 2)))
    else:
        case.update(via=draw(st.sampled_from(list(VIAS))), C=draw(st.sampled_from(list(CHANNELS))),
                    dtype=draw(st.sampled_from(list(DTYPES))), grid=draw(io_grids(D, kind)))
    return case


def _capable(tmp, m, arr, suffixes, compress):
    """SimpleITK alone decides whether every format of the chain can hold the model image."""
    for n, sfx in enumerate(dict.fromkeys(suffixes)):
        _, why = sitk_write_read(m, arr, tmp.path(f"cap{n}", sfx), compress)
        if why:
            raise Skip(f"sitk_cannot_represent:{dispatch_of(sfx)}:{why}")


def _file_uri(path: str) -> str:
    return "file://" + path


def run_convert(case):
    if case["kind"] == "flow":
        return run_convert_flow(case)
    import SimpleITK as sitk
    from deepali.core import Grid
    from deepali.data import Image
    from deepali.utils.imageio import read_image, write_image

    g, m, grid, arr = _case_objects(case)
    chain, compress, via, ac = case["chain"], case["compress"], case["via"], bool(g["ac"])
    ratio = 0.0
    with Scratch() as tmp:
        _capable(tmp, m, arr, chain, compress)
        path = tmp.path("gen0", chain[0])
        if case["first"] == "deepali":
            Image(torch.from_numpy(arr.copy()), grid).write(path, compress=compress)
        else:
            sitk.WriteImage(model_image(m, arr), path, bool(compress))
        Ko, Ka = K_MODEL, K_MODEL          # first file against the model: as in the single-format facets
        writer = case["first"]             # who wrote `path`: every later file of the chain comes from deepali
        for n, sfx in enumerate(chain[1:], 1):
            what = (f"{case['first']}-written {chain[0]}" + "".join(f" -> {c}" for c in chain[1:n + 1]) +
                    f" [{via}] D={case['D']} C={case['C']} {case['dtype']} compress={compress}")
            out = tmp.path(f"gen{n}", sfx)
            if via == "Image.read":
                img = Image.read(path, align_corners=ac)
                img.write(out, compress=compress)
            elif via == "read_image":
                data, gr = read_image(pathlib.Path(path))
                write_image(data, gr, pathlib.Path(out), compress=compress)
                img = Image(data, gr)
            elif via == "from_sitk":
                img = Image.from_sitk(sitk_read(path, "sitk_cannot_read_deepali_file", writer, what), align_corners=ac)
                img.write(out, compress=compress)
            elif via == "sitk()":
                img = Image.read(path, align_corners=ac)
                simg = img.sitk()
                bad, detail, _ = sitk_mismatch(simg, m, arr, max(Ko, Ka))
                if bad is not None:
                    raise Violation("read_then_sitk_" + bad, f"Image.read({chain[n - 1]}).sitk() of {what}: {detail}")
                sitk_write_converted(simg, out, compress, what)
            elif via == "Grid.from_file":
                gr = Grid.from_file(path, align_corners=ac)
                img = Image(torch.from_numpy(arr.copy()), gr)
                img.write(out, compress=compress)
            elif via == "reader_grid":
                img = Image(torch.from_numpy(arr.copy()), Image.read(path, align_corners=ac).grid())
                img.write(out, compress=compress)
            elif via == "uri":
                img = Image.from_uri(_file_uri(path), align_corners=ac)
                img.to_uri(_file_uri(out), compress=compress)
            else:
                raise AssertionError(via)
            # the image that was handed over is the model image ...
            check_tensor(img.tensor(), arr, "convert_read", f"image read from {chain[n - 1]} in {what}")
            ratio = max(ratio, check_grid_vs_model(img.grid(), m, "convert_read", f"image read from {chain[n - 1]} in {what}", max(Ko, Ka)))
            if via != "read_image" and img.grid().align_corners() != ac:
                raise Violation("convert_read_align_corners", f"{what}: align_corners argument not applied")
            # ... and so is the file it was written to, for SimpleITK and for deepali
            ho, ha = hop_bounds(sfx)
            Ko, Ka = Ko + ho, Ka + ha
            simg = sitk_read(out, "sitk_cannot_read_converted_file", what=what)
            bad, detail, r = sitk_mismatch(simg, m, arr, max(Ko, Ka))
            if bad is not None:
                raise Violation("sitk_reads_converted_file_" + bad, f"{what}: {detail}")
            ratio = max(ratio, r)
            back = Image.read(out, align_corners=ac)
            check_tensor(back.tensor(), arr, "convert_readback", what)
            ratio = max(ratio, check_grid_vs_model(back.grid(), m, "convert_readback", what, max(Ko, Ka)))
            if via != "sitk()":
                # this hop alone: the (reader-made) grid that deepali wrote against the grid it reads back, header precision
                ratio = max(ratio, check_grid_vs_grid(back.grid(), img.grid(), m, "convert_hop", what, ho, ha))
                ratio = max(ratio, check_header_vs_grid(simg, img.grid(), m, sfx, "converted_file", what))
            path, writer = out, "deepali"
    labels = [f"{dispatch_of(a)}->{dispatch_of(b)}" for a, b in zip(chain, chain[1:])]
    labels += [f"first={case['first']}", f"via={via}", f"len={len(chain)}", f"D={case['D']}", f"C={case['C']}", case["dtype"], g["kind"]]
    return {"ratio": ratio, "nontrivial": image_nontrivial(dict(case, suffix=chain[0])), "labels": labels}


def run_convert_flow(case):
    import SimpleITK as sitk
    from deepali.data import FlowField

    g = case["grid"]
    m = ref.GridModel.from_desc(g)
    grid = make_grid(g)
    D, chain, compress, via, ac = case["D"], case["chain"], case["compress"], case["via"], bool(g["ac"])
    a = case["axes"]
    stored = "world" if case["store"] == "default" else case["store"]
    npdt = NPDT[case["dtype"]]
    shape = (D,) + tuple(int(v) for v in m.n[::-1])
    v = vector_content(shape, case["key"]).astype(npdt)           # (D, ..., X) w.r.t. axes a
    v_last = np.moveaxis(v.astype(np.float64), 0, -1)
    w_last, fwd, back_bound = flow_bounds(m, v_last, a, stored)
    w = np.moveaxis(w_last, -1, 0).astype(npdt)                    # model: what every file of the chain holds
    kw = {} if case["store"] == "default" else {"axes": _axes(stored)}
    ratio = 0.0
    with Scratch() as tmp:
        _capable(tmp, m, w, chain, compress)
        path = tmp.path("gen0", chain[0])
        if case["first"] == "deepali":
            FlowField(torch.from_numpy(v.copy()), grid, _axes(a)).write(path, compress=compress, **kw)
        else:
            sitk.WriteImage(model_image(m, w), path, bool(compress))
        first_arr = None
        for n, sfx in enumerate(chain[1:], 1):
            what = (f"flow({a}) {case['first']}-written {chain[0]}" + "".join(f" -> {c}" for c in chain[1:n + 1]) +
                    f" [{via}, stored axes {case['store']}] D={D} {case['dtype']} compress={compress}")
            out = tmp.path(f"gen{n}", sfx)
            rd = FlowField.read(path, align_corners=ac, **kw)
            if rd.axes() != _axes(stored):
                raise Violation("flow_read_axes", f"{what}: FlowField.read(...).axes() is {rd.axes()}, file holds {stored} vectors")
            if via == "FlowField.read":
                rd.write(out, compress=compress, **kw)
            else:
                fimg = rd.sitk(**kw)
                sitk_write_converted(fimg, out, compress, what)
            simg = sitk_read(out, "sitk_cannot_read_converted_file", what=what)
            bad, detail, r = sitk_mismatch(simg, m, np.zeros_like(w), K_MODEL + n * K_NIFTI)
            if bad is not None and bad != "pixels":
                raise Violation("converted_flow_file_" + bad, f"{what}: {detail}")
            stored_arr = sitk.GetArrayFromImage(simg)
            # vectors w.r.t. the stored axes are not touched by a conversion that keeps these axes: 'grid' vectors exactly,
            # world vectors up to the identity conversion world -> world of the read-back grid
            ratio = max(ratio, r, check_close(stored_arr, w_last, fwd, "converted_flow_file_vectors",
                                              f"{what}: vectors in the file (read by SimpleITK) vs model {stored} vectors"))
            if first_arr is None:
                first_arr = sitk.GetArrayFromImage(sitk_read(path, "sitk_cannot_read_deepali_file", case["first"], what))
            if stored_arr.shape != first_arr.shape or stored_arr.dtype != first_arr.dtype:
                # only a deepali-written first file can differ from the model in shape/type (the model's own file was verified)
                raise Violation("converted_flow_first_file_shape",
                                f"{what}: SimpleITK reads the first file as {first_arr.dtype}{first_arr.shape}, the converted file "
                                f"(equal to the model) as {stored_arr.dtype}{stored_arr.shape}")
            if stored_arr.tobytes() != first_arr.tobytes():
                raise Violation("converted_flow_vectors_changed",
                                f"{what}: {int((stored_arr != first_arr).sum())} of {stored_arr.size} vector components of the "
                                f"converted file differ from the first file (max {float(np.abs(stored_arr - first_arr).max()):.3g})")
            back = FlowField.read(out, align_corners=ac, **kw)
            if tuple(back.shape) != shape or back.dtype != tdtype(case["dtype"]):
                raise Violation("convert_flow_shape", f"{what}: shape {tuple(back.shape)} dtype {back.dtype}")
            ratio = max(ratio, check_grid_vs_model(back.grid(), m, "convert_flow", what, K_MODEL + n * K_NIFTI))
            if via == "FlowField.read":
                ratio = max(ratio, check_grid_vs_grid(back.grid(), rd.grid(), m, "convert_flow_hop", what, *hop_bounds(sfx)))
            path = out
        orig = back.axes(_axes(a))
        ratio = max(ratio, check_close(orig.tensor(), v, back_bound + (len(chain) - 1) * K_NIFTI * EPS32 * max(float(np.abs(v).max()), 1e-30),
                                       "convert_flow_roundtrip_vectors", f"{what}: FlowField.read(...).axes({a}) vs original vectors"))
    labels = [f"{dispatch_of(x)}->{dispatch_of(y)}" for x, y in zip(chain, chain[1:])]
    labels += ["flow", f"first={case['first']}", f"via={via}", f"len={len(chain)}", f"D={D}", case["dtype"], f"axes={a}",
               f"store={case['store']}", g["kind"]]
    return {"ratio": ratio, "nontrivial": grid_nontrivial(g) and a != stored, "labels": labels}


# ---------------------------------------------------------------------------------------
# facet 8: memory layouts - the same image/grid values held in tensors that are not plain contiguous arrays

DATA_LAYOUTS = ("channels_last", "transposed", "strided", "offset", "fortran", "readonly", "requires_grad", "grad_fn", "channel_less")
# "channel_less": scalar image given to write_image() as (..., X) tensor.  The two native writers state the accepted forms in their
# error message ("write_image() data.ndim must be equal to grid.ndim or grid.ndim + 1"); the SimpleITK-backed writer documents
# (C, ..., X) only (image_from_tensor), so this form is generated for the MetaImage and NIfTI suffixes alone.
GRID_LAYOUTS = ("plain", "direction_view", "numpy_views", "float64_tensors")
LAYOUT_OPS = ("write", "write_image", "sitk()")


def layout_tensor(arr: np.ndarray, layout: str) -> torch.Tensor:
    """Tensor with shape, dtype and values of arr (C, ..., X) whose memory is laid out differently."""
    dt = arr.dtype
    fill = np.array(7, dtype=dt)
    if layout == "contiguous":
        return torch.from_numpy(arr.copy())
    if layout == "channels_last":      # what the .mha / SimpleITK readers return for C > 1
        return torch.from_numpy(np.ascontiguousarray(np.moveaxis(arr, 0, -1))).movedim(-1, 0)
    if layout == "transposed":         # view of an array stored with x and y swapped
        return torch.from_numpy(np.ascontiguousarray(np.swapaxes(arr, -1, -2))).transpose(-1, -2)
    if layout == "strided":            # every second sample of a larger array
        big = np.full(arr.shape[:-1] + (2 * arr.shape[-1],), fill, dtype=dt)
        big[..., ::2] = arr
        return torch.from_numpy(big)[..., ::2]
    if layout == "offset":             # region of interest of a larger array (storage offset, row gaps)
        big = np.full((arr.shape[0] + 1,) + tuple(n + 2 for n in arr.shape[1:]), fill, dtype=dt)
        inner = (slice(1, None),) + tuple(slice(1, -1) for _ in arr.shape[1:])
        big[inner] = arr
        return torch.from_numpy(big)[inner]
    if layout == "fortran":
        return torch.from_numpy(np.asfortranarray(arr))
    if layout == "readonly":
        a = arr.copy()
        a.setflags(write=False)
        import warnings
        with warnings.catch_warnings():
            warnings.simplefilter("ignore")
            return torch.from_numpy(a)
    if layout == "requires_grad":      # leaf that requires grad (floating point only)
        return torch.from_numpy(arr.copy()).requires_grad_(True)
    if layout == "grad_fn":            # result of a differentiable operation (floating point only)
        return torch.from_numpy(arr.copy()).requires_grad_(True) * 1
    raise AssertionError(layout)


def layout_grid(g: dict, m: ref.GridModel, layout: str):
    from deepali.core import Grid

    if layout == "plain":
        return make_grid(g)
    ac = bool(g["ac"])
    size = [int(v) for v in m.n]
    if layout == "direction_view":     # float32 matrix that is a transposed view (what read_meta_image passes to Grid)
        Rt = torch.tensor(np.ascontiguousarray(m.R.T), dtype=torch.float32)
        return Grid(size=size, origin=[float(v) for v in m.o], spacing=[float(v) for v in m.s], direction=Rt.t(), align_corners=ac)
    if layout == "numpy_views":        # NumPy arguments that are views of other arrays
        both = np.stack([m.o, m.s], axis=1)                 # columns: origin, spacing (stride 2)
        return Grid(size=np.asarray(size), origin=both[:, 0], spacing=both[:, 1], direction=np.ascontiguousarray(m.R.T).T,
                    align_corners=ac)
    if layout == "float64_tensors":
        return Grid(size=torch.tensor(size), origin=torch.tensor(m.o, dtype=torch.float64), spacing=torch.tensor(m.s, dtype=torch.float64),
                    direction=torch.tensor(m.R, dtype=torch.float64).flatten(), align_corners=ac)
    raise AssertionError(layout)


def layouts_enum(tier):
    k = 1 if tier == "quick" else 6
    _, pools = _grids_for(tier)
    _, fpools = _grids_for(tier, min_size=2)
    i = 23
    for suffix in SUFFIXES:
        for D in DIMS:
            for layout in DATA_LAYOUTS:
                for kind in ("image", "flow"):
                    C = D if kind == "flow" else 1 + (i % 3)
                    if layout == "channel_less":
                        if kind == "flow" or dispatch_of(suffix) == "sitk":
                            continue
                        C = 1
                    if excluded_known(suffix, D, C):
                        continue
                    pool = (fpools if kind == "flow" else pools)[(D, suffix in IDENTITY_ONLY)]
                    for j in range(k):
                        n = i * k + j
                        floating = kind == "flow" or layout in ("requires_grad", "grad_fn")
                        dtype = ("float32", "float64")[n % 2] if floating else DTYPES[n % len(DTYPES)]
                        case = {"kind": kind, "suffix": suffix, "D": D, "C": C, "dtype": dtype, "layout": layout,
                                "grid_layout": GRID_LAYOUTS[(n // 2) % len(GRID_LAYOUTS)], "op": LAYOUT_OPS[(n // 8) % len(LAYOUT_OPS)],
                                "compress": bool((n // 3) % 2), "grid": pool[n % len(pool)], "key": n % 1000}
                        if kind == "flow":
                            case["axes"] = FLOW_AXES[(n // 4) % 4]
                            case["op"] = ("write", "sitk()")[(n // 8) % 2]
                        if layout == "channel_less":
                            case["op"] = "write_image"
                        yield case
                    i += 1


def run_layouts(case):
    import SimpleITK as sitk
    from deepali.data import FlowField, Image
    from deepali.utils.imageio import write_image

    g = case["grid"]
    m = ref.GridModel.from_desc(g)
    D, C, suffix, compress, op, ac = case["D"], case["C"], case["suffix"], case["compress"], case["op"], bool(g["ac"])
    shape = (C,) + tuple(int(v) for v in m.n[::-1])
    flow = case["kind"] == "flow"
    if flow:
        a = case["axes"]
        arr = vector_content(shape, case["key"]).astype(NPDT[case["dtype"]])
        w_last, fwd, _ = flow_bounds(m, np.moveaxis(arr.astype(np.float64), 0, -1), a, "world")
        expect = np.moveaxis(w_last, -1, 0).astype(arr.dtype)
    else:
        arr = content(shape, case["dtype"], case["key"])
        expect = arr
    what = (f"{case['kind']} data layout {case['layout']}, grid built as {case['grid_layout']}: {op} {suffix} D={D} C={C} "
            f"{case['dtype']} compress={compress}")
    with Scratch() as tmp:
        _capable(tmp, m, expect, [suffix], compress)
        grid = layout_grid(g, m, case["grid_layout"])
        ratio = check_grid_vs_model(grid, m, "layout_grid", f"Grid built from {case['grid_layout']} arguments")
        channel_less = case["layout"] == "channel_less"
        data = torch.from_numpy(arr[0].copy()) if channel_less else layout_tensor(arr, case["layout"])
        given = arr[0] if channel_less else arr
        assert tuple(data.shape) == given.shape and np.array_equal(data.detach().numpy(), given)
        before = (tuple(data.shape), data.stride(), data.storage_offset(), data.requires_grad)
        if not channel_less:
            obj = FlowField(data, grid, _axes(a)) if flow else Image(data, grid)
            check_tensor(obj.tensor(), arr, "layout_image", f"{type(obj).__name__}(data) of {what}")
        path = tmp.path("deepali", suffix)
        if op == "write":
            obj.write(path, compress=compress)
        elif op == "write_image":
            write_image(data, grid, path, compress=compress)
        else:
            simg = obj.sitk()
            if not flow:
                bad, detail, r = sitk_mismatch(simg, m, arr)
                if bad is not None:
                    raise Violation("layout_sitk_" + bad, f"{what}: {detail}")
                ratio = max(ratio, r)
            sitk_write_converted(simg, path, compress, what)
        after = (tuple(data.shape), data.stride(), data.storage_offset(), data.requires_grad)
        if after != before or not np.array_equal(data.detach().numpy(), given):
            raise Violation("write_modified_image", f"{what}: the caller's tensor changed (shape/stride/offset/requires_grad "
                                                    f"{before} -> {after} or its values)")
        simg = sitk_read(path, "sitk_cannot_read_deepali_file", what=what)
        bad, detail, r = sitk_mismatch(simg, m, np.zeros_like(expect) if flow else expect)
        if bad is not None and not (flow and bad == "pixels"):
            raise Violation("layout_file_" + bad, f"{what}: {detail}")
        ratio = max(ratio, r)
        if flow:
            ratio = max(ratio, check_close(sitk.GetArrayFromImage(simg), w_last, fwd, "layout_file_flow_vectors",
                                           f"{what}: vectors in the file (read by SimpleITK) vs model world vectors"))
            if a == "world" and sitk.GetArrayFromImage(simg).tobytes() != sitk_array(arr).tobytes():
                raise Violation("layout_file_flow_vectors_inexact", f"{what}: world vectors are stored as they are, file differs")
            back = FlowField.read(path, align_corners=ac)
            ratio = max(ratio, check_close(back.tensor(), expect, fwd, "layout_readback_flow_vectors", f"{what}: FlowField.read"))
        else:
            back = Image.read(path, align_corners=ac)
            check_tensor(back.tensor(), arr, "layout_readback", what)
        ratio = max(ratio, check_grid_vs_model(back.grid(), m, "layout_readback", what))
    labels = [suffix, f"dispatch={dispatch_of(suffix)}", case["kind"], f"layout={case['layout']}", f"grid={case['grid_layout']}", f"op={op}",
              f"D={D}", f"C={C}", case["dtype"]]
    return {"ratio": ratio, "nontrivial": grid_nontrivial(g), "labels": labels}


# ---------------------------------------------------------------------------------------
# facet 9: file names and path arguments

PATH_STYLES = ("path", "dots", "upper", "space", "newdir", "overwrite", "relative", "uri")
STYLE_NAME = {"path": "image", "dots": "sub-01.T1w.v2", "upper": "IMAGE", "space": "my image", "newdir": "image", "overwrite": "image",
              "relative": "image", "uri": "image"}


def paths_enum(tier):
    k = 1 if tier == "quick" else 6
    _, pools = _grids_for(tier)
    i = 29
    for suffix in SUFFIXES:
        for style in PATH_STYLES:
            for ptype in ("str", "Path"):
                if style == "uri" and ptype == "Path":
                    continue
                for j in range(k):
                    n = i * k + j
                    D = DIMS[n % 2]
                    C = CHANNELS[(n // 2) % 3]
                    if excluded_known(suffix, D, C):
                        continue
                    pool = pools[(D, suffix in IDENTITY_ONLY)]
                    yield {"suffix": suffix, "style": style, "ptype": ptype, "D": D, "C": C, "dtype": DTYPES[(n // 6) % len(DTYPES)],
                           "compress": bool((n // 3) % 2), "grid": pool[n % len(pool)], "key": n % 1000}
                i += 1


def _lower_copy(src_dir: str, dst_dir: str, name: str) -> str:
    for f in sorted(os.listdir(src_dir)):
        if os.path.isfile(os.path.join(src_dir, f)):
            shutil.copyfile(os.path.join(src_dir, f), os.path.join(dst_dir, f.lower()))
    return os.path.join(dst_dir, name.lower())


def run_paths(case):
    import SimpleITK as sitk
    from deepali.core import Grid
    from deepali.data import Image

    g, m, grid, arr = _case_objects(case)
    suffix, style, ptype, compress, ac = case["suffix"], case["style"], case["ptype"], case["compress"], bool(g["ac"])
    what = f"{style} name, {ptype} argument, {suffix} D={case['D']} C={case['C']} {case['dtype']} compress={compress}"
    with Scratch() as tmp:
        _capable(tmp, m, arr, [suffix], compress)
        name = STYLE_NAME[style] + (suffix.upper() if style == "upper" else suffix)
        through_copy = False
        if style == "upper":
            # SimpleITK decides whether it can work with such a name; deepali's own readers/writers lower-case the suffix, so
            # for them the file content is handed to SimpleITK under a lower-case name instead
            _, why = sitk_write_read(m, arr, os.path.join(tmp.subdir("sitk_name"), name), compress)
            if why:
                if dispatch_of(suffix) == "sitk":
                    raise Skip("sitk_cannot_use_name:" + suffix)
                through_copy = True
        d = tmp.subdir("deepali")
        if style == "newdir":            # documented: writers create the output directory (unlink_or_mkdir, write_bytes)
            d = os.path.join(d, "new", "deeper")
        fpath = os.path.join(d, name)
        if style == "overwrite":         # an older, longer file of the same name is replaced
            other = content(arr.shape, case["dtype"], case["key"] + 7)
            sitk.WriteImage(model_image(m, other), fpath, False)
        arg = fpath
        if style == "relative":
            arg = os.path.relpath(fpath)
        if style == "uri":
            arg = _file_uri(fpath)
        if ptype == "Path":
            arg = pathlib.Path(arg)
        image = Image(torch.from_numpy(arr.copy()), grid)
        if style == "uri":
            image.to_uri(arg, compress=compress)
        else:
            image.write(arg, compress=compress)
        if not os.path.isfile(fpath):
            raise Violation("file_not_written", f"{what}: no file {name} after write (directory holds {sorted(os.listdir(d)) if os.path.isdir(d) else None})")
        back = Image.from_uri(arg, align_corners=ac) if style == "uri" else Image.read(arg, align_corners=ac)
        check_tensor(back.tensor(), arr, "path_readback", what)
        if back.grid().align_corners() != ac:
            raise Violation("path_readback_align_corners", f"{what}: align_corners={ac} not applied by the reader")
        r = check_grid_vs_grid(back.grid(), grid, m, "path_readback", what, *hop_bounds(suffix))
        spath = _lower_copy(d, tmp.subdir("lower"), name) if through_copy else fpath
        simg = sitk_read(spath, "sitk_cannot_read_deepali_file", what=what)
        bad, detail, r2 = sitk_mismatch(simg, m, arr)
        if bad is not None:
            raise Violation("sitk_reads_deepali_file_" + bad, f"{what}: {detail}")
        if style != "uri" and not through_copy:
            r2 = max(r2, check_grid_vs_model(Grid.from_file(arg, align_corners=ac), m, "grid_from_deepali_file", f"Grid.from_file, {what}"))
    labels = [suffix, f"dispatch={dispatch_of(suffix)}", f"style={style}", f"arg={ptype}", f"D={case['D']}", f"C={case['C']}", case["dtype"]]
    return {"ratio": max(r, r2), "nontrivial": grid_nontrivial(g), "labels": labels}


# ---------------------------------------------------------------------------------------
# facet 10: dtype argument of the readers, unsigned types without torch counterpart

READ_TARGETS = {   # casts that are exact
    "uint8": ("float32", "float64", "int16", "int32", "int64"), "int16": ("float32", "float64", "int32", "int64"),
    "int32": ("float64", "int64"), "float32": ("float64",), "float64": (), "uint16": ("float32", "float64", "int32", "int64"),
    "uint32": ("float64", "int64"),
}


def options_enum(tier):
    k = 1 if tier == "quick" else 8
    _, pools = _grids_for(tier)
    i = 31
    for suffix in SUFFIXES:
        for D in DIMS:
            for dtype in DTYPES + ("uint16", "uint32"):
                for j in range(k):
                    n = i * k + j
                    C = CHANNELS[n % 3]
                    if excluded_known(suffix, D, C):
                        continue
                    pool = pools[(D, suffix in IDENTITY_ONLY)]
                    yield {"suffix": suffix, "D": D, "C": C, "dtype": dtype, "compress": bool((n // 3) % 2),
                           "first": "sitk" if dtype in WIDENED else ("deepali", "sitk")[(n // 6) % 2], "grid": pool[n % len(pool)], "key": n % 1000}
                i += 1


def run_read_options(case):
    import SimpleITK as sitk
    from deepali.data import FlowField, Image

    g, m, grid, arr = _case_objects(case)
    suffix, compress, src, ac = case["suffix"], case["compress"], case["dtype"], bool(g["ac"])
    what = f"{case['first']}-written {suffix} D={case['D']} C={case['C']} {src} compress={compress}"
    with Scratch() as tmp:
        _capable(tmp, m, arr, [suffix], compress)
        path = tmp.path("file", suffix)
        if case["first"] == "deepali":
            Image(torch.from_numpy(arr.copy()), grid).write(path, compress=compress)
        else:
            sitk.WriteImage(model_image(m, arr), path, bool(compress))
        def natural(t):
            # unsigned 16/32 bit: the readers widen to the next signed type (torch < 2.3 has no such dtypes); a tensor of the
            # stored unsigned type itself (SimpleITK vector pixels with a recent torch) is just as faithful - values decide
            if src in WIDENED and t.dtype == tdtype(WIDENED[src]):
                return arr.astype(NPDT[WIDENED[src]])
            return arr

        img = Image.read(path, align_corners=ac)
        check_tensor(img.tensor(), natural(img), "read_default_dtype", f"Image.read of {what}")
        r = check_grid_vs_model(img.grid(), m, "read_default_dtype", what)
        mimg = model_image(m, arr)
        img2 = Image.from_sitk(mimg)
        check_tensor(img2.tensor(), natural(img2), "from_sitk_default_dtype", f"Image.from_sitk, {src}")
        for target in READ_TARGETS[src]:
            exp = arr.astype(NPDT[target])
            t = tdtype(target)
            cast = Image.read(path, align_corners=ac, dtype=t)
            check_tensor(cast.tensor(), exp, "read_dtype_argument", f"Image.read(dtype={target}) of {what}")
            r = max(r, check_grid_vs_model(cast.grid(), m, "read_dtype_argument", what))
            check_tensor(Image.from_sitk(mimg, dtype=t).tensor(), exp, "from_sitk_dtype_argument", f"Image.from_sitk(dtype={target}), {src}")
            if case["C"] == case["D"] and target.startswith("float"):
                flow = FlowField.read(path, align_corners=ac, dtype=t)
                check_tensor(flow.tensor(), exp, "flow_read_dtype_argument", f"FlowField.read(dtype={target}) of {what}")
                check_tensor(FlowField.from_sitk(mimg, dtype=t).tensor(), exp, "flow_from_sitk_dtype_argument",
                             f"FlowField.from_sitk(dtype={target}), {src}")
    labels = [suffix, f"dispatch={dispatch_of(suffix)}", f"first={case['first']}", f"D={case['D']}", f"C={case['C']}", src]
    return {"ratio": r, "nontrivial": grid_nontrivial(g), "labels": labels}


# ---------------------------------------------------------------------------------------


def selftest():
    import SimpleITK as sitk

    g = {"size": [5, 4, 3], "spacing": [2.0, 0.5, 1.25], "center": [10.0, -3.0, 7.0], "rot": [0.3, -0.2, 0.9], "perm": [0, 1, 2],
         "flip": [1, 1, 1], "ac": True, "kind": "rotation"}
    m = ref.GridModel.from_desc(g)
    arr = content((2, 3, 4, 5), "int16", 3)
    assert arr.min() == -32768 and arr.max() == 32767
    img = model_image(m, arr)
    assert img.GetSize() == (5, 4, 3) and img.GetNumberOfComponentsPerPixel() == 2
    # the model's index->world map is ITK's
    idx = [4, 3, 2]
    assert np.allclose(img.TransformIndexToPhysicalPoint(idx), m.points(np.array([idx], float), "grid", "world")[0])
    assert img.GetPixel(1, 2, 0) == tuple(int(x) for x in arr[:, 0, 2, 1])
    assert sitk_mismatch(img, m, arr)[0] is None
    f = content((1, 2, 2), "float32", 0)
    assert np.isfinite(f).all() and f.dtype == np.float32


_RULE = ("configuration space suffix x D x C x dtype x compress enumerated completely, each configuration crossed with "
         "Hypothesis-drawn grids (quick 2, thorough 20; .vtk identity direction) and hash-noise content over the dtype's range; "
         "non-trivial = oblique anisotropic grid with non-zero origin and (C > 1 or D = 2 or integer dtype); "
         "skipped = SimpleITK itself cannot represent the case in that format")

FACETS = [
    Facet("deepali_writes", run_deepali_write, enumerate=lambda tier: image_enum(tier, 0), exhaustive_tiers=("quick", "thorough"),
          quick=0, thorough=0, shards=16, quick_shards=4, nontrivial=image_nontrivial,
          rule="Image.write -> Image.read / sitk.ReadImage / Grid.from_file; " + _RULE),
    Facet("sitk_writes", run_sitk_write, enumerate=lambda tier: image_enum(tier, 1), exhaustive_tiers=("quick", "thorough"),
          quick=0, thorough=0, shards=16, quick_shards=4, nontrivial=image_nontrivial,
          rule="sitk.WriteImage(model image) -> Image.read / Grid.from_file / read_image; " + _RULE),
    Facet("flow_files", run_flow, enumerate=flow_enum, exhaustive_tiers=("quick", "thorough"),
          quick=0, thorough=0, shards=16, quick_shards=4,
          rule="suffix x D x {float32,float64} x vector axes x stored axes {default=world, grid} x compress enumerated x drawn grids; "
               "FlowField.write -> SimpleITK (world vectors vs model) and FlowField.read(...).axes(original); non-trivial = oblique "
               "anisotropic grid with non-zero origin and original axes != stored axes"),
    Facet("meta_bytes", run_meta_bytes, enumerate=meta_enum, exhaustive_tiers=("quick", "thorough"),
          quick=0, thorough=0, shards=8, quick_shards=2, nontrivial=image_nontrivial,
          rule="D x C x dtype x compress x input kind {bytes, reader, Path, str} enumerated x drawn grids; meta_image_bytes -> "
               "SimpleITK and read_meta_image, SimpleITK .mha bytes -> read_meta_image; non-trivial as for images"),
    Facet("sitk_memory", run_memory, strategy=memory_cases, quick=300, thorough=6000, shards=8, quick_shards=1,
          rule="drawn D, C, dtype, grid: Image.sitk/from_sitk, image_from_tensor/tensor_from_image, Grid.from_sitk against the "
               "model; non-trivial as for images"),
    Facet("convert", run_convert, enumerate=lambda tier: list(convert_enum(tier)) + list(convert_flow_enum(tier)),
          exhaustive_tiers=("quick", "thorough"), strategy=chain_cases, quick=80, thorough=3000, shards=16, quick_shards=4,
          rule="read(A) -> write(B) -> read for all 13 x 13 ordered pairs of suffixes x D x {scalar, multi-channel} (images: "
               "Image.read/Image.write) and x D (flow fields: FlowField.read -> write or sitk() with the stored axes), first file "
               "written by deepali or by SimpleITK from the model (quick: alternating; thorough: both, 4 grids each), dtype/compress/"
               "vector axes/grids cycled; plus Hypothesis-drawn chains of 3-4 formats with a drawn hand-over; every file of the chain "
               "is read by SimpleITK and compared with the model image (values exact, grid within the summed header precision of the "
               "chain); flow vectors w.r.t. the stored axes stay bit-identical along the chain; non-trivial as for images / flows"),
    Facet("handoff", run_convert, enumerate=handoff_enum, exhaustive_tiers=("quick", "thorough"), quick=0, thorough=0, shards=8,
          quick_shards=2,
          rule="hand-overs between the I/O back ends, enumerated: {read_image->write_image with Path, Image.from_sitk(sitk.ReadImage), "
               "Image.read(...).sitk() -> sitk.WriteImage, Image(data, Grid.from_file(A)), Image(data, Image.read(A).grid()), "
               "Image.from_uri/to_uri} x source suffix (13) x target {.mha, .nii.gz, .nrrd, .mhd} (thorough: x D, 4 grids each), "
               "D/C/dtype/compress/first writer cycled; oracle as for convert"),
    Facet("layouts", run_layouts, enumerate=layouts_enum, exhaustive_tiers=("quick", "thorough"), quick=0, thorough=0, shards=8,
          quick_shards=2,
          rule="suffix (13) x D x data layout {channels-last view, transposed view, strided view, offset region of a larger tensor, "
               "Fortran order, read-only NumPy memory, requires_grad leaf, tensor with grad_fn; scalar (..., X) tensor without channel axis "
               "for write_image of the native MetaImage/NIfTI writers} x {image, flow field} enumerated; grid "
               "built from {descriptor, transposed float32 direction view, NumPy views, float64 tensors}, operation {write, write_image, "
               "sitk() -> sitk.WriteImage}, C, dtype, compress, vector axes cycled (thorough: 6 each); the file read by SimpleITK "
               "and by deepali equals the model, the caller's tensor is untouched; non-trivial = oblique anisotropic off-centre grid"),
    Facet("paths", run_paths, enumerate=paths_enum, exhaustive_tiers=("quick", "thorough"), quick=0, thorough=0, shards=8, quick_shards=2,
          rule="suffix (13) x name style {plain, several dots in the stem, upper-case suffix, space, output directory that does not "
               "exist yet, overwrite a longer file, relative path, file:// URI through to_uri/from_uri} x argument type {str, "
               "pathlib.Path} enumerated, D/C/dtype/compress/grid cycled (thorough: 6 each); Image.write -> Image.read / SimpleITK "
               "(under a lower-case copy of the file where SimpleITK itself cannot use an upper-case suffix) / Grid.from_file"),
    Facet("read_options", run_read_options, enumerate=options_enum, exhaustive_tiers=("quick", "thorough"), quick=0, thorough=0, shards=8,
          quick_shards=2,
          rule="suffix (13) x D x stored type {uint8, int16, int32, float32, float64, and uint16, uint32 written by SimpleITK} enumerated, "
               "C/compress/first writer/grid cycled (thorough: 8 each): Image.read / Image.from_sitk without dtype (unsigned 16/32 bit "
               "arrive as int32/int64 with the same values) and with every dtype argument the stored type converts to exactly; "
               "FlowField.read / from_sitk(dtype=...) for C = D"),
    Facet("flow_sitk", run_flow_memory, enumerate=flow_memory_enum, exhaustive_tiers=("quick", "thorough"),
          quick=0, thorough=0, shards=8, quick_shards=1,
          rule="D x {float32,float64} x vector axes x target axes {default=world, world, grid, cube, cube_corners} enumerated x drawn "
               "grids (quick 4, thorough 40 each): FlowField.sitk() holds the model's vectors, FlowField.from_sitk(...).axes(original) "
               "restores them; non-trivial = oblique anisotropic off-centre grid and original axes != target axes"),
]
