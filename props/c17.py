"""C17 - Deformation regularisers have the right null space, sign, scaling and units."""
from __future__ import annotations

import itertools
import math

import numpy as np
import torch
from hypothesis import strategies as st

from vlib import gen, ref
from vlib.case import hash_noise, make_grid, smooth_field, tdtype
from vlib.core import EPS32, EPS64, Facet, Skip, Violation, check_close, eps_of

PROPERTY = "C17"
MANIFEST = {
    "text": "Generated-input search (Hypothesis) over dimensions, shapes, dtypes, batch sizes, derivative modes (incl. gaussian and "
            "bspline), `sigma`, spacings (default / list / scalar / (1, D) / (N, D) / (N, 1) tensors), strides and elastic constants. "
            "Oracles: closed-form values of every gradient term on affine fields (Jacobian A known exactly) and of bending/curvature "
            "on quadratic fields, for every mode with anisotropic spacing and with Gaussian pre-smoothing (interior margins derived "
            "from stencil reach and kernel radius; for mode='gaussian' within the derived deviation of the sampled truncated "
            "derivative-of-Gaussian kernel from the continuous one); null-space relations (translations, affine fields, adding an "
            "affine field); exact homogeneity laws under u -> c u and h -> s h; per-axis spacing laws on fields that vary along one "
            "axis (independent of the other spacings, power law in the spacing of that axis, per batch item); the Gaussian transfer "
            "function on sinusoids (sigma honoured by every term and mode); numpy models of the finite-difference / Sobel / Prewitt "
            "stencils and a float64 tensor-product cubic B-spline on noise fields; the textbook elastic-moduli table for all 9 "
            "valid keyword pairs; inverse-consistency error of exactly inverse affine pairs (matrix, flow - also sampled on lattices "
            "of another size -, mixed) composed with a known constant offset, in cube/voxel/world units for both align_corners "
            "conventions with margins and masks. Exploration: no absence proof; the bounds are K*eps*condition (plus the derived "
            "kernel-discretisation envelopes) so that wrong factors, paddings, index orders and unit conversions are far above them.",
    "note": "Trusted: numpy/scipy (expm, inv), the cubic B-spline basis in vlib/ref.py (self-tested), the reference "
            "constructions in props/c17.py (self-tested elastic table, stencil and Gaussian kernel models). CPU only; float32/float64; "
            "shapes 5..19 per axis. forward/backward/central modes replicate-pad the boundary, so their values are compared in the "
            "interior only; Gaussian kernels (sigma, mode='gaussian') are modelled as documented: sampled Gaussian truncated at "
            "floor(3 sigma), default sigma 0.7355; assertions accept everything between that kernel and the continuous Gaussian.",
    "technique": "property-based testing (Hypothesis) with closed-form reference values, independent numpy reference "
                 "models and metamorphic scaling/null-space relations",
}
ASSUMPTIONS = [
    "derivative modes forward/backward/central use replicate padding (one-sided stencil at one boundary): analytic "
    "values and null-space statements are asserted one (first order) / two (second order) samples away from the boundary",
    "Gaussian pre-smoothing (`sigma`, replicate padding) and mode='gaussian' reproduce polynomials only where the kernel does not "
    "reach the boundary: values on affine / quadratic fields are asserted kernel radius (+ stencil reach; times the derivative "
    "order for mode='gaussian') samples away from it; translations are asserted to give zero everywhere",
    "mode='gaussian' values on affine / quadratic fields and sinusoids are asserted within the rigorous bound of the deviation of "
    "the discrete moments / frequency response of the documented kernel (sampled Gaussian, std sigma or 0.7355, truncated at "
    "floor(3 sigma)) from those of the continuous Gaussian (0.6 % per derivative for the default sigma), normalised or not",
    "second derivatives of the finite-difference modes on non-polynomial fields are not compared with a stencil model (how the "
    "first-order schemes are composed is not documented); the Sobel / Prewitt averaging is the textbook (1 2 1)/4, (1 1 1)/3 "
    "kernel along the other axes and is compared away from the boundary only",
    "elastic constants are generated with Poisson ratio in [0.05, 0.45] (all conversions well conditioned, lambda, mu >= 1e-3)",
    "inverse-consistency pairs are constructed (no rejection) so that forward images of grid points stay inside the sample hull; "
    "flow fields on lattices of another size have at least the size of the grid for align_corners=False (hull containment)",
]

FULL_MODES = (None, "forward_central_backward", "sobel", "prewitt")  # exact on affine fields at every sample
INNER_MODES = ("central", "forward", "backward")                      # exact except in the replicate-padded boundary layer
SMOOTHED = ("sobel", "prewitt")


# ---------------------------------------------------------------------------------------
# helpers: coordinates, fields


def axis_len(shape, a):
    """Number of samples along spatial axis a (x = 0) of a tensor shape (..., X)."""
    return shape[len(shape) - 1 - a]


def coord_arrays(shape, h):
    """List X[a] (x-order) of coordinate arrays of tensor shape `shape`.

    h = None: normalised cube coordinates of Grid(shape) with align_corners=True (the default spacing 2/(n-1) of the
    losses); otherwise x_a = h_a * index_a.
    """
    D = len(shape)
    axes = []
    for dim in range(D):  # tensor order
        n = shape[dim]
        a = D - 1 - dim
        i = np.arange(n, dtype=np.float64)
        axes.append(2 * i / (n - 1) - 1 if h is None else h[a] * i)
    mesh = np.meshgrid(*axes, indexing="ij")
    return mesh[::-1]


def spacing_of(shape, h):
    D = len(shape)
    return [2.0 / (axis_len(shape, a) - 1) for a in range(D)] if h is None else [float(v) for v in h]


def affine_np(X, A, t):
    D = len(X)
    return np.stack([sum(A[c][a] * X[a] for a in range(D)) + t[c] for c in range(D)])


def quadratic_np(X, Q):
    D = len(X)
    return np.stack([0.5 * sum(Q[c][a][b] * X[a] * X[b] for a in range(D) for b in range(D)) for c in range(D)])


def mat(vals, D):
    return [[float(vals[c * D + a]) for a in range(D)] for c in range(D)]


def item_matrix(A, b):
    """Jacobian of batch item b: item 0 uses A, item 1 uses -A^T/2 (catches component/axis transposition)."""
    D = len(A)
    if b == 0:
        return A
    return [[-0.5 * A[a][c] for a in range(D)] for c in range(D)]


def region(mode, order, D):
    """Index of the samples of a 'none' output where a finite-difference mode is exact on polynomials."""
    m = order if mode in INNER_MODES else 0
    return (slice(None), slice(None)) + (slice(m, -m) if m else slice(None),) * D


def interior(margins):
    """Index of the samples of a 'none' output at least margins[a] (x-order) samples away from either boundary."""
    return (slice(None), slice(None)) + tuple(slice(m, -m) if m else slice(None) for m in reversed(margins))


# --- Gaussian kernels -------------------------------------------------------------------------------------------------
# spatial_derivatives() documents: mode='gaussian' convolves with a derivative-of-Gaussian kernel of standard deviation
# `sigma` (default 0.7355, in grid units); for the other modes a positive `sigma` smooths the input with a Gaussian first.
# gaussian_kernel_radius() documents the truncation at 3 standard deviations.  The *ideal* (continuous, untruncated)
# operators reproduce polynomials exactly; the sampled, truncated kernel does so up to the deviation of its discrete
# moments from the continuous ones.  The model below computes those moments / transfer functions in float64; assertions
# accept everything between the ideal operator and the documented sampled kernel (normalised or not).

DEFAULT_GAUSS_SIGMA = 0.7355
SIGMAS = (0.6, 0.9, 1.1)   # 3 sigma is at least 0.2 away from an integer: floor(3 sigma) is the same in float32 and float64


def kernel_radius(sigma):
    return int(math.floor(3.0 * float(sigma))) if sigma else 0


def kernel_samples(sigma):
    r = kernel_radius(sigma)
    x = np.arange(-r, r + 1, dtype=np.float64)
    g = np.exp(-0.5 * (x / sigma) ** 2) / (sigma * math.sqrt(2 * math.pi))
    return x, g


def kernel_moments(sigma):
    """(M0, b): sum of the sampled truncated Gaussian; its second moment over sigma^2 (1 for the continuous Gaussian)."""
    x, g = kernel_samples(sigma)
    return float(g.sum()), float((g * x * x).sum() / sigma ** 2)


def gauss_env(sigma, D, m):
    """Relative deviation allowed for an m-th order derivative of a polynomial of degree m in mode='gaussian'.

    The sampled kernel maps d/dx_a of an affine field to b * M0^(D-1) times the true value (odd derivative kernel along a,
    smoothing kernels along the other axes), second derivatives of quadratics to the square of that.  Normalising either
    kernel divides by M0.  Every variant is a product of m * D factors within [1 - |1 - b|, 1 + |1 - b|] or
    [1 - |1 - M0|, 1 + |1 - M0|]; the envelope is the rigorous bound of |1 - product|."""
    M0, b = kernel_moments(sigma)
    return ((1 + abs(1 - b)) * (1 + abs(1 - M0)) ** D) ** m - 1


def smooth_response(sigma, w):
    """(centre, tolerance) of the amplitude factor of cos(w i) under Gaussian smoothing with std sigma.

    centre: normalised sampled truncated kernel; tolerance: distance to the continuous Gaussian exp(-sigma^2 w^2 / 2) plus
    the effect of not normalising."""
    x, g = kernel_samples(sigma)
    M0 = float(g.sum())
    centre = float((g * np.cos(w * x)).sum() / M0)
    return centre, abs(centre - math.exp(-0.5 * (sigma * w) ** 2)) + abs(1 - M0) * abs(centre)


def gauss_derivative_response(sigma, w, D, m):
    """(centre, tolerance) of R: mode='gaussian' maps cos(w i + phi), constant along the other axes, to
    -R sin(w i + phi) (m = 1) or -R cos(w i + phi) (m = 2, first-derivative kernel applied twice); ideal R = (w G(w))^m."""
    x, g = kernel_samples(sigma)
    M0 = float(g.sum())
    R1 = float((g * x / sigma ** 2 * np.sin(w * x)).sum()) * M0 ** (D - 1)
    centre = R1 ** m
    ideal = (w * math.exp(-0.5 * (sigma * w) ** 2)) ** m
    return centre, abs(centre - ideal) + ((1 + abs(1 - M0)) ** (m * D) - 1) * abs(centre)


def poly_margins(mode, order, sigma, D, stride=None, full_exact=True):
    """Samples (x-order, in output samples) next to the boundary where values on polynomial fields are not asserted.

    mode='gaussian': every pass replicate-pads by the kernel radius -> order * radius.  Other modes: Gaussian pre-smoothing
    (replicate padding) changes a polynomial field within `radius` samples of the boundary; the difference stencils reach
    `order` samples further; B-spline derivatives at output sample j use the coefficients floor(j / s) .. floor(j / s) + 3.
    forward/backward/central replicate-pad the boundary themselves (`order` samples); the other modes are exact up to the
    boundary if full_exact (affine fields; quadratic fields need the central stencil: full_exact=False)."""
    if mode == "gaussian":
        return [order * kernel_radius(sigma or DEFAULT_GAUSS_SIGMA)] * D
    r = kernel_radius(sigma)
    if mode == "bspline":
        s = stride_list(stride, D)
        return [r * s[a] for a in range(D)]
    if mode in INNER_MODES or r or not full_exact:
        return [r + order] * D
    return [0] * D


def min_axis_len(mode, order, sigma, stride_max=1):
    """Smallest number of samples per axis leaving at least two asserted samples (see poly_margins)."""
    if mode == "gaussian":
        return max(5, 2 * order * kernel_radius(sigma or DEFAULT_GAUSS_SIGMA) + 2)
    r = kernel_radius(sigma)
    if mode == "bspline":
        return max(5, 2 * r + 5)
    return max(5, 2 * (r + order) + 2)


def mode_class(term, mode):
    m = mode
    if m is None and term in ("bending", "curvature"):
        m = "sobel"
    if m in SMOOTHED:
        return "smoothed"
    if m == "bspline":
        return "bspline"
    if m == "gaussian":
        return "gaussian"
    return "fd"


def spacing_arg(case, N):
    """Value of the `spacing` argument and per-item spacing lists (x-order)."""
    shape = case["shape"]
    h = case.get("h")
    form = case.get("spacing_form", "list")
    if h is None:
        return None, [None] * N
    if form == "scalar":
        return float(h[0]), [[float(h[0])] * len(shape)] * N
    if form == "per_item" and N > 1:
        # documented: 2-dimensional tensor (N, D); item b: axis a scaled by (1 + b) and rotated so that items differ per axis
        per = [[float(h[(a + b) % len(h)]) * (1 + b) for a in range(len(h))] for b in range(N)] if case.get("rotate_items") \
            else [[float(v) * (1 + b) for v in h] for b in range(N)]
        return torch.tensor(per, dtype=torch.float64), per
    if form == "per_item_iso" and N > 1:
        # documented: (N, 1) tensor = isotropic spacing per item
        per = [[float(h[0]) * (1 + 0.5 * b)] * len(shape) for b in range(N)]
        return torch.tensor([[p[0]] for p in per], dtype=torch.float64), per
    if form == "row":
        # documented: (1, D) tensor
        return torch.tensor([[float(v) for v in h]], dtype=torch.float32), [[float(v) for v in h]] * N
    return [float(v) for v in h], [[float(v) for v in h]] * N


# ---------------------------------------------------------------------------------------
# terms: call + analytic value on a constant Jacobian + upper envelope


TERMS1 = ("grad", "diffusion", "divergence", "tv", "elasticity")
TERMS2 = ("bending", "curvature")


def term_kwargs(case):
    term = case["term"]
    if term == "grad":
        return {"p": case["p"], "q": case["q"]}
    if term == "elasticity":
        return {"first_parameter": case["lam"], "second_parameter": case["mu"]}
    return {}


def call_term(term, u, **kw):
    import deepali.losses.functional as L

    fn = {"grad": L.grad_loss, "diffusion": L.diffusion_loss, "divergence": L.divergence_loss, "tv": L.total_variation_loss,
          "elasticity": L.elasticity_loss, "bending": L.bending_loss, "curvature": L.curvature_loss}[term]
    return fn(u, **kw)


def grad_value(J, p, q):
    """Documented value sum(abs(du)**p)**q; p = 0: plain sum of the partial derivatives; q = 0: abs of the sum; q None: 1/p."""
    flat = [v for row in J for v in row]
    if q is None:
        q = 1.0 / p
    s = sum(flat) if p == 0 else sum(abs(v) ** p for v in flat)
    if q == 0:
        return abs(s)
    if q == 1:
        return s
    return s ** q


def term_value(case, J):
    """Analytic point value of a first-order term for Jacobian J[c][a] = du_c/dx_a."""
    D = len(J)
    term = case["term"]
    tr = sum(J[i][i] for i in range(D))
    if term == "grad":
        return grad_value(J, case["p"], case["q"])
    if term == "diffusion":
        return 0.5 * sum(v * v for row in J for v in row)
    if term == "tv":
        return sum(abs(v) for row in J for v in row)
    if term == "divergence":
        return 0.5 * tr * tr
    if term == "elasticity":
        return case["lam"] / 2 * tr * tr + case["mu"] / 4 * sum((J[j][k] + J[k][j]) ** 2 for j in range(D) for k in range(D))
    raise ValueError(term)


def term_error(case, J, delta):
    """Largest change of the analytic value when every derivative moves by at most delta (monotone envelopes)."""
    D = len(J)
    term = case["term"]
    flat = [abs(v) for row in J for v in row]
    tr = abs(sum(J[i][i] for i in range(D)))
    if term in ("grad", "diffusion", "tv"):
        p, q = {"grad": (case.get("p"), case.get("q")), "diffusion": (2, 1), "tv": (1, 1)}[term]
        if q is None:
            q = 1.0 / p
        if p == 0:
            s = abs(sum(v for row in J for v in row))
            ds = D * D * delta
            return ds if q in (0, 1) else (s + ds) ** q - s ** q
        if q == 0:
            q = 1
        s = sum(v ** p for v in flat)
        hi = sum((v + delta) ** p for v in flat)
        lo = sum(max(v - delta, 0.0) ** p for v in flat)
        e = max(hi ** q - s ** q, s ** q - lo ** q)
        return 0.5 * e if term == "diffusion" else e
    if term == "divergence":
        return 0.5 * ((tr + D * delta) ** 2 - tr ** 2)
    if term == "elasticity":
        e = case["lam"] / 2 * ((tr + D * delta) ** 2 - tr ** 2)
        e += case["mu"] / 4 * sum((abs(J[j][k] + J[k][j]) + 2 * delta) ** 2 - (J[j][k] + J[k][j]) ** 2
                                  for j in range(D) for k in range(D))
        return e
    raise ValueError(term)


def term_vmax(case, D, d1, d2):
    """Upper bound of the point value of a term when all first (second) derivatives are bounded by d1 (d2)."""
    term = case["term"]
    if term == "grad":
        q = case["q"] if case["q"] else 1
        return (D * D * d1 ** case["p"]) ** q
    if term == "diffusion":
        return 0.5 * D * D * d1 ** 2
    if term == "tv":
        return D * D * d1
    if term == "divergence":
        return 0.5 * (D * d1) ** 2
    if term == "elasticity":
        return (case["lam"] / 2 + case["mu"]) * D * D * d1 ** 2
    if term == "bending":
        return D ** 3 * d2 ** 2
    if term == "curvature":
        return 0.5 * D * (D * d2) ** 2
    raise ValueError(term)


def term_degree(case):
    """(derivative order m, homogeneity degree k): L(c u) = |c|^k L(u), L(u; s h) = s^(-m k) L(u; h)."""
    term = case["term"]
    if term == "grad":
        return 1, case["p"] * (case["q"] if case["q"] else 1)
    if term == "tv":
        return 1, 1
    if term in ("bending", "curvature"):
        return 2, 2
    return 1, 2


def out_shape(case, N):
    shape = case["shape"]
    D = len(shape)
    if case["mode"] != "bspline":
        return (N, 1) + tuple(shape)
    s = stride_list(case["stride"], D)
    return (N, 1) + tuple((shape[dim] - 3) * s[D - 1 - dim] for dim in range(D))


def stride_list(stride, D):
    if stride is None:
        return [1] * D
    if isinstance(stride, int):
        return [stride] * D
    return list(stride)


# ---------------------------------------------------------------------------------------
# strategies shared by the derivative-based facets


def draw_shape(draw, D, lo=5, hi2=12, hi3=8):
    return draw(st.lists(st.integers(lo, hi2 if D == 2 else hi3), min_size=D, max_size=D))


def draw_spacing(draw, D, N, allow_none=True):
    kinds = ["cube", "world", "world"] if allow_none else ["world"]
    if draw(st.sampled_from(kinds)) == "cube":
        return None, "list"
    form = draw(st.sampled_from(["list", "scalar", "row", "per_item", "per_item", "per_item_iso"] if N > 1
                                else ["list", "list", "scalar", "row"]))
    h = draw(gen.spacings(D, 0.2, 5.0))
    if form in ("scalar", "per_item_iso"):
        h = [h[0]] * D
    return h, form


def draw_mode(draw, D, modes):
    mode = draw(st.sampled_from(modes))
    stride = None
    if mode == "bspline":
        stride = draw(st.one_of(st.none(), st.sampled_from([1, 2, 3]), st.lists(st.sampled_from([1, 2, 3]), min_size=D, max_size=D)))
    return mode, stride


def draw_sigma(draw, mode, D, order):
    """`sigma`: None mostly; the kernel std of mode='gaussian' (radius kept small enough for the asserted interior to be
    affordable), the pre-smoothing std of the other modes."""
    if mode == "gaussian":
        big = D == 2 or order == 1
        return draw(st.sampled_from([None, None, 0.9, 1.1] if big else [None, None, 0.9]))
    return draw(st.sampled_from([None, None, None, 0.6, 0.9, 1.1] if D == 2 else [None, None, None, 0.6, 0.9]))


def draw_poly_shape(draw, D, mode, order, sigma, more2=6, more3=3):
    lo = min_axis_len(mode, order, sigma)
    return draw(st.lists(st.integers(lo, lo + (more2 if D == 2 else more3)), min_size=D, max_size=D))


def draw_term1(draw, case, pq=None):
    term = draw(st.sampled_from(TERMS1))
    case["term"] = term
    if term == "grad":
        p, q = draw(st.sampled_from(pq))
        case["p"], case["q"] = p, q
    if term == "elasticity":
        case["lam"] = draw(st.one_of(st.just(0.0), gen.qfloat(0.1, 3.0, 0.1)))
        case["mu"] = draw(st.one_of(st.just(0.0), gen.qfloat(0.1, 3.0, 0.1)))


# ---------------------------------------------------------------------------------------
# facet 1: analytic values of the gradient terms on affine fields (translations => 0)

PQ_AFFINE = [(2, 1), (1, 1), (2, 0.5), (2, None), (1, None), (3, 1), (3, None), (1.5, 1), (1, 2), (2, 2), (2, 0), (1, 0),
             (0, 0), (0, 1), (0, 2), (4, 0.25)]


@st.composite
def affine_cases(draw):
    D = draw(gen.dims())
    N = draw(st.sampled_from([1, 1, 2]))
    case = {"D": D, "N": N, "dtype": draw(gen.dtypes())}
    case["mode"], case["stride"] = draw_mode(draw, D, list(FULL_MODES) + list(INNER_MODES) + ["bspline", "sobel", "prewitt",
                                                                                             "gaussian", "gaussian"])
    case["sigma"] = draw_sigma(draw, case["mode"], D, 1)
    case["shape"] = draw_poly_shape(draw, D, case["mode"], 1, case["sigma"])
    case["h"], case["spacing_form"] = draw_spacing(draw, D, N)
    case["rotate_items"] = draw(st.booleans())
    draw_term1(draw, case, PQ_AFFINE)
    translation = draw(st.sampled_from([False, False, False, False, True]))
    case["A"] = [0.0] * (D * D) if translation else draw(st.lists(gen.qfloat(-2.0, 2.0, 0.01), min_size=D * D, max_size=D * D))
    case["t"] = draw(st.lists(gen.qfloat(-3.0, 3.0, 0.01), min_size=D, max_size=D))
    return case


def run_affine(case):
    D, shape, N = case["D"], case["shape"], case["N"]
    dt = tdtype(case["dtype"])
    eps = eps_of(dt)
    mode = case["mode"]
    term = case["term"]
    sigma = case.get("sigma")
    A = mat(case["A"], D)
    sp_arg, per = spacing_arg(case, N)
    fields, Js = [], []
    for b in range(N):
        Jb = item_matrix(A, b)
        Js.append(Jb)
        fields.append(affine_np(coord_arrays(shape, per[b]), Jb, case["t"]))
    unp = np.stack(fields)
    u = torch.tensor(unp, dtype=dt)
    u0 = u.clone()
    kw = dict(term_kwargs(case), mode=mode, spacing=sp_arg, stride=case["stride"])
    if sigma is not None:
        kw["sigma"] = sigma
    none = call_term(term, u, reduction="none", **kw)
    if not torch.equal(u, u0):
        raise Violation("input_modified", f"{term}_loss(mode={mode}) modified its input")
    cls = mode_class(term, mode)
    want_shape = out_shape(case, N)
    if tuple(none.shape) != want_shape:
        raise Violation("none_shape", f"{term} mode={mode} reduction='none' shape {tuple(none.shape)} != {want_shape}")
    if none.dtype != dt:
        raise Violation("none_dtype", f"{term} mode={mode}: result dtype {none.dtype} for input {dt}")
    transl = all(v == 0 for v in case["A"])
    # a translation is constant: replicate padding (finite differences, Gaussian kernels) keeps it constant up to the boundary
    margins = [0] * D if transl else poly_margins(mode, 1, sigma, D, case["stride"])
    reg = interior(margins)
    env = gauss_env(sigma or DEFAULT_GAUSS_SIGMA, D, 1) if mode == "gaussian" else 0.0
    worst = 0.0
    vals = []
    bound_max = 0.0
    for b in range(N):
        hmin = min(spacing_of(shape, per[b]))
        U = float(np.abs(unp[b]).max())
        amax = max(abs(v) for row in Js[b] for v in row)
        delta = 8 * (eps * U / hmin + EPS32 * amax) + env * amax
        val = term_value(case, Js[b])
        bound = term_error(case, Js[b], delta) + 32 * eps * abs(val) * 4
        vals.append(val)
        bound_max = max(bound_max, bound)
        got = none[b:b + 1][reg]
        worst = max(worst, check_close(got, val, bound, f"affine_value:{cls}",
                                       f"{term}{term_kwargs(case)} mode={mode} sigma={sigma} spacing={sp_arg} item {b}: point values "
                                       f"on affine field (J={Js[b]}), margins {margins}"))
    if not any(margins):
        mean = call_term(term, u, reduction="mean", **kw)
        total = call_term(term, u, reduction="sum", **kw)
        cnt = int(np.prod(want_shape[2:]))
        if mean.ndim != 0 or total.ndim != 0:
            raise Violation("reduction_shape", f"{term}: mean/sum are not scalars: {tuple(mean.shape)} {tuple(total.shape)}")
        worst = max(worst, check_close(mean, sum(vals) / N, bound_max, f"affine_mean:{cls}", f"{term} mode={mode} sigma={sigma} reduction='mean'"))
        worst = max(worst, check_close(total, sum(vals) * cnt, bound_max * cnt * N, f"affine_sum:{cls}", f"{term} mode={mode} sigma={sigma} reduction='sum'"))
    nonsym = any(abs(A[i][j] - A[j][i]) > 0.05 for i in range(D) for j in range(D) if i != j)
    labels = [f"term={term}", f"mode={mode}", f"D={D}", case["dtype"], f"N={N}",
              "spacing=default" if case["h"] is None else f"spacing={case['spacing_form']}",
              "translation" if transl else "affine", "sigma" if sigma else "nosigma"]
    if term == "grad":
        labels.append(f"pq={case['p']},{case['q']}")
    return {"ratio": worst, "nontrivial": (nonsym or transl) and (mode is not None or case["h"] is not None), "labels": labels}


# ---------------------------------------------------------------------------------------
# facet 2: bending / curvature: zero on affine fields, unchanged by adding one, analytic on quadratic fields


@st.composite
def second_cases(draw):
    D = draw(gen.dims())
    N = draw(st.sampled_from([1, 1, 2]))
    case = {"D": D, "N": N, "dtype": draw(gen.dtypes()), "term": draw(st.sampled_from(TERMS2))}
    case["mode"], case["stride"] = draw_mode(draw, D, [None, None, "sobel", "prewitt", "forward_central_backward",
                                                       "central", "forward", "backward", "bspline", "gaussian", "gaussian"])
    case["sigma"] = draw_sigma(draw, case["mode"], D, 2)
    case["shape"] = draw_poly_shape(draw, D, case["mode"], 2, case["sigma"])
    case["h"], case["spacing_form"] = draw_spacing(draw, D, N)
    case["rotate_items"] = draw(st.booleans())
    case["A"] = draw(st.lists(gen.qfloat(-2.0, 2.0, 0.01), min_size=D * D, max_size=D * D))
    case["t"] = draw(st.lists(gen.qfloat(-3.0, 3.0, 0.01), min_size=D, max_size=D))
    case["extra"] = draw(st.sampled_from(["none", "quadratic", "quadratic", "smooth", "noise"]))
    if case["extra"] == "quadratic":
        case["Q"] = draw(st.lists(gen.qfloat(-1.0, 1.0, 0.01), min_size=D ** 3, max_size=D ** 3))
    elif case["extra"] == "smooth":
        case["waves"] = draw(st.lists(st.integers(1, 2), min_size=D, max_size=D))
        case["amp"] = draw(gen.qfloat(0.05, 1.0, 0.05))
    elif case["extra"] == "noise":
        case["key"] = draw(st.integers(0, 10 ** 6))
        case["amp"] = draw(gen.qfloat(0.05, 1.0, 0.05))
    return case


def quad_tensor(case, h):
    """Symmetric second-derivative tensors Q[c][a][b], scaled to the extent of the domain (spacing h of the item)."""
    D, shape = case["D"], case["shape"]
    ext = [1.0 if h is None else h[a] * (axis_len(shape, a) - 1) for a in range(D)]
    raw = case["Q"]
    Q = [[[0.0] * D for _ in range(D)] for _ in range(D)]
    for c in range(D):
        for a in range(D):
            for b in range(D):
                r = 0.5 * (raw[(c * D + a) * D + b] + raw[(c * D + b) * D + a])
                Q[c][a][b] = r / (ext[a] * ext[b])
    return Q


def extra_field(case, b, h):
    D, shape, extra = case["D"], case["shape"], case["extra"]
    if extra == "none":
        return np.zeros((D,) + tuple(shape)), 0.0
    if extra == "quadratic":
        Q = quad_tensor(case, h)
        if b == 1:
            Q = [[[-0.5 * v for v in row] for row in Qc] for Qc in Q[::-1]]
        w = quadratic_np(coord_arrays(shape, h), Q)
        return w, Q
    if extra == "smooth":
        w = np.stack([smooth_field(shape, [case["waves"][(c + k + b) % D] for k in range(D)], case["amp"] * (1 - 0.3 * c)) for c in range(D)])
        return w, None
    w = hash_noise((D,) + tuple(shape), case["key"] + 7919 * b, -case["amp"], case["amp"])
    return w, None


def run_second(case):
    D, shape, N = case["D"], case["shape"], case["N"]
    dt = tdtype(case["dtype"])
    eps = eps_of(dt)
    mode, term = case["mode"], case["term"]
    sigma = case.get("sigma")
    cls = mode_class(term, mode)
    A = mat(case["A"], D)
    sp_arg, per = spacing_arg(case, N)
    hmin = min(min(spacing_of(shape, per[b])) for b in range(N))
    aff, ext, Qs = [], [], []
    for b in range(N):
        aff.append(affine_np(coord_arrays(shape, per[b]), item_matrix(A, b), case["t"]))
        w, Q = extra_field(case, b, per[b])
        ext.append(w)
        Qs.append(Q)
    aff, ext = np.stack(aff), np.stack(ext)
    kw = dict(mode=mode, spacing=sp_arg, stride=case["stride"])
    if sigma is not None:
        kw["sigma"] = sigma
    # where second derivatives of affine (null space) / quadratic (central stencil needed) fields are exact
    m_null = poly_margins(mode, 2, sigma, D, case["stride"])
    m_quad = poly_margins(mode, 2, sigma, D, case["stride"], full_exact=False)
    reg = interior(m_null)
    want_shape = out_shape(case, N)
    both = torch.tensor(aff + ext, dtype=dt)
    none = call_term(term, both, reduction="none", **kw)
    if tuple(none.shape) != want_shape:
        raise Violation("none_shape", f"{term} mode={mode} reduction='none' shape {tuple(none.shape)} != {want_shape}")
    if float(none.min()) < 0:
        raise Violation("negative", f"{term} mode={mode}: negative point value {float(none.min()):.3g}")
    U = float(np.abs(aff + ext).max())
    W = float(np.abs(ext).max())
    nterm = D ** 3
    worst = 0.0
    extra = case["extra"]
    if extra == "none":
        d2err = 16 * eps * U / hmin ** 2
        bound = nterm * d2err ** 2
        worst = check_close(none[reg], 0.0, bound, f"affine_nonzero:{cls}",
                            f"{term} mode={mode} sigma={sigma} spacing={sp_arg} of an affine field, margins {m_null}")
        if not any(m_null):
            mean = call_term(term, both, reduction="mean", **kw)
            worst = max(worst, check_close(mean, 0.0, bound, f"affine_nonzero:{cls}", f"{term} mode={mode} (mean) of an affine field"))
    else:
        if extra == "quadratic":
            env = gauss_env(sigma or DEFAULT_GAUSS_SIGMA, D, 2) if mode == "gaussian" else 0.0
            for b in range(N):
                Q = Qs[b]
                qmax = max(abs(v) for Qc in Q for row in Qc for v in row)
                if term == "bending":
                    val = sum(v * v for Qc in Q for row in Qc for v in row)
                else:
                    val = 0.5 * sum(sum(Qc[a][a] for a in range(D)) ** 2 for Qc in Q)
                d2err = 16 * (eps * U / hmin ** 2 + EPS32 * qmax) + env * qmax
                bound = nterm * (2 * qmax * d2err + d2err ** 2) + 64 * eps * val
                worst = max(worst, check_close(none[b:b + 1][interior(m_quad)], val, bound, f"quadratic_value:{cls}",
                                               f"{term} mode={mode} sigma={sigma} spacing={sp_arg} item {b}: interior values on "
                                               f"quadratic + affine field, margins {m_quad}"))
            d2max = max(abs(v) for Q in Qs for Qc in Q for row in Qc for v in row)
        else:
            d2max = 4 * W / hmin ** 2
        only = torch.tensor(ext, dtype=dt)
        base = call_term(term, only, reduction="none", **kw)
        d2err = 16 * (eps * U / hmin ** 2)
        bound = nterm * (2 * d2max * d2err + d2err ** 2)
        worst = max(worst, check_close(none[reg], base[reg], bound, f"affine_invariance:{cls}",
                                       f"{term} mode={mode} sigma={sigma} spacing={sp_arg}: value changed by adding an affine field "
                                       f"to a {extra} field, margins {m_null}"))
    amax = max(abs(v) for v in case["A"])
    return {"ratio": worst, "nontrivial": amax > 0.1 and len(set(shape)) > 1,
            "labels": [f"term={term}", f"mode={mode}", f"extra={extra}", f"D={D}", case["dtype"], f"N={N}",
                       "spacing=default" if case["h"] is None else f"spacing={case['spacing_form']}", "sigma" if sigma else "nosigma"]}


# ---------------------------------------------------------------------------------------
# facet 3: sign, homogeneity in the field, power law in the spacing (all modes incl. gaussian and bspline)

PQ_SCALING = [(2, 1), (1, 1), (3, 1), (1.5, 1), (1, 2), (2, 2), (2, 0)]
ALL_MODES = [None, "forward_central_backward", "central", "forward", "backward", "sobel", "prewitt", "gaussian", "bspline"]


@st.composite
def scaling_cases(draw):
    D = draw(gen.dims())
    N = draw(st.sampled_from([1, 1, 2]))
    case = {"D": D, "shape": draw_shape(draw, D), "N": N, "dtype": draw(gen.dtypes())}
    if draw(st.booleans()):
        draw_term1(draw, case, PQ_SCALING)
    else:
        case["term"] = draw(st.sampled_from(TERMS2))
    case["h"] = draw(gen.spacings(D, 0.2, 5.0))
    case["spacing_form"] = "list"
    case["mode"], case["stride"] = draw_mode(draw, D, ALL_MODES)
    case["sigma"] = draw(st.sampled_from([None, None, 0.8, 1.5]))
    case["content"] = draw(st.sampled_from(["noise", "smooth"]))
    case["key"] = draw(st.integers(0, 10 ** 6))
    case["amp"] = draw(gen.qfloat(0.1, 2.0, 0.1))
    case["c"] = draw(st.one_of(gen.qfloat(0.1, 3.0, 0.01), gen.qfloat(-3.0, -0.1, 0.01), st.sampled_from([-1.0, 2.0, 0.5])))
    case["s"] = draw(st.one_of(gen.logfloat(0.25, 4.0), st.sampled_from([2.0, 0.5])))
    return case


def content_field(case):
    D, shape, N = case["D"], case["shape"], case["N"]
    amp = case["amp"]
    if case["content"] == "noise":
        return hash_noise((N, D) + tuple(shape), case["key"], -amp, amp)
    return np.stack([np.stack([smooth_field(shape, [1 + (c + b + k + case["key"]) % 2 for k in range(D)], amp * (1 - 0.2 * c))
                               for c in range(D)]) for b in range(N)])


def run_scaling(case):
    D, N = case["D"], case["N"]
    dt = tdtype(case["dtype"])
    eps = eps_of(dt)
    term, mode = case["term"], case["mode"]
    cls = mode_class(term, mode)
    unp = content_field(case)
    u = torch.tensor(unp, dtype=dt)
    h = [float(v) for v in case["h"]]
    c, s = float(case["c"]), float(case["s"])
    m, k = term_degree(case)
    kw = dict(term_kwargs(case), mode=mode, sigma=case["sigma"], stride=case["stride"], reduction="none")
    base = call_term(term, u, spacing=h, **kw)
    want_shape = out_shape(case, N)
    if tuple(base.shape) != want_shape:
        raise Violation("none_shape", f"{term} mode={mode} reduction='none' shape {tuple(base.shape)} != {want_shape}")
    if not bool(torch.isfinite(base).all()):
        raise Violation("nonfinite", f"{term} mode={mode}: non-finite values for a finite field")
    if float(base.min()) < 0:
        raise Violation("negative", f"{term}{term_kwargs(case)} mode={mode}: negative point value {float(base.min()):.3g}")
    M = float(np.abs(unp).max())
    hmin = min(h)
    d1, d2 = 2 * M / hmin, 4 * M / hmin ** 2
    vmax = term_vmax(case, D, d1, d2)
    # field scaling  u -> c u
    scaled = call_term(term, u * c, spacing=h, **kw)
    f = abs(c) ** k
    bound = 64 * max(k, 1) * eps * vmax * max(f, 1.0)
    r1 = check_close(scaled, base.double() * f, bound, f"field_scaling:{cls}",
                     f"{term}{term_kwargs(case)} mode={mode} sigma={case['sigma']}: L(c u) != |c|^{k:g} L(u) for c={c}")
    # spacing scaling  h -> s h
    respaced = call_term(term, u, spacing=[s * v for v in h], **kw)
    g = s ** (-m * k)
    bound = 64 * max(m * k, 1) * (eps + EPS32) * vmax * max(g, 1.0)
    r2 = check_close(respaced, base.double() * g, bound, f"spacing_scaling:{cls}",
                     f"{term}{term_kwargs(case)} mode={mode} sigma={case['sigma']}: L(u; s h) != s^-{m * k:g} L(u; h) for s={s}")
    aniso = max(h) / min(h) > 1.05
    labels = [f"term={term}", f"mode={mode}", f"D={D}", case["dtype"], case["content"], "sigma" if case["sigma"] else "nosigma"]
    return {"ratio": max(r1, r2), "nontrivial": aniso and float(base.max()) > 0 and abs(abs(c) - 1) > 0.05 and abs(s - 1) > 0.05,
            "labels": labels}


# ---------------------------------------------------------------------------------------
# facet 4: reductions, module forms, linear transformations


def module_specs():
    import deepali.losses as LS
    import deepali.losses.flow as LF

    return {"grad": LF.GradLoss, "diffusion": LS.Diffusion, "divergence": LS.Divergence, "tv": LS.TotalVariation,
            "elasticity": LS.Elasticity, "bending": LS.Bending, "curvature": LS.Curvature}


ELASTIC_NAMES = {"lam": "first_parameter", "mu": "second_parameter", "G": "shear_modulus", "nu": "poissons_ratio", "E": "youngs_modulus"}
VALID_PAIRS = [("lam", "mu"), ("lam", "G"), ("lam", "nu"), ("lam", "E"), ("mu", "nu"), ("mu", "E"), ("G", "nu"), ("G", "E"), ("nu", "E")]


@st.composite
def module_cases(draw):
    D = draw(gen.dims())
    N = draw(st.sampled_from([1, 2]))
    case = {"D": D, "shape": draw_shape(draw, D), "N": N, "dtype": draw(gen.dtypes())}
    if draw(st.booleans()):
        draw_term1(draw, case, PQ_SCALING + [(2, None), (2, 0.5)])
        if case["term"] == "elasticity":
            case["lam"] = draw(gen.qfloat(0.1, 3.0, 0.1))
            case["mu"] = draw(gen.qfloat(0.1, 3.0, 0.1))
            case["pair"] = list(draw(st.sampled_from([("lam", "mu"), ("lam", "G"), ("lam", "nu"), ("mu", "nu"), ("G", "nu"), ("G", "E"), ("mu", "E"),
                                                      ("material",), ("material",), ("material",)])))
    else:
        case["term"] = draw(st.sampled_from(TERMS2))
    case["h"], case["spacing_form"] = draw_spacing(draw, D, N)
    case["mode"], case["stride"] = draw_mode(draw, D, ALL_MODES + ["bspline"])
    case["sigma"] = draw(st.sampled_from([None, None, 1.0]))
    case["content"] = "noise"
    case["key"] = draw(st.integers(0, 10 ** 6))
    case["amp"] = draw(gen.qfloat(0.1, 2.0, 0.1))
    case["linear"] = draw(st.sampled_from(["hom", "square", "translation"]))
    return case


def elastic_quantities(lam, mu):
    """Textbook forward formulas: all moduli from the Lame parameters."""
    return {"lam": lam, "mu": mu, "G": mu, "E": mu * (3 * lam + 2 * mu) / (lam + mu), "nu": lam / (2 * (lam + mu))}


def run_modules(case):
    D, N = case["D"], case["N"]
    dt = tdtype(case["dtype"])
    eps = eps_of(dt)
    term, mode = case["term"], case["mode"]
    u = torch.tensor(content_field(case), dtype=dt)
    sp_arg, _ = spacing_arg(case, N)
    tk = term_kwargs(case)
    if term == "elasticity":
        qty = elastic_quantities(case["lam"], case["mu"])
        if case["pair"] == ["material"]:
            tk = {"material_name": "rubber"}  # material preset: module and functional form must agree on it
        else:
            tk = {ELASTIC_NAMES[n]: qty[n] for n in case["pair"]}
    kw = dict(tk, mode=mode, sigma=case["sigma"], spacing=sp_arg, stride=case["stride"])
    # module forms keep their constructor arguments (public attributes, shown by extra_repr)
    cls = module_specs()[term]
    mods = {}
    for red in ("none", "mean", "sum"):
        mods[red] = mod = cls(reduction=red, **kw)
        for name, val in dict(kw, reduction=red).items():
            have = getattr(mod, name, "<missing>")
            if name == "q" and val is None:
                val = 1 / kw["p"]
            if isinstance(val, torch.Tensor) or isinstance(have, torch.Tensor):
                same = have is val or (isinstance(val, torch.Tensor) and isinstance(have, torch.Tensor)
                                       and have.shape == val.shape and bool((have == val).all()))
            elif isinstance(val, (list, tuple)) and isinstance(have, (list, tuple)):
                same = list(have) == list(val)
            else:
                same = have == val
            if not same:
                raise Violation("module_drops_argument", f"{cls.__name__}({name}={val!r}).{name} == {have!r}")
    none = call_term(term, u, reduction="none", **kw)
    mean = call_term(term, u, reduction="mean", **kw)
    total = call_term(term, u, reduction="sum", **kw)
    default = call_term(term, u, **kw)
    want_shape = out_shape(case, N)
    if tuple(none.shape) != want_shape:
        raise Violation("none_shape", f"{term} mode={mode} reduction='none' shape {tuple(none.shape)} != {want_shape}")
    vmax = float(none.abs().max())
    cnt = none.numel()
    nd = none.double()
    r = check_close(mean, nd.mean(), 16 * eps * vmax * math.sqrt(cnt) + 1e-300, "reduction_mean", f"{term} mode={mode}: 'mean' != mean of 'none'")
    r = max(r, check_close(total, nd.sum(), 16 * eps * vmax * cnt + 1e-300, "reduction_sum", f"{term} mode={mode}: 'sum' != sum of 'none'"))
    r = max(r, check_close(default, mean, 0.0, "reduction_default", f"{term}: default reduction is not 'mean'"))
    # module forms equal the functional forms
    for red, fval in (("none", none), ("mean", mean), ("sum", total)):
        out = mods[red](u)
        r = max(r, check_close(out, fval, 4 * eps * max(vmax, 1e-300) * (cnt if red == "sum" else 1), "module_vs_functional",
                               f"{cls.__name__}(reduction={red!r}, mode={mode!r}) != functional form"))
    # linear transformations => 0
    lin = {"hom": (N, D, D + 1), "square": (N, D, D), "translation": (N, D, 1)}[case["linear"]]
    mat3 = torch.tensor(hash_noise(lin, case["key"], -1.0, 1.0), dtype=dt)
    for red in ("mean", "sum"):
        z = call_term(term, mat3, reduction=red, **kw)
        if z.ndim != 0 or float(z) != 0.0:
            raise Violation("linear_nonzero", f"{term}_loss of a linear transformation tensor {lin}: {z}")
        zm = mods[red](mat3)
        if zm.ndim != 0 or float(zm) != 0.0:
            raise Violation("linear_nonzero", f"{cls.__name__} of a linear transformation tensor {lin}: {zm}")
    # module instances are stateless functions of their constructor arguments and the input: later calls of the same
    # instances (after the linear-transformation call above) with other content, and with the first field again
    u2 = (u.flip(-1) * 0.5)
    if u.shape[-1] >= 7:  # ... and another size (the default spacing depends on it)
        u2 = u2[..., :-1]
    u2 = u2.contiguous()
    for red, fval in (("none", none), ("mean", mean), ("sum", total)):
        f2 = call_term(term, u2, reduction=red, **kw)
        v2 = max(float(f2.abs().max()), 1e-300)
        r = max(r, check_close(mods[red](u2), f2, 4 * eps * v2 * (cnt if red == "sum" else 1), "module_vs_functional_later_call",
                               f"{cls.__name__}(reduction={red!r}, mode={mode!r}): third call of one instance (other content) != functional form"))
        r = max(r, check_close(mods[red](u), fval, 4 * eps * max(vmax, 1e-300) * (cnt if red == "sum" else 1), "module_vs_functional_later_call",
                               f"{cls.__name__}(reduction={red!r}, mode={mode!r}): fourth call of one instance (first field again) != functional form"))
    labels = [f"term={term}", f"mode={mode}", f"D={D}", case["dtype"], f"N={N}", f"linear={case['linear']}"]
    if term == "elasticity":
        labels.append("pair=" + "+".join(case["pair"]))
    return {"ratio": r, "nontrivial": mode is not None and vmax > 0, "labels": labels}


# ---------------------------------------------------------------------------------------
# facet 5: cubic B-spline bending energy vs. analytic second derivatives of the reference spline


@st.composite
def bspline_cases(draw):
    D = draw(gen.dims())
    N = draw(st.sampled_from([1, 1, 2]))
    shape = draw(st.lists(st.integers(4, 9 if D == 2 else 7), min_size=D, max_size=D))
    smax = [1, 2, 3, 4] if D == 2 else [1, 2, 3]
    stride = draw(st.one_of(st.sampled_from(smax), st.lists(st.sampled_from(smax), min_size=D, max_size=D),
                            st.lists(st.sampled_from(smax), min_size=D, max_size=D)))
    case = {"D": D, "shape": shape, "N": N, "dtype": draw(gen.dtypes()), "stride": stride,
            "content": draw(st.sampled_from(["noise", "noise", "smooth"])), "key": draw(st.integers(0, 10 ** 6)),
            "amp": draw(gen.qfloat(0.1, 2.0, 0.1)),
            "via": draw(st.sampled_from(["bspline_bending_loss", "bending_loss", "BSplineBending", "Bending"]))}
    case["h"] = None
    if case["via"] in ("bending_loss", "Bending") and draw(st.booleans()):
        case["h"] = draw(gen.spacings(D, 0.2, 5.0))
    return case


def spline_second_derivatives(coef, stride, spacing):
    """coef (..., X) float64 for one component -> dict {(a, b): array} of d2/dx_a dx_b at lattice coordinates
    1 + j / s_a, j = 0 .. (n_a - 3) s_a - 1, divided by spacing_a spacing_b (a, b in x-order, a <= b)."""
    D = coef.ndim
    out = {}
    for a in range(D):
        for b in range(a, D):
            order = [0] * D
            order[a] += 1
            order[b] += 1
            v = coef
            for ax in range(D):  # x-order axis ax lives on array axis D-1-ax
                n = coef.shape[D - 1 - ax]
                s = stride[ax]
                uu = 1.0 + np.arange((n - 3) * s, dtype=np.float64) / s
                v = ref.bspline_eval_1d(v, uu, derivative=order[ax], axis=D - 1 - ax)
            out[(a, b)] = v / (spacing[a] * spacing[b])
    return out


def bending_reference(coefs, stride, spacing):
    """coefs (N, D, ..., X) -> point values (N, 1, ..., X') of sum_c [sum_a (d_aa)^2 + 2 sum_{a<b} (d_ab)^2]."""
    N, C = coefs.shape[:2]
    res = []
    for b in range(N):
        acc = 0.0
        for c in range(C):
            for (a, bb), d in spline_second_derivatives(coefs[b, c], stride, spacing).items():
                acc = acc + (1.0 if a == bb else 2.0) * d * d
        res.append(acc[None])
    return np.stack(res)


def run_bspline(case):
    import deepali.losses as LS
    import deepali.losses.functional as L

    D, N, shape = case["D"], case["N"], case["shape"]
    dt = tdtype(case["dtype"])
    eps = eps_of(dt)
    coefs = content_field(case)
    data = torch.tensor(coefs, dtype=dt)
    stride = case["stride"]
    sl = stride_list(stride, D)
    h = spacing_of(shape, case["h"])
    expect = bending_reference(data.double().numpy(), sl, h)
    via = case["via"]
    outs = {}
    for red in ("none", "mean", "sum"):
        if via == "bspline_bending_loss":
            outs[red] = L.bspline_bending_loss(data, stride=stride, reduction=red)
        elif via == "bending_loss":
            outs[red] = L.bending_loss(data, mode="bspline", stride=stride, spacing=case["h"], reduction=red)
        elif via == "BSplineBending":
            outs[red] = LS.BSplineBending(stride=stride, reduction=red)(data)
        else:
            outs[red] = LS.Bending(mode="bspline", stride=stride, spacing=case["h"], reduction=red)(data)
    M = float(np.abs(coefs).max())
    hmin = min(h)
    d2max = 4 * M / hmin ** 2
    # derivative error: weights/products in dtype (16 eps M / h^2) + float32 spacing (2 eps32 relative)
    d2err = 16 * eps * M / hmin ** 2 + 4 * EPS32 * d2max
    bound = D ** 3 * (2 * d2max * d2err + d2err ** 2)
    want_shape = (N, 1) + tuple((shape[dim] - 3) * sl[D - 1 - dim] for dim in range(D))
    if tuple(outs["none"].shape) != want_shape:
        raise Violation("bspline_shape", f"{via} stride={stride}: 'none' shape {tuple(outs['none'].shape)} != {want_shape}")
    r = check_close(outs["none"], expect, bound, "bspline_bending_value", f"{via} stride={stride} spacing={case['h']}: point values")
    r = max(r, check_close(outs["mean"], expect.mean(), bound, "bspline_bending_mean", f"{via} stride={stride}: mean"))
    r = max(r, check_close(outs["sum"], expect.sum(), bound * expect.size, "bspline_bending_sum", f"{via} stride={stride}: sum"))
    return {"ratio": r, "nontrivial": len(set(sl)) > 1 or max(sl) > 1,
            "labels": [f"via={via}", f"D={D}", case["dtype"], f"N={N}", f"stride={'int' if isinstance(stride, int) else 'list'}",
                       f"smax={max(sl)}", "spacing=default" if case["h"] is None else "spacing=given", case["content"]]}


# ---------------------------------------------------------------------------------------
# facet 6: elastic constants


def lame_table(pair, x, y):
    """Independent textbook conversion table: (lambda, mu) from a pair of moduli (numpy float64)."""
    x, y = np.float64(x), np.float64(y)
    key = tuple("mu" if n == "G" else n for n in pair)
    if key == ("lam", "mu"):
        return x, y
    if key == ("lam", "nu"):
        return x, x * (1 - 2 * y) / (2 * y)
    if key == ("lam", "E"):
        r = np.sqrt(y * y + 9 * x * x + 2 * y * x)
        return x, (y - 3 * x + r) / 4
    if key == ("mu", "nu"):
        return 2 * x * y / (1 - 2 * y), x
    if key == ("mu", "E"):
        return x * (y - 2 * x) / (3 * x - y), x
    if key == ("nu", "E"):
        return y * x / ((1 + x) * (1 - 2 * x)), y / (2 * (1 + x))
    raise ValueError(pair)


def lame_cond(pair, x, y):
    """|d out / d in| |in| summed over inputs (numerical), per output."""
    base = np.array(lame_table(pair, x, y))
    cond = np.abs(base).copy()
    for i, v in enumerate((x, y)):
        step = 1e-6 * abs(v)
        args = [x, y]
        args[i] = v + step
        up = np.array(lame_table(pair, *args))
        cond = cond + np.abs(up - base) / 1e-6
    return cond


@st.composite
def lame_cases(draw):
    # Poisson's ratio in [0, 0.5) (lame_parameters documents a ValueError for a negative first parameter), including
    # the degenerate-but-valid value 0 (lambda = 0, E = 2 mu)
    return {"mu": draw(gen.logfloat(0.01, 100.0)),
            "nu": draw(st.one_of(gen.qfloat(0.0, 0.45, 0.01), st.sampled_from([0.0, 0.0, 0.25]))),
            "pair": list(draw(st.sampled_from(VALID_PAIRS))), "swap": draw(st.booleans()),
            "D": draw(gen.dims()), "A": draw(st.lists(gen.qfloat(-1.0, 1.0, 0.01), min_size=9, max_size=9))}


def lame_enumerated(tier):
    for pair in VALID_PAIRS:
        for mu, nu in ((1.0, 0.25), (0.8, 0.3), (0.0006, 0.45), (35.0, 0.1), (0.7, 0.0), (2.0, 0.0)):
            yield {"mu": mu, "nu": nu, "pair": list(pair), "swap": False, "D": 2, "A": [0.3, -0.2, 0.5, 0.1, 0, 0, 0, 0, 0]}


def run_lame(case):
    import deepali.losses as LS
    import deepali.losses.functional as L

    mu, nu = float(case["mu"]), float(case["nu"])
    lam = 2 * mu * nu / (1 - 2 * nu)
    qty = elastic_quantities(lam, mu)
    # the forward formulas must reproduce the generated Poisson ratio (harness self-consistency)
    assert abs(qty["nu"] - nu) < 1e-12
    pair = case["pair"]
    if nu == 0 and "lam" in pair and "nu" in pair:
        raise Skip("lambda = nu = 0 does not determine mu")
    if nu == 0 and "lam" not in pair and "nu" not in pair:
        # lambda = 0 is then the result of a cancellation ((mu, E), (G, E): E - 2 mu): with the rounded E of the forward formula the
        # exact answer may be -1e-17, for which deepali raises the documented ValueError (negative first parameter)
        raise Skip("lambda = 0 by cancellation: the rounded moduli may correspond to a negative lambda (documented ValueError)")
    kw = {ELASTIC_NAMES[n]: qty[n] for n in pair}
    out = L.lame_parameters(**kw)
    if not (isinstance(out, tuple) and len(out) == 2):
        raise Violation("lame_result_type", f"lame_parameters({kw}) returned {out!r}")
    tab = lame_table(pair, qty[pair[0]], qty[pair[1]])
    cond = lame_cond(pair, qty[pair[0]], qty[pair[1]])
    r = 0.0
    for i, name in enumerate(("lambda", "mu")):
        bound = 64 * EPS64 * (cond[i] + abs(mu) + abs(lam))  # floor: results that are exactly 0 (lambda for nu = 0)
        r = max(r, check_close(float(out[i]), (lam, mu)[i], bound, "lame_table", f"lame_parameters({kw}): {name} vs generated ground truth"))
        r = max(r, check_close(float(out[i]), float(tab[i]), bound, "lame_table", f"lame_parameters({kw}): {name} vs textbook table"))
    # round trip through (E, nu): forward formulas on the result, then back through lame_parameters
    back = elastic_quantities(float(out[0]), float(out[1]))
    again = L.lame_parameters(youngs_modulus=back["E"], poissons_ratio=back["nu"])
    c2 = lame_cond(("nu", "E"), back["nu"], back["E"])
    for i in range(2):
        r = max(r, check_close(float(again[i]), (lam, mu)[i], 64 * EPS64 * (cond[i] + c2[i] + abs(mu) + abs(lam)), "lame_round_trip",
                               f"lame_parameters({kw}) -> (E, nu) -> lame_parameters(E, nu)"))
    # elasticity accepts the same pair: equals the closed form with the table values
    D = case["D"]
    shape = [5] * D
    A = mat(case["A"][:D * D], D)
    u = torch.tensor(affine_np(coord_arrays(shape, None), A, [0.1] * D)[None], dtype=torch.float64)
    val = term_value({"term": "elasticity", "lam": lam, "mu": mu}, A)
    amax = max(abs(v) for row in A for v in row) + 1e-3
    delta = 8 * (EPS64 * 4 / 0.5 + EPS32 * amax)
    tol = term_error({"term": "elasticity", "lam": lam, "mu": mu}, A, delta) + 64 * EPS64 * float(cond.max()) * D * D * amax ** 2
    got = L.elasticity_loss(u, **kw)
    r = max(r, check_close(got, val, tol, "elasticity_pair", f"elasticity_loss({kw}) on an affine field"))
    got = LS.Elasticity(**kw)(u)
    r = max(r, check_close(got, val, tol, "elasticity_pair", f"Elasticity({kw}) on an affine field"))
    # documented: a material preset cannot be combined with other quantities
    try:
        L.lame_parameters(material_name="rubber", **{ELASTIC_NAMES[pair[0]]: qty[pair[0]]})
    except ValueError:
        pass
    else:
        raise Violation("lame_preset_with_quantity", "lame_parameters(material_name=..., <quantity>) did not raise ValueError")
    return {"ratio": r, "nontrivial": tuple(pair) != ("lam", "mu"), "labels": ["pair=" + "+".join(pair)]}


# ---------------------------------------------------------------------------------------
# facet 7: inverse consistency: exact pairs, units, margins, masks


def cube_axis(n, ac):
    i = np.arange(n, dtype=np.float64)
    return 2 * i / (n - 1) - 1 if ac else (2 * i + 1) / n - 1


def cube_coords(shape, ac):
    axes = [cube_axis(n, ac) for n in shape]
    mesh = np.meshgrid(*axes, indexing="ij")
    return np.stack(mesh[::-1], axis=-1)  # (..., X, D) in (x, ...) order


def hull(shape, ac):
    D = len(shape)
    return np.array([np.abs(cube_axis(axis_len(shape, a), ac)).max() for a in range(D)])


def contraction_pair(raw, t, fill, h):
    """P = rows of a diagonally dominant matrix scaled so that sum_j |P_ij| h_j + |p_i| <= fill * h_i (maps the sample hull
    into itself); returns homogeneous (D, D+1) matrices of the map and of its exact inverse."""
    D = len(t)
    P = np.array(raw, dtype=np.float64).reshape(D, D) * 0.15
    for i in range(D):
        P[i, i] = 0.55 + 0.35 * abs(raw[i * D + i])
    p = np.array(t, dtype=np.float64)
    for i in range(D):
        row = float(np.abs(P[i]) @ h + abs(p[i]))
        f = fill * h[i] / row
        if f < 1:
            P[i] *= f
            p[i] *= f
    H = ref.hom(P, p)
    return H, ref.hinv(H)


def svf_pair(case, h):
    """exp(H), exp(-H) of an affine generator under which the sample hull is invariant (construction of props/c11.py)."""
    D = case["D"]
    M = np.array(case["M"], dtype=np.float64).reshape(D, D) * 0.5
    t = np.array(case["t"], dtype=np.float64) * 0.3
    for i in range(D):
        off = sum(abs(M[i, j]) * h[j] for j in range(D) if j != i) + abs(t[i])
        M[i, i] = -(off / h[i]) * (1.0 + case["m1"][i]) - case["m2"][i]
    G = ref.hom(M, t)
    return ref.expm_h(G, 1.0)[:D], ref.expm_h(G, -1.0)[:D], G


def as_transform(Hm, form, x, dt):
    """Tensor representation of y = L x + t: 'matrix' (1, D, D+1) or 'flow' (1, D, ..., X) sampled at x (..., X, D)."""
    D = Hm.shape[0]
    if form == "matrix":
        return torch.tensor(Hm[None], dtype=dt)
    u = x @ (Hm[:, :D] - np.eye(D)).T + Hm[:, D]
    return torch.tensor(np.moveaxis(u, -1, 0)[None], dtype=dt)


@st.composite
def ic_cases(draw):
    D = draw(gen.dims())
    g = draw(gen.grids(D, min_size=5, max_size=12 if D == 2 else 8, spacing_lo=0.2, spacing_hi=5.0))
    kind = draw(st.sampled_from(["contraction", "svf"]))
    case = {"D": D, "grid": g, "N": draw(st.sampled_from([1, 1, 2])), "dtype": draw(gen.dtypes()), "kind": kind,
            "M": draw(st.lists(gen.qfloat(-1.0, 1.0, 0.01), min_size=D * D, max_size=D * D)),
            "t": draw(st.lists(gen.qfloat(-1.0, 1.0, 0.01), min_size=D, max_size=D)),
            "fill": draw(gen.qfloat(0.5, 1.0, 0.05)),
            "m1": draw(st.lists(gen.qfloat(0.0, 1.0, 0.05), min_size=D, max_size=D)),
            "m2": draw(st.lists(gen.qfloat(0.0, 0.3, 0.05), min_size=D, max_size=D)),
            "forward": draw(st.sampled_from(["matrix", "flow", "flow"])),
            "inverse": draw(st.sampled_from(["matrix", "flow", "flow"])),
            "units": draw(st.sampled_from(["cube", "voxel", "world"])),
            "margin": draw(st.one_of(st.just(0), st.integers(1, 2), st.sampled_from([0.1, 0.2, 0.3]))),
            "mask": draw(st.sampled_from([None, None, "float", "bool", "uint8"])),
            "mask_N": draw(st.sampled_from([1, "N"])), "key": draw(st.integers(0, 10 ** 6)),
            "pass_grid": draw(st.booleans())}
    exact = draw(st.sampled_from([True, False, False]))
    case["offset"] = [0.0] * D if exact else draw(st.lists(gen.qfloat(-0.2, 0.2, 0.01), min_size=D, max_size=D))
    # flow fields sampled on a lattice of another size over the same cube domain (transform_grid() documents that the vector
    # field is resized to the grid by interpolation; transform_points() samples it): per-axis size differences.  An affine
    # field is reproduced exactly by linear interpolation inside the hull of its samples: with align_corners=False the hull
    # (1 - 1/m) must contain that of the grid, hence m >= n there.
    ac = bool(g["ac"])
    for name, form in (("fsize", case["forward"]), ("isize", case["inverse"])):
        if form == "flow" and draw(st.sampled_from([False, False, True])):
            case[name] = [max(3, n + draw(st.integers(0 if not ac else -3, 4))) for n in g["size"]]
    return case


def run_ic(case):
    import deepali.losses.functional as L
    D, N, g = case["D"], case["N"], case["grid"]
    dt = tdtype(case["dtype"])
    eps = eps_of(dt)
    ac = bool(g["ac"])
    size = list(g["size"])                   # (x, ...)
    shape = size[::-1]
    grid = make_grid(g)
    fsize, isize = case.get("fsize"), case.get("isize")
    resized = (fsize is not None and list(fsize) != size) or (isize is not None and list(isize) != size)
    use_grid = case["pass_grid"] or ac is False or (case["forward"] == "matrix" and case["inverse"] == "matrix") \
        or case["units"] == "world" or resized
    if not use_grid:
        # documented default: Grid(shape=forward.shape[2:]) -> unit spacing, align_corners=True
        spacing = np.ones(D)
    else:
        spacing = np.array(g["spacing"], dtype=np.float64)
    x = cube_coords(shape, ac)
    h = hull(shape, ac)
    d = np.array(case["offset"], dtype=np.float64)
    fwd, inv, norms = [], [], 1.0
    for b in range(N):
        sub = dict(case, M=case["M"][b:] + case["M"][:b], t=case["t"][b:] + case["t"][:b])
        if case["kind"] == "contraction":
            F, I = contraction_pair(sub["M"], sub["t"], case["fill"], h)
        else:
            F, I, _ = svf_pair(sub, h)
        norms = max(norms, float(np.abs(F).sum(1).max()), float(np.abs(I).sum(1).max()))
        I = I.copy()
        I[:, D] += d  # exact inverse followed by a constant offset: error vector = d at every point
        fwd.append(as_transform(F, case["forward"], x if fsize is None else cube_coords(list(fsize)[::-1], ac), dt))
        inv.append(as_transform(I, case["inverse"], x if isize is None else cube_coords(list(isize)[::-1], ac), dt))
    forward, inverse = torch.cat(fwd), torch.cat(inv)
    # mask / margin bookkeeping (reference)
    mask_t, mask_np = None, None
    if case["mask"] is not None and not (fsize is not None and list(fsize) != size):  # 'mask' is documented with the size of 'forward'
        mN = N if case["mask_N"] == "N" else 1
        m = (hash_noise((mN, 1) + tuple(shape), case["key"], 0.0, 1.0) > 0.45).astype(np.float64)
        m[(slice(None), 0) + tuple(s // 2 for s in shape)] = 1.0  # keep the centre sample in the foreground
        mask_t = torch.tensor(m, dtype={"float": dt, "bool": torch.bool, "uint8": torch.uint8}[case["mask"]])
        if case["mask"] == "float":
            mask_t = mask_t * 0.5  # any non-zero value is foreground
        mask_np = np.broadcast_to(m[:, 0], (N,) + tuple(shape))
    margin = case["margin"]
    if isinstance(margin, float):
        mm = [int(margin * n) for n in size]
    else:
        mm = [int(margin)] * D
    crop = (slice(None),) + tuple(slice(mm[D - 1 - dim], shape[dim] - mm[D - 1 - dim]) for dim in range(D))
    units = case["units"]
    nvox = np.array([(n - 1) if ac else n for n in size], dtype=np.float64) / 2
    scale = {"cube": np.ones(D), "voxel": nvox, "world": nvox * spacing}[units]
    e = float(np.linalg.norm(d * scale))
    expect = np.full((N,) + tuple(shape), e)
    if mask_np is not None:
        expect = expect * mask_np
    expect = expect[crop]
    kw = dict(grid=grid if use_grid else None, margin=margin, mask=mask_t, units=units)
    f0, i0 = forward.clone(), inverse.clone()
    none = L.inverse_consistency_loss(forward, inverse, reduction="none", **kw)
    if not (torch.equal(forward, f0) and torch.equal(inverse, i0)):
        raise Violation("input_modified", "inverse_consistency_loss modified its inputs")
    if tuple(none.shape) != expect.shape:
        raise Violation("ic_margin_shape", f"margin={margin} size={size}: 'none' shape {tuple(none.shape)} != {expect.shape}")
    smax = float(scale.max())
    bound = 64 * eps * (norms + float(np.abs(d).max())) * smax + 8 * EPS32 * e
    exact = not d.any()
    kind = "ic_exact_pair" if exact else ("ic_value_cube" if units == "cube" else "ic_units")
    r = check_close(none, expect, bound, kind,
                    f"{case['kind']} pair ({case['forward']}, {case['inverse']}) offset={case['offset']} units={units} ac={ac} "
                    f"size={size} spacing={[float(v) for v in spacing]} margin={margin} mask={case['mask']} "
                    f"flow sizes forward={fsize} inverse={isize}")
    mean = L.inverse_consistency_loss(forward, inverse, reduction="mean", **kw)
    total = L.inverse_consistency_loss(forward, inverse, reduction="sum", **kw)
    nd = none.double()
    cnt = nd.numel()
    rb = 16 * eps * max(float(nd.abs().max()), e) + 1e-300
    if mask_np is None:
        r = max(r, check_close(mean, nd.mean(), rb, "ic_reduction_mean", "'mean' != mean of 'none'"))
    else:
        fg = float(mask_np[crop].sum())
        r = max(r, check_close(mean, nd.sum() / fg, rb * cnt / fg, "ic_masked_mean",
                               f"masked 'mean' != sum of 'none' / number of evaluated foreground points ({fg:g}); "
                               f"mask batch {case['mask_N']}, N={N}, margin={margin}"))
    r = max(r, check_close(total, nd.sum(), rb * cnt, "ic_reduction_sum", f"'sum' != sum of 'none' ({cnt} points, mask={case['mask']}, margin={margin})"))
    aniso = max(size) != min(size) and max(g["spacing"]) / min(g["spacing"]) > 1.05
    return {"ratio": r, "nontrivial": aniso,
            "labels": [f"kind={case['kind']}", f"units={units}", f"ac={ac}", f"D={D}", case["dtype"], f"N={N}",
                       f"pair={case['forward']}-{case['inverse']}", "exact" if exact else "offset",
                       f"margin={'0' if not margin else type(margin).__name__}", f"mask={case['mask']}",
                       "grid=given" if use_grid else "grid=default", "flows=resized" if resized else "flows=grid-size"]}


# ---------------------------------------------------------------------------------------
# facet 8: per-axis spacing laws on fields that vary along one axis only (all modes incl. gaussian, optional sigma)


def draw_any_term(draw, case):
    if draw(st.booleans()):
        draw_term1(draw, case, PQ_SCALING)
    else:
        case["term"] = draw(st.sampled_from(TERMS2))


@st.composite
def axis_cases(draw):
    D = draw(gen.dims())
    N = draw(st.sampled_from([1, 2, 2]))
    case = {"D": D, "N": N, "dtype": draw(gen.dtypes()), "k": draw(st.integers(0, D - 1))}
    draw_any_term(draw, case)
    case["mode"], case["stride"] = draw_mode(draw, D, ALL_MODES + ["gaussian", "gaussian"])
    case["sigma"] = draw(st.sampled_from([None, None, 0.6, 0.9, 1.1]))
    case["shape"] = draw_shape(draw, D, lo=5, hi2=10, hi3=7)
    case["h"] = draw(st.lists(gen.logfloat(0.2, 5.0), min_size=D, max_size=D))
    case["h2"] = draw(st.lists(gen.logfloat(0.2, 5.0), min_size=D, max_size=D))
    case["spacing_form"] = draw(st.sampled_from(["list", "per_item"])) if N > 1 else "list"
    case["rows"] = draw(st.sampled_from(["all", "last"])) if case["spacing_form"] == "per_item" else "all"
    case["content"] = draw(st.sampled_from(["noise", "wave"]))
    case["key"] = draw(st.integers(0, 10 ** 6))
    case["amp"] = draw(gen.qfloat(0.1, 2.0, 0.1))
    case["w"] = draw(gen.qfloat(0.3, 1.3, 0.01))
    case["factors"] = draw(st.lists(st.one_of(gen.logfloat(0.25, 4.0), st.sampled_from([2.0, 0.5])), min_size=D, max_size=D))
    case["s"] = draw(st.one_of(gen.logfloat(0.25, 4.0), st.sampled_from([2.0, 0.5])))
    return case


def axis_field(case):
    """Field (N, D, ..., X) that varies along spatial axis k (x = 0) only, and its 1-D profiles (N, D, n_k)."""
    D, N, shape, k = case["D"], case["N"], case["shape"], case["k"]
    n = axis_len(shape, k)
    if case["content"] == "noise":
        prof = hash_noise((N, D, n), case["key"], -case["amp"], case["amp"])
    else:
        i = np.arange(n, dtype=np.float64)
        prof = np.stack([np.stack([case["amp"] * (1 - 0.2 * c) * np.cos(case["w"] * i + 0.7 * c + 1.3 * b + 0.001 * (case["key"] % 1000))
                                   + case.get("offset", 0.0) * (c + 1) for c in range(D)]) for b in range(N)])
    view = [N, D] + [1] * D
    view[2 + D - 1 - k] = n
    return np.ascontiguousarray(np.broadcast_to(prof.reshape(view), (N, D) + tuple(shape))), prof


def axis_bound(case, eps, M, U, Hb):
    """Bound of the change of a point value when the derivatives along axis k (|.| <= 2M/h_k resp. 4M/h_k^2) and the vanishing
    derivatives along the other axes carry the rounding error of values of size U and of float32 spacings."""
    D, k = case["D"], case["k"]
    hk, hmin = Hb[k], min(Hb)
    m, _ = term_degree(case)
    if m == 1:
        d1 = 2 * M / hk
        delta = 8 * (eps * U / hmin + EPS32 * d1)
        Jenv = [[d1 if a == k else 0.0 for a in range(D)] for _ in range(D)]
        return term_error(case, Jenv, delta) + 64 * eps * term_value(case, Jenv)
    d2 = 4 * M / hk ** 2
    d2err = 16 * (eps * U / hmin ** 2 + EPS32 * d2)
    return D ** 3 * (2 * d2 * d2err + d2err ** 2) + 64 * eps * D * d2 ** 2


def spacing_rows(H, form):
    return [float(v) for v in H[0]] if form == "list" else torch.tensor(H, dtype=torch.float64)


def run_axis(case):
    D, N, k = case["D"], case["N"], case["k"]
    dt = tdtype(case["dtype"])
    eps = eps_of(dt)
    term, mode, sigma = case["term"], case["mode"], case["sigma"]
    cls = mode_class(term, mode)
    unp, prof = axis_field(case)
    u = torch.tensor(unp, dtype=dt)
    form = case["spacing_form"]
    H = [list(map(float, case["h"]))] * N if form == "list" else [list(map(float, case["h"])), list(map(float, case["h2"]))][:N]
    changed = list(range(N)) if case["rows"] == "all" else [N - 1]
    m, deg = term_degree(case)
    kw = dict(term_kwargs(case), mode=mode, sigma=sigma, stride=case["stride"], reduction="none")
    base = call_term(term, u, spacing=spacing_rows(H, form), **kw)
    want_shape = out_shape(case, N)
    if tuple(base.shape) != want_shape:
        raise Violation("none_shape", f"{term} mode={mode} reduction='none' shape {tuple(base.shape)} != {want_shape}")
    if float(base.min()) < 0:
        raise Violation("negative", f"{term}{term_kwargs(case)} mode={mode}: negative point value {float(base.min()):.3g}")
    U = float(np.abs(unp).max())
    what = f"{term}{term_kwargs(case)} mode={mode} sigma={sigma} stride={case['stride']} D={D}; field varies along axis {k} only; spacing {H}"
    # (1) the spacings of the other axes do not matter (all derivatives along them vanish)
    H1 = [[Hb[a] * (case["factors"][a] if (a != k and b in changed) else 1.0) for a in range(D)] for b, Hb in enumerate(H)]
    other = call_term(term, u, spacing=spacing_rows(H1, form), **kw)
    # (2) scaling the spacing of axis k by s rescales every non-zero derivative by 1/s
    s = float(case["s"])
    g = s ** (-m * deg)
    H2 = [[Hb[a] * (s if (a == k and b in changed) else 1.0) for a in range(D)] for b, Hb in enumerate(H)]
    along = call_term(term, u, spacing=spacing_rows(H2, form), **kw)
    r = 0.0
    for b in range(N):
        M = float(np.abs(prof[b]).max())
        b0 = axis_bound(case, eps, M, U, H[b])
        r = max(r, check_close(other[b:b + 1], base[b:b + 1].double(), b0 + axis_bound(case, eps, M, U, H1[b]), f"other_axis_spacing:{cls}",
                               f"{what}: item {b} changed when the spacing became {H1} (items changed: {changed})"))
        gb = g if b in changed else 1.0
        r = max(r, check_close(along[b:b + 1], base[b:b + 1].double() * gb, gb * b0 + axis_bound(case, eps, M, U, H2[b]), f"axis_spacing_power:{cls}",
                               f"{what}: item {b} is not {gb:.6g} = s^-{m * deg:g} times its value when the spacing became {H2} "
                               f"(items changed: {changed})"))
    aniso = max(H[0]) / min(H[0]) > 1.05
    nontriv = aniso and float(base.max()) > 0 and abs(s - 1) > 0.05 and any(abs(case["factors"][a] - 1) > 0.05 for a in range(D) if a != k)
    return {"ratio": r, "nontrivial": nontriv,
            "labels": [f"term={term}", f"mode={mode}", f"D={D}", f"k={k}", case["dtype"], f"N={N}", f"spacing={form}", f"rows={case['rows']}",
                       case["content"], "sigma" if sigma else "nosigma"]}


# ---------------------------------------------------------------------------------------
# facet 9: `sigma` is honoured by every term: Gaussian transfer function on sinusoids


@st.composite
def sigma_cases(draw):
    D = draw(gen.dims())
    N = draw(st.sampled_from([1, 1, 2]))
    case = {"D": D, "N": N, "dtype": draw(gen.dtypes()), "k": draw(st.integers(0, D - 1))}
    draw_any_term(draw, case)
    case["mode"], case["stride"] = draw_mode(draw, D, ALL_MODES + ["gaussian"])
    gauss = case["mode"] == "gaussian"
    case["sigma"] = draw(st.sampled_from([None, 0.9, 1.1, 1.5] if gauss else list(SIGMAS)))
    m = 2 if case["term"] in TERMS2 else 1
    sig = case["sigma"] or DEFAULT_GAUSS_SIGMA
    need = min_axis_len(case["mode"], m, sig) + 1
    shape = draw_shape(draw, D, lo=5, hi2=8, hi3=6)
    shape[D - 1 - case["k"]] = draw(st.integers(need, need + 6))
    case["shape"] = shape
    case["h"] = draw(st.lists(gen.logfloat(0.2, 5.0), min_size=D, max_size=D))
    case["content"] = "wave"
    case["key"] = draw(st.integers(0, 10 ** 6))
    case["amp"] = draw(gen.qfloat(0.2, 2.0, 0.1))
    case["offset"] = draw(gen.qfloat(-1.0, 1.0, 0.1))
    case["w"] = draw(gen.qfloat(0.4, 1.3, 0.01))
    return case


def run_sigma(case):
    D, N, k, shape = case["D"], case["N"], case["k"], case["shape"]
    dt = tdtype(case["dtype"])
    eps = eps_of(dt)
    term, mode, sigma = case["term"], case["mode"], case["sigma"]
    cls = mode_class(term, mode)
    unp, prof = axis_field(case)
    u = torch.tensor(unp, dtype=dt)
    h = [float(v) for v in case["h"]]
    w, amp = float(case["w"]), float(case["amp"])
    m, deg = term_degree(case)
    U = float(np.abs(unp).max())
    kw = dict(term_kwargs(case), mode=mode, stride=case["stride"], spacing=h, reduction="none")
    got = call_term(term, u, sigma=sigma, **kw)
    what = f"{term}{term_kwargs(case)} mode={mode} sigma={sigma} stride={case['stride']} spacing={h}: field amp*cos({w} i + phi) along axis {k}"
    margins = [0] * D
    n = axis_len(shape, k)
    if mode == "gaussian":
        sig = sigma or DEFAULT_GAUSS_SIGMA
        rad = m * kernel_radius(sig)
        margins[k] = rad
        centre, tol = gauss_derivative_response(sig, w, D, m)
        i = np.arange(rad, n - rad, dtype=np.float64)
        view = [1] * D
        view[D - 1 - k] = len(i)
        r = 0.0
        for b in range(N):
            ph = [0.7 * c + 1.3 * b + 0.001 * (case["key"] % 1000) for c in range(D)]
            ac = [amp * (1 - 0.2 * c) for c in range(D)]
            if m == 1:
                zero = np.zeros_like(i)
                J = [[(-ac[c] * centre * np.sin(w * i + ph[c]) / h[k]) if a == k else zero for a in range(D)] for c in range(D)]
                want = term_value(case, J) + zero
            else:
                d = [-ac[c] * centre * np.cos(w * i + ph[c]) / h[k] ** 2 for c in range(D)]
                want = sum(v * v for v in d) * (1.0 if term == "bending" else 0.5)
            # every admitted kernel maps the profile to R'/R times the modelled derivative, |R' - R| <= tol; the terms are
            # homogeneous of degree deg in the derivatives
            bound = ((1 + tol / centre) ** deg - 1) * float(np.abs(want).max()) + axis_bound(case, eps, amp, U, h)
            r = max(r, check_close(got[b:b + 1][interior(margins)], want.reshape([1, 1] + view), bound, "gaussian_response",
                                   f"{what}, item {b}: values {m * kernel_radius(sig)} samples off the boundary vs the response "
                                   f"R={centre:.6g} (+-{tol:.2g}) of the derivative-of-Gaussian kernel"))
        nontriv = max(h) / min(h) > 1.05
    else:
        rad = kernel_radius(sigma)
        margins[k] = rad * stride_list(case["stride"], D)[k] if mode == "bspline" else rad + m
        centre, tol = smooth_response(sigma, w)
        plain = call_term(term, u, sigma=None, **kw)
        f = centre ** deg
        reg = interior(margins)
        # every admitted smoothing kernel scales the oscillating part by G' with |G' - G| <= tol (and keeps the constant part):
        # all derivatives in the interior scale by G'/G, the terms are homogeneous of degree deg in the derivatives
        bound = ((1 + tol / centre) ** deg - 1) * f * float(plain[reg].abs().max()) + axis_bound(case, eps, amp, U, h) * (1 + f)
        r = check_close(got[reg], plain[reg].double() * f, bound, f"sigma_response:{cls}",
                        f"{what}: values {margins[k]} samples off the boundary are not G^{deg:g} = {f:.6g} times the values without "
                        f"sigma (G = {centre:.6g} +- {tol:.2g}: Gaussian transfer function at this frequency)")
        nontriv = f < 0.95
    return {"ratio": r, "nontrivial": nontriv,
            "labels": [f"term={term}", f"mode={mode}", f"D={D}", f"k={k}", case["dtype"], f"N={N}", f"sigma={sigma}"]}


# ---------------------------------------------------------------------------------------
# facet 10: the derivative modes are what their names / the docstring say, on arbitrary fields with anisotropic spacing

REF_MODES = [None, "forward_central_backward", "central", "forward", "backward", "sobel", "prewitt", "bspline"]


@st.composite
def moderef_cases(draw):
    D = draw(gen.dims())
    N = draw(st.sampled_from([1, 2]))
    case = {"D": D, "N": N, "dtype": draw(gen.dtypes())}
    case["mode"], case["stride"] = draw_mode(draw, D, REF_MODES)
    if case["mode"] == "bspline" and draw(st.booleans()):
        case["term"] = draw(st.sampled_from(TERMS2))
    else:
        draw_term1(draw, case, PQ_SCALING)
    case["shape"] = draw_shape(draw, D, lo=5, hi2=9, hi3=7)
    case["h"], case["spacing_form"] = draw_spacing(draw, D, N)
    case["rotate_items"] = True
    case["key"] = draw(st.integers(0, 10 ** 6))
    case["amp"] = draw(gen.qfloat(0.1, 2.0, 0.1))
    return case


def fd_np(v, axis, mode, h):
    """Finite differences of the docstring: forward (u[i+1]-u[i])/h, backward (u[i]-u[i-1])/h, central (u[i+1]-u[i-1])/2h;
    'forward_central_backward': forward at the lower, backward at the upper boundary, central in between.  Samples whose
    stencil leaves the array are NaN (never asserted)."""
    v = np.moveaxis(v, axis, -1)
    out = np.full(v.shape, np.nan)
    if mode in ("central", "forward_central_backward"):
        out[..., 1:-1] = (v[..., 2:] - v[..., :-2]) / (2 * h)
    if mode == "forward":
        out[..., :-1] = (v[..., 1:] - v[..., :-1]) / h
    if mode == "backward":
        out[..., 1:] = (v[..., 1:] - v[..., :-1]) / h
    if mode == "forward_central_backward":
        out[..., 0] = (v[..., 1] - v[..., 0]) / h
        out[..., -1] = (v[..., -1] - v[..., -2]) / h
    return np.moveaxis(out, -1, axis)


def average_np(v, axis, centre_weight):
    """Textbook Sobel (1 2 1)/4 / Prewitt (1 1 1)/3 averaging along one axis; boundary samples NaN (never asserted)."""
    v = np.moveaxis(v, axis, -1)
    out = np.full(v.shape, np.nan)
    out[..., 1:-1] = (v[..., :-2] + centre_weight * v[..., 1:-1] + v[..., 2:]) / (2 + centre_weight)
    return np.moveaxis(out, -1, axis)


def spline_derivative(coef, stride, orders):
    """Tensor-product cubic B-spline with coefficients coef (..., X) of one component: partial derivative of order orders[a]
    along axis a (x-order) at lattice coordinates 1 + j / s_a (w.r.t. the coefficient index)."""
    D = coef.ndim
    v = coef
    for ax in range(D):
        n = coef.shape[D - 1 - ax]
        s = stride[ax]
        uu = 1.0 + np.arange((n - 3) * s, dtype=np.float64) / s
        v = ref.bspline_eval_1d(v, uu, derivative=orders[ax], axis=D - 1 - ax)
    return v


def reference_jacobian(comp, mode, h, stride):
    """comp (D, ..., X) float64 -> J[c][a] arrays of du_c/dx_a per the definition of the mode."""
    D = comp.shape[0]
    J = [[None] * D for _ in range(D)]
    for c in range(D):
        for a in range(D):
            if mode == "bspline":
                J[c][a] = spline_derivative(comp[c], stride, [1 if x == a else 0 for x in range(D)]) / h[a]
                continue
            v = comp[c]
            if mode in SMOOTHED:
                for o in range(D):
                    if o != a:
                        v = average_np(v, D - 1 - o, 2.0 if mode == "sobel" else 1.0)
            J[c][a] = fd_np(v, D - 1 - a, "forward_central_backward" if mode in SMOOTHED or mode is None else mode, h[a])
    return J


def run_moderef(case):
    D, N, shape = case["D"], case["N"], case["shape"]
    dt = tdtype(case["dtype"])
    eps = eps_of(dt)
    term, mode = case["term"], case["mode"]
    cls = mode_class(term, mode)
    unp = hash_noise((N, D) + tuple(shape), case["key"], -case["amp"], case["amp"])
    u = torch.tensor(unp, dtype=dt)
    data = u.double().numpy()
    sp_arg, per = spacing_arg(case, N)
    sl = stride_list(case["stride"], D)
    none = call_term(term, u, reduction="none", mode=mode, spacing=sp_arg, stride=case["stride"], **term_kwargs(case))
    want_shape = out_shape(case, N)
    if tuple(none.shape) != want_shape:
        raise Violation("none_shape", f"{term} mode={mode} reduction='none' shape {tuple(none.shape)} != {want_shape}")
    # asserted samples: documented everywhere for forward_central_backward (= None) and bspline; the replicate-padded
    # boundary layer of forward/backward/central and of the Sobel/Prewitt averaging is not documented
    margins = [0] * D if mode in (None, "forward_central_backward", "bspline") else [1] * D
    reg = interior(margins)
    M = float(np.abs(data).max())
    r = 0.0
    for b in range(N):
        h = spacing_of(shape, per[b])
        hmin = min(h)
        if term in TERMS1:
            J = reference_jacobian(data[b], mode, h, sl)
            want = term_value(case, J)
            Jenv = [[float(np.nanmax(np.abs(J[c][a]))) for a in range(D)] for c in range(D)]
            delta = 8 * (eps * M / hmin + EPS32 * max(max(row) for row in Jenv))
            bound = term_error(case, Jenv, delta) + 64 * eps * term_value(case, Jenv)
        else:
            acc, curv = 0.0, []
            for c in range(D):
                lap = 0.0
                for a in range(D):
                    for a2 in range(a, D):
                        orders = [0] * D
                        orders[a] += 1
                        orders[a2] += 1
                        d = spline_derivative(data[b, c], sl, orders) / (h[a] * h[a2])
                        acc = acc + (1.0 if a == a2 else 2.0) * d * d
                        if a == a2:
                            lap = lap + d
                curv.append(lap)
            want = acc if term == "bending" else 0.5 * sum(v * v for v in curv)
            d2max = 4 * M / hmin ** 2
            d2err = 16 * eps * M / hmin ** 2 + 4 * EPS32 * d2max
            bound = D ** 3 * (2 * d2max * d2err + d2err ** 2)
        r = max(r, check_close(none[b:b + 1][reg], np.asarray(want)[None, None][reg], bound, f"mode_definition:{cls}",
                               f"{term}{term_kwargs(case)} mode={mode} stride={case['stride']} spacing={sp_arg} item {b}: point values "
                               f"on a noise field vs the numpy model of the mode (margins {margins})"))
    aniso = case["h"] is None and len(set(shape)) > 1 or case["h"] is not None and max(per[0]) / min(per[0]) > 1.05
    return {"ratio": r, "nontrivial": bool(aniso),
            "labels": [f"term={term}", f"mode={mode}", f"D={D}", case["dtype"], f"N={N}",
                       "spacing=default" if case["h"] is None else f"spacing={case['spacing_form']}"]}


# ---------------------------------------------------------------------------------------
# reference self-test


def selftest():
    # elastic table: inverse formulas invert the forward formulas for every pair
    for lam, mu in ((1.2, 0.8), (0.0011, 0.01), (300.0, 40.0)):
        qty = elastic_quantities(lam, mu)
        for pair in VALID_PAIRS:
            out = lame_table(pair, qty[pair[0]], qty[pair[1]])
            assert abs(out[0] - lam) <= 1e-10 * lam and abs(out[1] - mu) <= 1e-10 * mu, (pair, out, lam, mu)
    # B-spline second-derivative weights: numerical derivative of the first-derivative weights, and exactness on k^2
    for t in (0.0, 0.3, 0.75):
        num = (ref.bspline_basis(t + 1e-6, 1) - ref.bspline_basis(t - 1e-6, 1)) / 2e-6
        assert np.abs(num - ref.bspline_basis(t, 2)).max() < 1e-8
    k = np.arange(8, dtype=np.float64)
    d2 = ref.bspline_eval_1d(k * k, 1.0 + np.arange(10) / 2.0, derivative=2)
    assert np.abs(d2 - 2.0).max() < 1e-12
    # closed forms agree with a brute-force evaluation on a random Jacobian
    J = [[0.3, -0.2, 0.1], [0.5, 0.1, -0.4], [0.2, 0.7, -0.6]]
    Jn = np.array(J)
    c = {"term": "elasticity", "lam": 1.3, "mu": 0.7}
    eps_t = 0.5 * (Jn + Jn.T)
    assert abs(term_value(c, J) - (1.3 / 2 * np.trace(Jn) ** 2 + 0.7 * (eps_t ** 2).sum())) < 1e-12
    assert abs(grad_value(J, 2, None) - np.sqrt((Jn ** 2).sum())) < 1e-12
    # Gaussian kernel model: direct convolution of an affine / quadratic / cosine sequence with the sampled kernels
    for sigma in (DEFAULT_GAUSS_SIGMA,) + SIGMAS + (1.5,):
        x, g = kernel_samples(sigma)
        k1 = g * x / sigma ** 2
        M0, bb = kernel_moments(sigma)
        i = np.arange(-30, 31, dtype=np.float64)

        def corr(f, kern):
            return np.array([float((kern * f[j - len(x) // 2: j + len(x) // 2 + 1]).sum()) for j in range(len(x) // 2, len(f) - len(x) // 2)])

        d = corr(1.7 * i + 0.3, k1)
        assert np.abs(d - 1.7 * bb).max() < 1e-12 and abs(bb * M0 - 1) <= gauss_env(sigma, 2, 1)
        d2 = corr(corr(0.5 * 0.8 * i * i - i, k1), k1)
        assert np.abs(d2 - 0.8 * bb * bb).max() < 1e-12 and abs(bb * bb * M0 ** 4 - 1) <= gauss_env(sigma, 3, 2)
        w = 0.77
        c, tol = smooth_response(sigma, w)
        sm = corr(np.cos(w * i + 0.4), g / M0)
        ii = i[len(x) // 2: len(i) - len(x) // 2]
        assert np.abs(sm - c * np.cos(w * ii + 0.4)).max() < 1e-12 and 0 < c < 1
        R, tol = gauss_derivative_response(sigma, w, 1, 1)
        assert np.abs(corr(np.cos(w * i + 0.4), k1) + R * np.sin(w * ii + 0.4)).max() < 1e-12
        assert abs(R - w * math.exp(-0.5 * (sigma * w) ** 2)) <= tol < 0.25
    # stencil models on a quadratic: central exact, forward/backward off by half a step
    q = (np.arange(7.0) * 0.5) ** 2
    assert np.abs(fd_np(q, 0, "central", 0.5)[1:-1] - 2 * np.arange(7.0)[1:-1] * 0.5).max() < 1e-12
    assert np.abs(fd_np(q, 0, "forward", 0.5)[:-1] - (2 * np.arange(7.0)[:-1] * 0.5 + 0.5)).max() < 1e-12
    assert np.abs(fd_np(q, 0, "backward", 0.5)[1:] - (2 * np.arange(7.0)[1:] * 0.5 - 0.5)).max() < 1e-12
    fcb = fd_np(q, 0, "forward_central_backward", 0.5)
    assert fcb[0] == fd_np(q, 0, "forward", 0.5)[0] and fcb[-1] == fd_np(q, 0, "backward", 0.5)[-1] and not np.isnan(fcb).any()
    # spline_derivative agrees with the second-derivative helper of the bending reference
    cf = hash_noise((5, 6), 3, -1.0, 1.0)
    sd = spline_second_derivatives(cf, [2, 3], [1.0, 1.0])
    assert np.abs(sd[(0, 1)] - spline_derivative(cf, [2, 3], [1, 1])).max() < 1e-12
    assert np.abs(sd[(1, 1)] - spline_derivative(cf, [2, 3], [0, 2])).max() < 1e-12
    # exact inverse pairs
    F, I = contraction_pair([0.5, -1, 1, 0.2], [1.0, -1.0], 1.0, np.array([1.0, 0.9]))
    assert np.abs(ref.hmul(F, I) - ref.hom(np.eye(2), np.zeros(2))).max() < 1e-12
    assert (np.abs(F[:, :2]) @ np.array([1.0, 0.9]) + np.abs(F[:, 2]) <= np.array([1.0, 0.9]) + 1e-12).all()


FACETS = [
    Facet("affine_values", run_affine, strategy=affine_cases,
          rule="affine fields u = A x + t (item 1: -A^T/2) in cube coordinates with the default spacing or index*h with list / scalar / "
               "per-item spacing; every first-order term x mode (fd, sobel/prewitt, bspline with strides) x (p, q); 1 in 5 is a pure "
               "translation; point values vs closed form (interior for forward/backward/central), mean and sum; "
               "non-trivial = (non-symmetric A or translation) and not the all-default configuration",
          quick=700, thorough=12000, shards=16, quick_shards=3),
    Facet("second_order", run_second, strategy=second_cases,
          rule="bending / curvature of affine, affine + quadratic / smooth / noise fields for every mode incl. the default; zero on affine, "
               "unchanged by adding affine, closed form on quadratic fields two samples off the boundary; non-trivial = |A|max > 0.1, non-cubic shape",
          quick=450, thorough=8000, shards=16, quick_shards=3),
    Facet("scaling", run_scaling, strategy=scaling_cases,
          rule="noise / smooth fields, all modes incl. gaussian and bspline, optional sigma; >= 0; L(c u) = |c|^k L(u); L(u; s h) = s^(-m k) L(u; h); "
               "non-trivial = anisotropic spacing, |c| != 1, s != 1, non-zero loss",
          quick=350, thorough=6000, shards=16, quick_shards=3),
    Facet("reductions_modules", run_modules, strategy=module_cases,
          rule="noise fields; 'mean'/'sum'/default vs 'none'; losses.flow modules vs functional forms incl. retained constructor arguments; "
               "elastic constants as one of 7 keyword pairs; linear tensors (N,D,D+1)/(N,D,D)/(N,D,1) => 0; non-trivial = explicit mode, non-zero loss",
          quick=280, thorough=4000, shards=16, quick_shards=3),
    Facet("bspline_bending", run_bspline, strategy=bspline_cases,
          rule="coefficient arrays 4..9 per axis, strides 1..4 (int or per-axis), default / explicit spacing, via bspline_bending_loss, "
               "bending_loss(mode='bspline'), BSplineBending, Bending; vs float64 tensor-product reference spline; non-trivial = some stride > 1",
          quick=240, thorough=5000, shards=8, quick_shards=2),
    Facet("lame", run_lame, strategy=lame_cases, enumerate=lame_enumerated, exhaustive_tiers=(),
          rule="ground truth (mu, nu) -> all moduli by the forward formulas -> each of the 9 valid keyword pairs; vs ground truth and vs "
               "independent inverse table; round trip through (E, nu); elasticity_loss / Elasticity accept the pair; non-trivial = pair != (lambda, mu)",
          quick=150, thorough=3000, shards=4),
    Facet("inverse_consistency", run_ic, strategy=ic_cases,
          rule="exactly inverse affine pairs (row-scaled diagonally dominant contractions; exp(+-H) of invariant generators) "
               "as matrix / flow / mixed, composed with a constant offset in cube units; units x align_corners x anisotropic "
               "size/spacing x margins (int / float) x masks (float / bool / uint8, batch 1 or N); non-trivial = anisotropic size and spacing",
          quick=600, thorough=10000, shards=16, quick_shards=2),
    Facet("per_axis_spacing", run_axis, strategy=axis_cases,
          rule="fields that vary along one spatial axis k only (1-D noise / cosine profiles per component and item), every term x every mode "
               "(incl. gaussian, bspline with strides) x optional sigma; spacing as list or (N, D) tensor with different rows; changing the "
               "spacings of the other axes changes nothing, scaling the spacing of axis k by s rescales by s^(-m k), in all items or in the "
               "last item only; non-trivial = anisotropic spacing, s != 1, some other-axis factor != 1, non-zero loss",
          quick=400, thorough=7000, shards=16, quick_shards=3),
    Facet("sigma_response", run_sigma, strategy=sigma_cases,
          rule="cosine profiles along one axis plus a constant; every term x every mode; non-gaussian modes: L(u; sigma) = G(w)^k L(u; None) in "
               "the interior (G = transfer function of the Gaussian at the frequency of the profile); mode='gaussian' (sigma None / 0.9 / 1.1 / "
               "1.5): analytic values from the response of the derivative-of-Gaussian kernel; tolerances = distance between the sampled "
               "truncated kernel and the continuous Gaussian; non-trivial = G^k < 0.95 resp. anisotropic spacing",
          quick=300, thorough=5000, shards=16, quick_shards=3),
    Facet("mode_definitions", run_moderef, strategy=moderef_cases,
          rule="noise fields, first-order terms x {None, forward_central_backward, central, forward, backward, sobel, prewitt, bspline with strides} "
               "and bending / curvature for bspline; default / list / scalar / (1, D) / (N, D) / (N, 1) spacing; point values vs a numpy model "
               "of the stencils (docstring) resp. the tensor-product reference spline; non-trivial = anisotropic spacing",
          quick=350, thorough=6000, shards=16, quick_shards=3),
]
