"""C08 - Homogeneous-transform and rotation algebra is exact for every operand form."""
from __future__ import annotations

import itertools
import math

import numpy as np
import torch
from hypothesis import strategies as st

from vlib import gen, ref
from vlib.case import hash_noise, tdtype
from vlib.core import Facet, Violation, check_close, eps_of

PROPERTY = "C08"
MANIFEST = {
    "text": "Generated-input search (Hypothesis) plus complete enumeration of the finite configuration spaces "
            "(9 operand-form pairs x 9 batch-shape pairs x D in {2,3}; 12 Euler orders x 3 notations x 3 angle-tensor "
            "shapes x homogeneous flag) against independent float64 numpy references written from the docstrings: "
            "homogeneous products, elementary-rotation products (first angle = left-most factor), the (w,x,y,z) quaternion "
            "and Rodrigues formulas (reference itself cross-checked against scipy.spatial.transform.Rotation before every run). "
            "Conversions are compared as rotation matrices (q and -q identified), round trips are generated away from gimbal "
            "lock, setters/getters of the linear transforms are exercised for Parameter-held (squashed) and tensor-held "
            "parameters; the set -> get round trip is also taken across public state toggles placed between setter and getters "
            "(requires_grad_ / params.requires_grad - the documented way to freeze -, train/eval, to(dtype), state_dict -> load_state_dict, "
            "copy, deepcopy, zero_grad; stand-alone and as member of the Rigid/Similarity/Affine/FullAffine composites; read directly and "
            "through inverse()/inverse(link=True)). Every conversion / constructor function is additionally called several times with "
            "different arguments while all results stay alive: each result is snapshotted after its own call and compared with the "
            "reference only after the last call (no result may change, share memory with another result or with module-level tensors, "
            "or be affected by writing into another result). Exploration: no absence proof; bounds are 64 eps(dtype) x condition, the errors the property is "
            "about (transposed factor, swapped angles, sign, wrong branch, dropped translation) are O(0.1-1).",
    "note": "Trusted: numpy matmul, vlib.ref rotation formulas (checked against scipy at start-up), the shape rule "
            "'(D,) or (...,D,1) translation / (...,D,D) affine / (...,D,D+1) homogeneous' taken from the docstrings. "
            "CPU, float32/float64. Two documented regularisation constants of the kornia-derived code enter the bounds as "
            "derived floors (see ASSUMPTIONS).",
    "technique": "property-based testing (Hypothesis) with float64 reference models, metamorphic relations and exhaustive "
                 "enumeration of finite configuration spaces",
}
ASSUMPTIONS = [
    "angle_axis_to_rotation_matrix divides by (theta + 1e-6) (regularisation inherited from kornia/ceres): the resulting "
    "matrix error is <= 1e-6 (2(1-cos t)+|sin t|)/t <= 1.9e-6, and the first-order branch for t^2 <= 1e-6 errs by <= t^2/2 "
    "(measured: 0.52..1.00 of this expression); twice this expression is added to the bound of the check of this function",
    "rotation_matrix_to_quaternion adds its documented eps=1e-8 under the square root when trace <= 0: relative quaternion "
    "error <= 5e-9, matrix error <= 2e-8; a floor of 4e-8 is added where this function is involved",
    "Euler round trips are generated with |sin(second angle)| >= sin(0.05) (away from gimbal lock) and the bound is scaled by 1/|sin|",
    "Parameter-held scales are generated inside the range of the squashing (exp(tanh(.)): 0.4..2.7), shear angles inside "
    "(-pi/4, pi/4); tensor-held parameters are unrestricted",
    "leading shapes generated: none, (1,), (N,), (2,N) with N in {2,3}; operands of one call share the dtype",
    "state toggles: a transformation is given the dtype of the values before they are set (module.to); a later to(float32) rounds the "
    "stored (encoded) parameters once, which adds eps32 (|value| + 1) to the bounds; state_dict is loaded into a fresh transformation of "
    "the same class, constructor arguments, Parameter/buffer kind and dtype; getters of an inverse() view return the stored parameters, "
    "tensor()/matrix() the inverse map (checked only for cond <= 1e3, bound scaled by cond)",
    "call isolation: results may share memory with their own arguments (as_homogeneous_matrix documents a reference, translation() returns "
    "a view) but not with results of calls with other arguments nor with module-level tensors; vector_rotation is generated with "
    "angle(a, b) in [0.3, 1.2] (it uses asin of the cross-product norm), bound scaled by 1/cos",
]


def floor_aa(theta: float) -> float:
    """2 x the derived error of angle_axis_to_rotation_matrix caused by its 1e-6 regularisation (see ASSUMPTIONS)."""
    t2 = theta * theta
    taylor = t2                                           # first-order branch, taken for theta^2 <= 1e-6
    normal = 2e-6 * (2 * (1 - math.cos(theta)) + abs(math.sin(theta))) / (theta + 1e-6)
    if t2 < 1e-6 * (1 - 1e-3):
        return taylor
    if t2 > 1e-6 * (1 + 1e-3):
        return normal
    return max(taylor, normal)                            # branch decided by rounding of theta^2 in the tested dtype


FLOOR_M2Q = 4e-8    # rotation_matrix_to_quaternion eps (derived above)

ORDERS = ["".join(p) for p in itertools.product("xyz", repeat=3) if p[0] != p[1] and p[1] != p[2]]
assert len(ORDERS) == 12
IMPLEMENTED_INVERSE = ("zxz", "xzx")   # orders for which euler_rotation_angles documents an implementation
BATCH = {"none": lambda N: (), "1": lambda N: (1,), "N": lambda N: (N,), "AB": lambda N: (2, N)}


def selftest():
    """Cross-check the numpy reference formulas against scipy (independent third party)."""
    from scipy.spatial.transform import Rotation

    for i in range(20):
        a = hash_noise((3,), 3 * i, -math.pi, math.pi)
        for o in ORDERS:
            # scipy upper-case = intrinsic = product of elementary rotations left to right
            d = np.abs(Rotation.from_euler(o.upper(), a).as_matrix() - ref.euler_matrix(a, o)).max()
            assert d < 1e-13, ("euler", o, d)
        q = hash_noise((4,), 3 * i + 1, -1.0, 1.0)
        d = np.abs(Rotation.from_quat([q[1], q[2], q[3], q[0]]).as_matrix() - ref.quaternion_matrix(q)).max()
        assert d < 1e-13, ("quat", d)
        v = hash_noise((3,), 3 * i + 2, -2.0, 2.0)
        d = np.abs(Rotation.from_rotvec(v).as_matrix() - ref.axis_angle_matrix(v)).max()
        assert d < 1e-13, ("rotvec", d)
    assert np.abs(ref.rot2(0.3) - ref.rotz(0.3)[:2, :2]).max() == 0
    x = np.arange(6.0).reshape(2, 3)
    assert np.array_equal(np_full(x[:, 2], 2), np.array([[1, 0, 2], [0, 1, 5.0]]))
    assert np.array_equal(np_full(x[:, :2], 2), np.array([[0, 1, 0], [3, 4, 0.0]]))
    selftest_iso()


# ---------------------------------------------------------------------------------------
# numpy model of the three operand forms (written from the docstrings of core/linalg.py)


def np_full(x: np.ndarray, D: int) -> np.ndarray:
    """(D,) or (..., D, 1) translation | (..., D, D) affine | (..., D, D+1) homogeneous -> (..., D, D+1)."""
    x = np.asarray(x, dtype=np.float64)
    if x.ndim == 1:
        x = x[:, None]
    lead = x.shape[:-2]
    assert x.shape[-2] == D, x.shape
    out = np.zeros(lead + (D, D + 1))
    if x.shape[-1] == 1:
        out[..., :D] = np.eye(D)
        out[..., D] = x[..., 0]
    elif x.shape[-1] == D:
        out[..., :D] = x
    elif x.shape[-1] == D + 1:
        out[...] = x
    else:
        raise AssertionError(x.shape)
    return out


def np_square(f: np.ndarray) -> np.ndarray:
    D = f.shape[-2]
    s = np.zeros(f.shape[:-2] + (D + 1, D + 1))
    s[..., :D, :] = f
    s[..., D, D] = 1.0
    return s


def np_compose(*fs: np.ndarray) -> np.ndarray:
    """Full-matrix product; the first argument is applied last. Leading shapes broadcast."""
    m = np_square(fs[0])
    for f in fs[1:]:
        m = np.matmul(m, np_square(f))
    return m[..., :-1, :]


def np_abs_compose(*fs: np.ndarray) -> float:
    m = np.abs(np_square(fs[0]))
    for f in fs[1:]:
        m = np.matmul(m, np.abs(np_square(f)))
    return float(m.max())


def np_apply(f: np.ndarray, p: np.ndarray, vectors: bool = False) -> np.ndarray:
    """Apply full matrices f (lead..., D, D+1) to points p (lead'..., k, D) (leading dims broadcast)."""
    D = f.shape[-2]
    y = np.matmul(p, np.swapaxes(f[..., :D], -1, -2))
    if not vectors:
        y = y + f[..., None, :, D]
    return y


def ufloat(lo: float, hi: float, nd: int = 3):
    """Evenly spread floats in [lo, hi): golden-ratio scramble of a drawn integer. Hypothesis draws integers with a strong
    bias towards 0 and the interval ends; generic (non-degenerate) values need a spread that does not depend on that bias."""
    return st.integers(0, 10 ** 6).map(lambda k: round(lo + (hi - lo) * ((k * 0.6180339887498949) % 1.0), nd))


def mixed(lo: float, hi: float, step: float = 0.01):
    """Mostly evenly spread values, some lattice values (which shrink to and favour round numbers / interval ends)."""
    u = ufloat(lo, hi)
    return st.one_of(u, u, u, gen.qfloat(lo, hi, step))


def operand_strategy(batches=("none", "1", "N")):
    return st.fixed_dictionaries({
        "form": st.sampled_from(["t", "a", "h"]),
        "batch": st.sampled_from(list(batches)),
        "key": st.integers(0, 10 ** 6),
        "amp": st.sampled_from([0.5, 2.0, 2.0, 10.0]),
        "t1d": st.booleans(),
    })


def build_operand(op: dict, D: int, N: int, dt) -> torch.Tensor:
    lead = BATCH[op["batch"]](N)
    full = np.round(hash_noise(lead + (D, D + 1), op["key"], -op["amp"], op["amp"]), 3)
    if op["form"] == "t":
        arr = full[..., D] if (op["batch"] == "none" and op.get("t1d")) else full[..., D:]
    elif op["form"] == "a":
        arr = full[..., :D]
    else:
        arr = full
    return torch.tensor(np.ascontiguousarray(arr), dtype=dt)


def model_of(x: torch.Tensor, D: int) -> np.ndarray:
    return np_full(x.detach().double().numpy(), D)


def points_array(D: int, key: int, shape=(1, 4)) -> np.ndarray:
    return np.round(hash_noise(tuple(shape) + (D,), key + 17, -5.0, 5.0), 3)


def op_label(op):
    return op["form"] + ("1d" if op["form"] == "t" and op["batch"] == "none" and op.get("t1d") else "") + ":" + op["batch"]


# ---------------------------------------------------------------------------------------
# facet 1: hmm_forms


@st.composite
def hmm_cases(draw):
    D = draw(gen.dims())
    N = draw(st.integers(2, 3))
    a = draw(operand_strategy(("none", "1", "N", "AB")))
    if a["batch"] == "AB":
        b = draw(operand_strategy(("none", "1", "AB")))
    else:
        b = draw(operand_strategy(("none", "1", "N", "AB")))
        if b["batch"] == "AB" and a["batch"] == "N":
            a = dict(a, batch="1")
    third = None
    if draw(st.integers(0, 3)) == 0:
        used = {a["batch"], b["batch"]}
        third = draw(operand_strategy(("none", "1", "AB") if "AB" in used else ("none", "1", "N")))
    return {"D": D, "N": N, "a": a, "b": b, "c": third, "dtype": draw(gen.dtypes()), "pkey": draw(st.integers(0, 999))}


def hmm_enumeration(tier):
    i = 0
    for D in (2, 3):
        for fa, fb in itertools.product("tah", repeat=2):
            for ba, bb in itertools.product(("none", "1", "N"), repeat=2):
                i += 1
                yield {"D": D, "N": 2 + i % 2,
                       "a": {"form": fa, "batch": ba, "key": 2 * i, "amp": 2.0, "t1d": bool(i % 2)},
                       "b": {"form": fb, "batch": bb, "key": 2 * i + 1, "amp": 2.0, "t1d": bool((i // 2) % 2)},
                       "c": None, "dtype": "float64" if i % 3 else "float32", "pkey": i}


def result_form_ok(forms, k, D):
    """Shape rule of the homogeneous_matmul docstring: (..., D, 1), (..., D, D) or (..., D, D+1)."""
    if all(f == "t" for f in forms):
        return k in (1, D + 1)
    if all(f == "a" for f in forms):
        return k in (D, D + 1)
    return k == D + 1


def run_hmm(case):
    from deepali.core import linalg as L

    D, N = case["D"], case["N"]
    dt = tdtype(case["dtype"])
    eps = eps_of(dt)
    ops = [case["a"], case["b"]] + ([case["c"]] if case.get("c") else [])
    xs = [build_operand(o, D, N, dt) for o in ops]
    keep = [x.clone() for x in xs]
    fs = [model_of(x, D) for x in xs]
    expect = np_compose(*fs)
    cond = max(1.0, np_abs_compose(*fs))
    bound = 64 * eps * cond
    worst = 0.0

    out = L.homogeneous_matmul(*xs)
    lead = expect.shape[:-2]
    if tuple(out.shape[:-2]) != lead or out.shape[-2] != D or not result_form_ok([o["form"] for o in ops], out.shape[-1], D):
        raise Violation("hmm_shape", f"homogeneous_matmul result shape {tuple(out.shape)} for operands "
                                     f"{[tuple(x.shape) for x in xs]}; expected leading {lead}")
    if out.dtype != dt:
        raise Violation("hmm_dtype", f"result dtype {out.dtype} for operands of dtype {dt}")
    worst = max(worst, check_close(model_of(out, D), expect, bound, "hmm_product",
                                   f"homogeneous_matmul{tuple(op_label(o) for o in ops)} vs numpy product"))
    for x, k in zip(xs, keep):
        if not torch.equal(x, k):
            raise Violation("hmm_input_modified", "homogeneous_matmul modified an operand")

    if len(xs) == 2:
        h = L.hmm(xs[0], xs[1])
        if tuple(h.shape) != lead + (D, D + 1):
            raise Violation("hmm_shape", f"hmm result shape {tuple(h.shape)}, expected {lead + (D, D + 1)}")
        worst = max(worst, check_close(h, expect, bound, "hmm_product", f"hmm{tuple(op_label(o) for o in ops)} vs numpy product"))

    # metamorphic: composite applied to points == operands applied one after the other (last first)
    if all(x.ndim <= 3 for x in xs) and out.ndim <= 3:
        p = torch.tensor(points_array(D, case["pkey"]), dtype=dt)
        seq = p
        for x in reversed(xs):
            seq = L.homogeneous_transform(x, seq)
        direct = L.homogeneous_transform(out, p)
        pm = float(p.abs().max()) + 1.0
        worst = max(worst, check_close(direct, seq, 2 * bound * pm * (D + 1), "hmm_apply",
                                       "composite applied to points != operands applied one after the other"))
        pn = p.double().numpy()
        ex_pts = np_apply(expect, pn)
        worst = max(worst, check_close(direct, ex_pts.reshape(tuple(direct.shape)) if ex_pts.size == direct.numel() else ex_pts,
                                       2 * bound * pm * (D + 1), "hmm_apply_reference",
                                       "composite applied to points != numpy model"))
    batches = [o["batch"] for o in ops]
    return {"ratio": worst, "nontrivial": any(b in ("N", "AB") for b in batches),
            "labels": [f"D={D}", "forms=" + "".join(o["form"] for o in ops), "batch=" + "/".join(batches),
                       case["dtype"], f"nary={len(ops)}"]}


# ---------------------------------------------------------------------------------------
# facet 2: as_matrix


@st.composite
def as_matrix_cases(draw):
    D = draw(gen.dims())
    return {"D": D, "N": draw(st.integers(2, 3)), "x": draw(operand_strategy(("none", "1", "N", "AB"))),
            "offset": draw(st.sampled_from(["none", "none", "scalar", "vector", "batched"])),
            "okey": draw(st.integers(0, 999)), "dtype": draw(gen.dtypes()),
            "to_dtype": draw(st.sampled_from([None, None, "float32", "float64"])), "pkey": draw(st.integers(0, 999))}


def as_matrix_enumeration(tier):
    i = 0
    for D in (2, 3):
        for form in "tah":
            for batch in ("none", "1", "N", "AB"):
                for offset in ("none", "scalar", "vector", "batched"):
                    i += 1
                    yield {"D": D, "N": 2 + i % 2, "x": {"form": form, "batch": batch, "key": i, "amp": 2.0, "t1d": bool(i % 2)},
                           "offset": offset, "okey": i, "dtype": "float32" if i % 3 == 0 else "float64", "to_dtype": None, "pkey": i}


def run_as_matrix(case):
    from deepali.core import linalg as L

    D, N = case["D"], case["N"]
    dt = tdtype(case["dtype"])
    x = build_operand(case["x"], D, N, dt)
    keep = x.clone()
    f = model_of(x, D)
    lead = f.shape[:-2]
    to = case.get("to_dtype")
    kw = {} if to is None else {"dtype": tdtype(to)}
    odt = dt if to is None else tdtype(to)
    # float64 -> float32 conversion rounds the entries; everything else is a copy and must be exact
    conv = eps_of(odt) * float(np.abs(f).max()) if (odt != dt and odt == torch.float32) else 0.0

    m = L.as_homogeneous_matrix(x, **kw)
    if tuple(m.shape) != lead + (D, D + 1) or m.dtype != odt:
        raise Violation("as_matrix_shape", f"as_homogeneous_matrix({tuple(x.shape)}) -> {tuple(m.shape)} {m.dtype}")
    check_close(m, f, conv, "as_matrix_value", f"as_homogeneous_matrix of {op_label(case['x'])} changes the map")
    if case["x"]["form"] == "h" and odt == dt and m.data_ptr() != x.data_ptr():
        raise Violation("as_matrix_reference", "as_homogeneous_matrix copied a (..., D, D+1) tensor (documented: reference)")

    worst = 0.0
    if x.ndim <= 3:
        p = torch.tensor(points_array(D, case["pkey"]), dtype=odt)
        y0 = L.homogeneous_transform(x, p)
        y1 = L.homogeneous_transform(m, p)
        bound = 64 * eps_of(odt) * (float(np.abs(f).max()) + 1) * (float(p.abs().max()) + 1) * (D + 1)
        worst = max(worst, check_close(y1, y0, bound, "as_matrix_apply", "matrix form maps points differently from the original form"))
        ex = np_apply(f, p.double().numpy())
        worst = max(worst, check_close(y0, ex.reshape(tuple(y0.shape)), bound, "transform_points", "homogeneous_transform vs numpy model"))

    # homogeneous_matrix (+ offset): always a copy
    okind = case["offset"]
    off = None
    if okind == "scalar":
        off = torch.tensor(round(float(hash_noise((), case["okey"], -3, 3)), 3), dtype=dt)
    elif okind == "vector":
        off = torch.tensor(np.round(hash_noise((D,), case["okey"], -3, 3), 3), dtype=dt)
    elif okind == "batched":
        off = torch.tensor(np.round(hash_noise(lead + (D,), case["okey"], -3, 3), 3), dtype=dt)
    off_keep = None if off is None else off.clone()
    h = L.homogeneous_matrix(x, off, **kw) if off is not None else L.homogeneous_matrix(x, **kw)
    expect = f.copy()
    if off is not None:
        expect[..., D] = expect[..., D] + off.double().numpy()
    if tuple(h.shape) != lead + (D, D + 1) or h.dtype != odt:
        raise Violation("as_matrix_shape", f"homogeneous_matrix({tuple(x.shape)}) -> {tuple(h.shape)} {h.dtype}")
    hb = 4 * eps_of(odt) * (float(np.abs(expect).max()) + 3.0) if (off is not None or conv) else 0.0
    worst = max(worst, check_close(h, expect, hb, "homogeneous_matrix_value",
                                   f"homogeneous_matrix of {op_label(case['x'])} offset={okind}"))
    h.add_(1.0)
    if not torch.equal(x, keep):
        raise Violation("homogeneous_matrix_no_copy", "homogeneous_matrix returned a tensor sharing memory with its input")
    if off is not None and not torch.equal(off, off_keep):
        raise Violation("homogeneous_matrix_offset_modified", "homogeneous_matrix modified 'offset'")
    return {"ratio": worst, "nontrivial": case["x"]["batch"] in ("N", "AB"),
            "labels": [f"D={D}", "x=" + op_label(case["x"]), "offset=" + okind, case["dtype"], f"to={to}"]}


# ---------------------------------------------------------------------------------------
# facet 3: vectors


@st.composite
def vector_cases(draw):
    D = draw(gen.dims())
    N = draw(st.integers(2, 3))
    T = draw(operand_strategy(("none", "1", "N")))
    pshape = draw(st.sampled_from(["1d", "1k", "Nk", "Nab", "1ab"]))
    return {"D": D, "N": N, "T": T, "pshape": pshape, "k": draw(st.integers(1, 4)), "pkey": draw(st.integers(0, 999)),
            "dtype": draw(gen.dtypes()), "via": draw(st.sampled_from(["homogeneous_transform", "apply_transform", "transform_vectors"]))}


def run_vectors(case):
    from deepali.core import affine as A
    from deepali.core import linalg as L

    D, N = case["D"], case["N"]
    dt = tdtype(case["dtype"])
    eps = eps_of(dt)
    T = build_operand(case["T"], D, N, dt)
    f = model_of(T, D)
    nT = N if case["T"]["batch"] == "N" else 1
    k = case["k"]
    ps = {"1d": (), "1k": (1, k), "Nk": (nT, k), "Nab": (nT, k, 2), "1ab": (1, 2, k)}[case["pshape"]]
    v_np = np.round(hash_noise(ps + (D,), case["pkey"], -4, 4), 3)
    p_np = np.round(hash_noise(ps + (D,), case["pkey"] + 1, -4, 4), 3)
    v = torch.tensor(v_np, dtype=dt)
    p = torch.tensor(p_np, dtype=dt)
    v_keep = v.clone()
    via = case["via"]
    if via == "homogeneous_transform":
        fv = lambda t, x: L.homogeneous_transform(t, x, vectors=True)  # noqa: E731
        fp = lambda t, x: L.homogeneous_transform(t, x)  # noqa: E731
    elif via == "apply_transform":
        fv = lambda t, x: A.apply_transform(t, x, vectors=True)  # noqa: E731
        fp = lambda t, x: A.apply_transform(t, x, vectors=False)  # noqa: E731
    else:
        fv, fp = A.transform_vectors, A.transform_points

    # numpy model: f has leading () / (1,) / (N,); points (n, ..., D) are flattened per batch item
    fb = f.reshape((-1, D, D + 1))                     # (nT or 1, D, D+1)
    n_out = max(fb.shape[0], ps[0] if ps else 1)
    if ps == ():
        out_shape = ((nT,) if nT > 1 else ()) + (D,)
        vv = np.broadcast_to(v.double().numpy().reshape(1, 1, D), (n_out, 1, D))
        pp = np.broadcast_to(p.double().numpy().reshape(1, 1, D), (n_out, 1, D))
    else:
        out_shape = (n_out,) + ps[1:] + (D,)
        vv = np.broadcast_to(v.double().numpy().reshape(ps[0], -1, D), (n_out, int(np.prod(ps[1:])), D))
        pp = np.broadcast_to(p.double().numpy().reshape(ps[0], -1, D), (n_out, int(np.prod(ps[1:])), D))
    ex_v = np_apply(fb, vv, vectors=True).reshape(out_shape)
    ex_p = np_apply(fb, pp).reshape(out_shape)

    scale = (float(np.abs(f).max()) + 1) * (D + 1)
    bound = 64 * eps * scale * 5.0
    out_v = fv(T, v)
    if tuple(out_v.shape) != out_shape or out_v.dtype != dt:
        raise Violation("vectors_shape", f"vectors result {tuple(out_v.shape)} {out_v.dtype}, expected {out_shape} {dt}")
    worst = check_close(out_v, ex_v, bound, "vectors_value", f"vectors=True with {op_label(case['T'])} must apply exactly the linear part")
    if case["T"]["form"] == "t":
        check_close(out_v, ex_v, 0.0, "vectors_translation_not_ignored", "a pure translation must leave vectors unchanged (bitwise)")
    out_p = fp(T, p)
    worst = max(worst, check_close(out_p, ex_p, bound, "transform_points", "homogeneous_transform of points vs numpy model"))
    # metamorphic statement of the property: T(p + v) - T(p)
    out_pv = fp(T, p + v)
    worst = max(worst, check_close(out_v, out_pv.double() - out_p.double(), 4 * bound, "vectors_metamorphic",
                                   "transform(v, vectors=True) != T(p+v) - T(p)"))
    if not torch.equal(v, v_keep):
        raise Violation("vectors_input_modified", "homogeneous_transform modified its 'points' argument")
    return {"ratio": worst, "nontrivial": case["T"]["form"] != "a" and float(np.abs(f[..., D]).max()) > 0.1,
            "labels": [f"D={D}", "T=" + op_label(case["T"]), "p=" + case["pshape"], case["dtype"], via]}


# ---------------------------------------------------------------------------------------
# facet 4: euler


def order_string(order: str, notation: str):
    if notation == "lower":
        return order
    if notation == "upper":
        return order.upper()
    if notation == "R":
        return " o ".join("R" + c for c in order)
    raise AssertionError(notation)


def angle_strategy():
    special = st.sampled_from([0.0, math.pi, math.pi / 2, -math.pi / 2, 3.141, -3.141])
    u = ufloat(-3.141, 3.141)          # 3 decimals, strictly inside (-pi, pi)
    return st.one_of(u, u, u, u, u, gen.angles(), gen.angles(), special)


ANGLE_SHAPES_3D = ("3", "N3", "AB3")
ANGLE_SHAPES_2D = ("float", "0d", "1", "N1", "AB1")


@st.composite
def euler_cases(draw):
    D = draw(st.sampled_from([2, 3, 3, 3]))
    shape = draw(st.sampled_from(ANGLE_SHAPES_3D if D == 3 else ANGLE_SHAPES_2D))
    n = {"3": 1, "1": 1, "float": 1, "0d": 1, "N3": draw(st.integers(1, 3)), "N1": draw(st.integers(1, 3)), "AB3": 4, "AB1": 4}[shape]
    k = 3 if D == 3 else 1
    return {"D": D, "order": draw(st.sampled_from(ORDERS + [None])) if D == 3 else draw(st.sampled_from([None, "zxz", "Rz"])),
            "notation": draw(st.sampled_from(["lower", "upper", "R", "R"])),
            "shape": shape, "angles": draw(st.lists(st.lists(angle_strategy(), min_size=k, max_size=k), min_size=n, max_size=n)),
            "homogeneous": draw(st.booleans()), "dtype": draw(gen.dtypes()),
            "via": draw(st.sampled_from(["euler_rotation_matrix", "euler_rotation_matrix", "rotation_matrix"])),
            "dtype_arg": draw(st.booleans())}


def euler_enumeration(tier):
    i = 0
    for order in ORDERS:
        for notation in ("lower", "upper", "R"):
            for shape in ANGLE_SHAPES_3D:
                for hom in (False, True):
                    i += 1
                    n = {"3": 1, "N3": 2, "AB3": 4}[shape]
                    ang = [[round(0.37 + 0.61 * j + 0.01 * i, 3), round(-1.13 + 0.4 * j, 3), round(2.2 - 0.9 * j, 3)] for j in range(n)]
                    yield {"D": 3, "order": order, "notation": notation, "shape": shape, "angles": ang, "homogeneous": hom,
                           "dtype": "float64" if i % 2 else "float32", "via": "euler_rotation_matrix", "dtype_arg": False}


def euler_reference(D, order, angles):
    if D == 2:
        return np.stack([ref.rot2(a[0]) for a in angles])
    return np.stack([ref.euler_matrix(a, order or "zxz") for a in angles])


def generic_row(row) -> bool:
    for a in row:
        r = abs(a) % (math.pi / 2)
        if min(r, math.pi / 2 - r) < 0.05:
            return False
    return True


def generic_angles(angles) -> bool:
    """Some item has no angle within 0.05 of a multiple of pi/2 (such an item separates all conventions)."""
    return any(generic_row(row) for row in angles)


def run_euler(case):
    from deepali.core import affine as A

    D = case["D"]
    dt = tdtype(case["dtype"])
    eps = eps_of(dt)
    angles = case["angles"]
    shape = case["shape"]
    lead = {"3": (), "1": (), "float": (), "0d": (), "N3": (len(angles),), "N1": (len(angles),), "AB3": (2, 2), "AB1": (2, 2)}[shape]
    kw = {}
    if shape == "float":
        arg = float(angles[0][0])
        kw["dtype"] = dt
    else:
        t = torch.tensor(angles, dtype=dt)
        arg = t.reshape(()) if shape == "0d" else t.reshape(lead + (3 if D == 3 else 1,))
        if case.get("dtype_arg"):
            kw["dtype"] = dt
    order = case["order"]
    if D == 3:
        ostr = None if order is None else order_string(order, case["notation"])
    else:
        ostr = order  # ignored in 2-D (documented)
    hom = case["homogeneous"]
    if D == 3 and ostr is not None and A.euler_rotation_order(ostr) != order.upper():
        raise Violation("euler_order_string", f"euler_rotation_order({ostr!r}) = {A.euler_rotation_order(ostr)!r}, expected {order.upper()!r}")
    fn = A.euler_rotation_matrix if case["via"] == "euler_rotation_matrix" else A.rotation_matrix
    m = fn(arg, order=ostr, homogeneous=hom, **kw) if ostr is not None else fn(arg, homogeneous=hom, **kw)
    exp_shape = lead + (D, D + 1 if hom else D)
    if tuple(m.shape) != exp_shape or m.dtype != dt:
        raise Violation("euler_shape", f"euler_rotation_matrix(angles {shape}, order={ostr!r}, homogeneous={hom}) -> "
                                       f"{tuple(m.shape)} {m.dtype}, expected {exp_shape} {dt}")
    # reference from the values actually passed (after the cast to dtype)
    used = [[float(torch.tensor(a, dtype=dt)) for a in row] for row in angles]
    expect = euler_reference(D, order, used).reshape(lead + (D, D))
    bound = 64 * eps
    mm = m.detach().double().numpy()
    worst = check_close(mm[..., :D], expect, bound, "euler_matrix",
                        f"order={ostr!r}: matrix != product of elementary rotations in the stated order")
    if hom:
        check_close(mm[..., D], np.zeros(lead + (D,)), 0.0, "euler_homogeneous", "translation column of homogeneous rotation must be 0")
    R = mm[..., :D].reshape(-1, D, D)
    orth = float(np.abs(np.matmul(R, np.swapaxes(R, 1, 2)) - np.eye(D)).max())
    det = float(np.abs(np.linalg.det(R) - 1.0).max())
    if orth > 4 * bound or det > 8 * bound:
        raise Violation("euler_not_rotation", f"order={ostr!r}: |R R^T - I| = {orth:.3g}, |det - 1| = {det:.3g}")
    worst = max(worst, orth / (4 * bound), det / (8 * bound))
    return {"ratio": worst, "nontrivial": generic_angles(angles) and len(angles) > 1,
            "labels": [f"D={D}", f"order={order}", "notation=" + (case["notation"] if D == 3 and order else "-"), "shape=" + shape,
                       f"hom={hom}", case["dtype"]]}


# ---------------------------------------------------------------------------------------
# facet 5: euler_roundtrip


def lock_free_angle():
    """Second Euler angle with |sin| >= sin(0.05): (0.05, pi-0.05) or its negative."""
    pos = st.one_of(ufloat(0.05, math.pi - 0.05), ufloat(0.05, math.pi - 0.05), gen.qfloat(0.05, math.pi - 0.05, 1e-3))
    return st.one_of(pos, pos, pos.map(lambda a: -a))


@st.composite
def roundtrip_cases(draw):
    D = draw(st.sampled_from([2, 3, 3, 3]))
    shape = draw(st.sampled_from(["single", "N", "AB"]))
    n = {"single": 1, "N": draw(st.integers(1, 3)), "AB": 4}[shape]
    if D == 3:
        angles = [[draw(angle_strategy()), draw(lock_free_angle()), draw(angle_strategy())] for _ in range(n)]
        order = draw(st.sampled_from([None, "zxz", "xzx", "zxz", "xzx"] + ORDERS))
    else:
        angles = [[draw(angle_strategy())] for _ in range(n)]
        order = None
    return {"D": D, "order": order, "notation": draw(st.sampled_from(["lower", "upper"])), "shape": shape, "angles": angles,
            "homogeneous": draw(st.booleans()), "dtype": draw(gen.dtypes())}


def run_roundtrip(case):
    from deepali.core import affine as A

    D = case["D"]
    dt = tdtype(case["dtype"])
    eps = eps_of(dt)
    angles = case["angles"]
    n = len(angles)
    lead = {"single": (), "N": (n,), "AB": (2, 2)}[case["shape"]]
    order = case["order"]
    ostr = None if order is None else order_string(order, case["notation"])
    Rref = euler_reference(D, order, angles).reshape(lead + (D, D))
    Rin = Rref
    if case["homogeneous"]:
        Rin = np.concatenate([Rref, np.zeros(lead + (D, 1))], axis=-1)
    R = torch.tensor(Rin, dtype=dt)
    Rcast = R.double().numpy()[..., :D]
    labels = [f"D={D}", f"order={order}", "shape=" + case["shape"], case["dtype"], f"hom={case['homogeneous']}"]
    implemented = D == 2 or (order or "zxz") in IMPLEMENTED_INVERSE
    kw = {} if ostr is None else {"order": ostr}
    if not implemented:
        try:
            got = A.euler_rotation_angles(R, **kw)
        except NotImplementedError:
            return {"ratio": 0.0, "nontrivial": False, "labels": labels + ["not_implemented"]}
        # an implementation of a further order is acceptable iff it is correct
    else:
        got = A.euler_rotation_angles(R, **kw)
    k = 3 if D == 3 else 1
    if D == 2:
        kind = "euler_roundtrip_2d"
        cond = 1.0
    else:
        kind = "euler_roundtrip"
        cond = 1.0 + max(1.0 / abs(math.sin(a[1])) for a in angles)
    bound = 64 * eps * cond
    if got.numel() != n * k or (got.ndim > 0 and got.shape[-1] != k) or (got.ndim == 0 and lead != ()):
        raise Violation(kind, f"euler_rotation_angles of matrices {tuple(R.shape)} returned shape {tuple(got.shape)}; "
                              f"euler_rotation_matrix needs {lead + (k,)} to rebuild {lead + (D, D)}")
    g = got.detach().double().numpy().reshape(n, k)
    back = euler_reference(D, order, g).reshape(lead + (D, D))
    worst = check_close(back, Rcast, bound, kind,
                        f"order={ostr!r}: rotation rebuilt (numpy reference) from euler_rotation_angles differs from the input matrix")
    # the round trip through deepali itself, as stated by the property
    M = A.euler_rotation_matrix(got, **kw)
    if tuple(M.shape) != lead + (D, D):
        raise Violation(kind, f"euler_rotation_matrix(euler_rotation_angles(R)) has shape {tuple(M.shape)}, R has {lead + (D, D)}")
    worst = max(worst, check_close(M, Rcast, 2 * bound, kind, f"order={ostr!r}: euler_rotation_matrix(euler_rotation_angles(R)) != R"))
    return {"ratio": worst, "nontrivial": (D == 3 and generic_angles(angles)) or (D == 2 and any(generic_row(r) and r[0] < 0 for r in angles)),
            "labels": labels + ["implemented"]}


# ---------------------------------------------------------------------------------------
# facet 6: rotation_reprs


def unit(v):
    v = np.asarray(v, dtype=np.float64)
    return v / np.linalg.norm(v)


@st.composite
def repr_cases(draw):
    kind = draw(st.sampled_from(["q", "v"]))
    mode = draw(st.sampled_from(["single", "N", "N", "AB"]))
    n = {"single": 1, "N": draw(st.integers(1, 3)), "AB": 4}[mode]
    comp = mixed(-1.0, 1.0)
    items = []
    for _ in range(n):
        if kind == "q":
            q = draw(st.lists(comp, min_size=4, max_size=4))
            if sum(x * x for x in q) < 0.01:
                q = [1.0, 0.0, 0.0, 0.0] if draw(st.booleans()) else [0.0, 0.0, 1.0, 0.0]
            items.append(q)
        else:
            ax = draw(st.lists(comp, min_size=3, max_size=3))
            if sum(x * x for x in ax) < 0.01:
                ax = [0.0, 0.0, 1.0]
            th = draw(st.one_of(ufloat(0.0, math.pi - 0.01), ufloat(0.0, math.pi - 0.01), gen.qfloat(0.0, math.pi - 0.01, 1e-3),
                                st.sampled_from([0.0, 1e-4, 5e-4, 2e-3, math.pi / 2, math.pi - 0.01])))
            items.append(ax + [th])
    return {"kind": kind, "items": items, "mode": mode, "dtype": draw(gen.dtypes()),
            "scale": draw(st.sampled_from([1.0, 1.0, 0.25, 3.0])), "layout": draw(st.sampled_from(["contiguous", "contiguous", "transposed"]))}


def rot_of_quats(q: np.ndarray) -> np.ndarray:
    return np.stack([ref.quaternion_matrix(x) for x in q.reshape(-1, 4)])


def rot_of_vecs(v: np.ndarray) -> np.ndarray:
    return np.stack([ref.axis_angle_matrix(x) for x in v.reshape(-1, 3)])


def run_reprs(case):
    from deepali.core import linalg as L

    dt = tdtype(case["dtype"])
    eps = eps_of(dt)
    b = 64 * eps
    n = len(case["items"])
    mode = case["mode"]
    lead = {"single": (), "N": (n,), "AB": (2, 2)}[mode]
    worst = 0.0
    labels = [case["kind"], case["dtype"], "shape=" + mode]

    def shaped(arr, tail):  # (n,) + tail -> lead + tail
        return torch.tensor(np.ascontiguousarray(np.asarray(arr).reshape(lead + tail)), dtype=dt).contiguous()

    def T(x, tail, kind, what):  # result of documented shape lead + tail -> (n,) + tail numpy
        if tuple(x.shape) != lead + tail:
            raise Violation(kind + "_shape", f"{what}: result shape {tuple(x.shape)}, documented {lead + tail}")
        return x.detach().double().numpy().reshape((n,) + tail)

    def unit_ratio(qa, bound, kind, what):
        nrm = np.linalg.norm(qa, axis=1)
        return check_close(nrm, np.ones_like(nrm), bound, kind, what + ": quaternion not of unit length")

    if case["kind"] == "q":
        q64 = np.stack([unit(q) for q in case["items"]])
        q = shaped(q64, (4,))
        qn = q.double().numpy().reshape(n, 4)     # values actually passed
        R = rot_of_quats(qn)
        # quaternion -> matrix
        m = T(L.quaternion_to_rotation_matrix(q), (3, 3), "quat_to_matrix", f"quaternion_to_rotation_matrix({tuple(q.shape)})")
        worst = max(worst, check_close(m, R, b, "quat_to_matrix", "quaternion_to_rotation_matrix vs (w,x,y,z) formula"))
        # the same rotation for -q and for a rescaled quaternion (the function normalises)
        m = T(L.quaternion_to_rotation_matrix(-q * case["scale"]), (3, 3), "quat_to_matrix", "quaternion_to_rotation_matrix(-s q)")
        worst = max(worst, check_close(m, R, b, "quat_to_matrix", "quaternion_to_rotation_matrix(-s q) must be the same rotation"))
        # normalize_quaternion
        nq = T(L.normalize_quaternion(q * case["scale"]), (4,), "normalize_quaternion", "normalize_quaternion")
        worst = max(worst, check_close(nq, qn / np.linalg.norm(qn, axis=1, keepdims=True), 8 * eps, "normalize_quaternion",
                                       "normalize_quaternion(s q) != q/|q|"))
        # quaternion -> angle axis
        aa = T(L.quaternion_to_angle_axis(q), (3,), "quat_to_angle_axis", f"quaternion_to_angle_axis({tuple(q.shape)})")
        worst = max(worst, check_close(rot_of_vecs(aa), R, b * 4, "quat_to_angle_axis", "quaternion_to_angle_axis: different rotation"))
        # log map (half rotation vector); acos is conditioned by 1/|vec q|
        vn = float(np.linalg.norm(qn[:, 1:], axis=1).min())
        if vn >= 0.02:
            lgt = L.quaternion_exp_to_log(q)
            lg = T(lgt, (3,), "quat_log", "quaternion_exp_to_log")
            worst = max(worst, check_close(rot_of_vecs(2 * lg), R, b * 4 * (1 + 1 / vn), "quat_log",
                                           "quaternion_exp_to_log: 2*log is not the rotation vector of q"))
            ex = T(L.quaternion_log_to_exp(lgt), (4,), "quat_exp", "quaternion_log_to_exp")
            worst = max(worst, check_close(rot_of_quats(ex), R, b * 4 * (1 + 1 / vn), "quat_log_exp", "exp(log(q)) is another rotation"))
        # matrix -> quaternion / angle axis (input: reference matrix of q)
        if case.get("layout") == "transposed":
            Rt = shaped(np.swapaxes(R, 1, 2), (3, 3)).transpose(-1, -2)    # same values, non-contiguous memory
            assert not Rt.is_contiguous()
            labels.append("layout=transposed")
        else:
            Rt = shaped(R, (3, 3))
        Rc = Rt.double().numpy().reshape(n, 3, 3)
        q2 = T(L.rotation_matrix_to_quaternion(Rt), (4,), "matrix_to_quat", f"rotation_matrix_to_quaternion({tuple(Rt.shape)})")
        worst = max(worst, check_close(rot_of_quats(q2), Rc, b * 4 + FLOOR_M2Q, "matrix_to_quat",
                                       "rotation_matrix_to_quaternion: quaternion of another rotation"))
        worst = max(worst, unit_ratio(q2, b + FLOOR_M2Q, "matrix_to_quat", "rotation_matrix_to_quaternion"))
        if mode == "N":
            aa2 = T(L.rotation_matrix_to_angle_axis(Rt), (3,), "matrix_to_angle_axis", "rotation_matrix_to_angle_axis")
            worst = max(worst, check_close(rot_of_vecs(aa2), Rc, b * 4 + FLOOR_M2Q, "matrix_to_angle_axis",
                                           "rotation_matrix_to_angle_axis: vector of another rotation"))
        w = np.abs(qn[:, 0])
        nt = bool(n > 1 and (qn[:, 0] < 0).any() and (w > 0.05).all())
        labels.append("trace<=0" if (np.trace(R, axis1=1, axis2=2) <= 0).any() else "trace>0")
        labels.append("w<0" if (qn[:, 0] < 0).any() else "w>=0")
    else:
        v64 = np.stack([unit(it[:3]) * it[3] for it in case["items"]])
        v = shaped(v64, (3,))
        vn = v.double().numpy().reshape(n, 3)
        R = rot_of_vecs(vn)
        th = np.linalg.norm(vn, axis=1)
        # rotation vector -> quaternion
        qt = L.angle_axis_to_quaternion(v)
        q = T(qt, (4,), "angle_axis_to_quat", f"angle_axis_to_quaternion({tuple(v.shape)})")
        worst = max(worst, check_close(rot_of_quats(q), R, b * 4, "angle_axis_to_quat", "angle_axis_to_quaternion: another rotation"))
        worst = max(worst, unit_ratio(q, b, "angle_axis_to_quat", "angle_axis_to_quaternion"))
        # exponential map of the half vector is the same quaternion
        qe = T(L.quaternion_log_to_exp(v * 0.5), (4,), "quat_exp", "quaternion_log_to_exp")
        worst = max(worst, check_close(rot_of_quats(qe), R, b * 4, "quat_exp", "quaternion_log_to_exp(v/2): another rotation"))
        if mode == "N":   # documented input shape (N, 3)
            m = T(L.angle_axis_to_rotation_matrix(v), (3, 3), "angle_axis_to_matrix", f"angle_axis_to_rotation_matrix({tuple(v.shape)})")
            worst = max(worst, check_close(m, R, b + max(floor_aa(float(x)) for x in th), "angle_axis_to_matrix",
                                           "angle_axis_to_rotation_matrix vs Rodrigues formula"))
        # chain through all representations: v -> q -> R -> q' -> v'
        m2 = L.quaternion_to_rotation_matrix(qt)
        T(m2, (3, 3), "quat_to_matrix", f"quaternion_to_rotation_matrix({tuple(qt.shape)})")
        q3 = L.rotation_matrix_to_quaternion(m2)
        v3 = T(L.quaternion_to_angle_axis(q3), (3,), "repr_chain", "v -> q -> R -> q' -> v'")
        worst = max(worst, check_close(rot_of_vecs(v3), R, b * 8 + FLOOR_M2Q, "repr_chain",
                                       "v -> quaternion -> matrix -> quaternion -> v' is another rotation"))
        nt = bool(n > 1 and (th > 0.05).all())
        labels.append("theta>3" if (th > 3.0).any() else ("theta<0.01" if (th < 0.01).any() else "theta=mid"))
    return {"ratio": worst, "nontrivial": nt, "labels": labels}


# ---------------------------------------------------------------------------------------
# facet 7: setters


SETTER_CLASSES = ["EulerRotation", "EulerRotation", "QuaternionRotation", "IsotropicScaling", "AnisotropicScaling", "Shearing",
                  "Translation", "HomogeneousTransform"]


@st.composite
def setter_cases(draw):
    cls = draw(st.sampled_from(SETTER_CLASSES))
    D = 3 if cls == "QuaternionRotation" else draw(gen.dims())
    N = draw(st.integers(1, 3))
    held = draw(st.sampled_from(["parameter", "tensor"]))
    case = {"cls": cls, "D": D, "N": N, "held": held, "dtype": draw(gen.dtypes()), "op": "params"}
    if cls == "EulerRotation":
        case["op"] = draw(st.sampled_from(["params", "matrix", "ctor"]))
        case["order"] = draw(st.sampled_from([None, None, "zxz", "xzx", "XZX"] + (ORDERS if case["op"] != "matrix" else []))) if D == 3 else None
        if D == 3:
            case["values"] = [[draw(angle_strategy()), draw(lock_free_angle()) if case["op"] == "matrix" else draw(angle_strategy()),
                               draw(angle_strategy())] for _ in range(N)]
        else:
            case["values"] = [[draw(angle_strategy())] for _ in range(N)]
    elif cls == "QuaternionRotation":
        case["op"] = draw(st.sampled_from(["params", "matrix", "ctor"]))
        comp = mixed(-2.0, 2.0)
        vals = []
        for _ in range(N):
            q = draw(st.lists(comp, min_size=4, max_size=4))
            if sum(x * x for x in q) < 0.01:
                q = [1.0, 0.0, 0.0, 0.0]
            vals.append(q)
        case["values"] = vals
    elif cls in ("IsotropicScaling", "AnisotropicScaling"):
        case["op"] = draw(st.sampled_from(["params", "ctor"]))
        k = 1 if cls == "IsotropicScaling" else D
        s = mixed(0.4, 2.7) if (held == "parameter" and case["op"] == "params") else \
            st.one_of(mixed(0.05, 20.0), mixed(-20.0, 20.0))
        case["values"] = [draw(st.lists(s, min_size=k, max_size=k)) for _ in range(N)]
    elif cls == "Shearing":
        case["op"] = draw(st.sampled_from(["params", "ctor"]))
        k = 1 if D == 2 else 3
        s = mixed(-0.78, 0.78) if (held == "parameter" and case["op"] == "params") else mixed(-1.4, 1.4)
        case["values"] = [draw(st.lists(s, min_size=k, max_size=k)) for _ in range(N)]
    elif cls == "Translation":
        case["op"] = draw(st.sampled_from(["params", "ctor"]))
        case["values"] = [draw(st.lists(mixed(-50.0, 50.0), min_size=D, max_size=D)) for _ in range(N)]
    else:
        case["op"] = draw(st.sampled_from(["matrix", "ctor"]))
        case["values"] = [draw(st.lists(mixed(-5.0, 5.0), min_size=D * (D + 1), max_size=D * (D + 1))) for _ in range(N)]
    return case


def expect_matrix(t, expect_lin, expect_t, bound, kind, what):
    """t.matrix() must be (N, D, D+1) = [expect_lin | expect_t]; t.tensor() must describe the same map."""
    m = t.matrix()
    N, D = expect_lin.shape[0], expect_lin.shape[1]
    if tuple(m.shape) != (N, D, D + 1):
        raise Violation("setter_matrix_shape", f"{type(t).__name__}.matrix() has shape {tuple(m.shape)}, expected {(N, D, D + 1)}")
    full = np.concatenate([expect_lin, expect_t[..., None]], axis=-1)
    r = check_close(m, full, bound, kind, what)
    r = max(r, check_close(np_full(t.tensor().detach().double().numpy(), D), full, bound, kind, what + " (tensor())"))
    return r


def run_setters(case):
    import deepali.spatial as S
    from deepali.core import Grid
    from torch.nn import Parameter

    cls, D, N, held, op = case["cls"], case["D"], case["N"], case["held"], case["op"]
    dt = tdtype(case["dtype"])
    eps = eps_of(dt)
    grid = Grid(shape=[5, 4, 3][:D])
    vals = torch.tensor(case["values"], dtype=dt)
    used = vals.double().numpy()
    keep = vals.clone()
    zero_t = np.zeros((N, D))
    C = getattr(S, cls)
    kw = {}
    if cls == "EulerRotation" and case.get("order") is not None:
        kw["order"] = case["order"]
    labels = [cls, f"D={D}", f"N={N}", held, op, case["dtype"]]
    worst = 0.0

    def fresh():
        return C(grid, groups=N, params=(held == "parameter"), **kw)

    def check_held(t):
        if isinstance(t.params, Parameter) != (held == "parameter"):
            raise Violation("setter_param_kind", f"{cls}: params changed kind (Parameter vs tensor) after the setter")

    if cls == "EulerRotation":
        order = case.get("order")
        k = 3 if D == 3 else 1
        R = euler_reference(D, order.lower() if order else None, used)
        if op == "params":
            t = fresh()
            if t.angles_(vals) is not t:
                raise Violation("setter_return", "angles_() must return self")
            check_held(t)
            worst = max(worst, check_close(t.angles(), used, 64 * eps * math.pi, "euler_angles_getter", "angles_(a).angles() != a"))
            worst = max(worst, expect_matrix(t, R, zero_t, 64 * eps * 4, "euler_transform_matrix", f"EulerRotation(order={order!r}).matrix()"))
        elif op == "ctor":
            t = C(grid, params=vals, **kw)
            worst = max(worst, check_close(t.angles(), used, 0.0, "euler_angles_getter", "tensor-held angles() != params"))
            worst = max(worst, expect_matrix(t, R, zero_t, 64 * eps * 4, "euler_transform_matrix", f"EulerRotation(order={order!r}).matrix()"))
            labels[3] = "tensor"
        else:
            t = fresh()
            Rt = torch.tensor(R, dtype=dt)
            Rc = Rt.double().numpy()
            cond = 1.0 if D == 2 else 1.0 + max(1.0 / abs(math.sin(a[1])) for a in case["values"])
            if t.matrix_(Rt) is not t:
                raise Violation("setter_return", "matrix_() must return self")
            check_held(t)
            worst = max(worst, expect_matrix(t, Rc, zero_t, 64 * eps * 4 * cond, "euler_matrix_setter" if D == 3 else "euler_matrix_setter_2d",
                                             f"EulerRotation(order={order!r}).matrix_(R).matrix() != R"))
        labels.append(f"order={order}")
        nt = generic_angles(case["values"])
    elif cls == "QuaternionRotation":
        qn = used / np.linalg.norm(used, axis=1, keepdims=True)
        R = rot_of_quats(used)
        if op == "params":
            t = fresh()
            if t.quaternion_(vals) is not t:
                raise Violation("setter_return", "quaternion_() must return self")
            check_held(t)
            worst = max(worst, check_close(t.quaternion(), qn, 16 * eps, "quaternion_getter", "quaternion_(q).quaternion() != q/|q|"))
            worst = max(worst, expect_matrix(t, R, zero_t, 64 * eps, "quaternion_transform_matrix", "QuaternionRotation.matrix() vs (w,x,y,z) formula"))
        elif op == "ctor":
            t = C(grid, params=vals)
            worst = max(worst, check_close(t.quaternion(), qn, 16 * eps, "quaternion_getter", "quaternion() != params/|params|"))
            worst = max(worst, expect_matrix(t, R, zero_t, 64 * eps, "quaternion_transform_matrix", "QuaternionRotation.matrix() vs (w,x,y,z) formula"))
            labels[3] = "tensor"
        else:
            t = fresh()
            Rt = torch.tensor(R, dtype=dt)
            if t.matrix_(Rt) is not t:
                raise Violation("setter_return", "matrix_() must return self")
            check_held(t)
            worst = max(worst, expect_matrix(t, Rt.double().numpy(), zero_t, 64 * eps * 4 + FLOOR_M2Q, "quaternion_matrix_setter",
                                             "QuaternionRotation.matrix_(R).matrix() != R"))
        nt = bool((np.abs(qn) > 0.05).all())
    elif cls in ("IsotropicScaling", "AnisotropicScaling"):
        if op == "params":
            t = fresh()
            if t.scales_(vals) is not t:
                raise Violation("setter_return", "scales_() must return self")
            check_held(t)
            tol = 64 * eps * float(np.abs(used).max() + 1)
        else:
            t = C(grid, params=vals)
            tol = 0.0
            labels[3] = "tensor"
        worst = max(worst, check_close(t.scales(), used, tol, "scales_getter", "scales_(s).scales() != s"))
        diag = np.zeros((N, D, D))
        for i in range(D):
            diag[:, i, i] = used[:, 0] if cls == "IsotropicScaling" else used[:, i]
        worst = max(worst, expect_matrix(t, diag, zero_t, tol, "scaling_transform_matrix", f"{cls}.matrix() != diag(scales)"))
        nt = bool((np.abs(used - 1) > 0.05).all())
    elif cls == "Shearing":
        if op == "params":
            t = fresh()
            if t.angles_(vals) is not t:
                raise Violation("setter_return", "angles_() must return self")
            check_held(t)
            tol = 64 * eps
        else:
            t = C(grid, params=vals)
            tol = 0.0
            labels[3] = "tensor"
        worst = max(worst, check_close(t.angles(), used, tol, "shear_angles_getter", "angles_(a).angles() != a"))
        M = np.tile(np.eye(D), (N, 1, 1))
        iu = [(0, 1)] if D == 2 else [(0, 1), (0, 2), (1, 2)]
        for j, (r, c) in enumerate(iu):
            M[:, r, c] = np.tan(used[:, j])
        tb = 64 * eps * float((1 + np.tan(used) ** 2).max())
        worst = max(worst, expect_matrix(t, M, zero_t, tb, "shear_transform_matrix", "Shearing.matrix() != I + tan(angles) (upper triangle, row-major)"))
        nt = bool((np.abs(used) > 0.05).all())
    elif cls == "Translation":
        if op == "params":
            t = fresh()
            if t.offset_(vals) is not t:
                raise Violation("setter_return", "offset_() must return self")
            check_held(t)
        else:
            t = C(grid, params=vals)
            labels[3] = "tensor"
        check_close(t.offset(), used, 0.0, "offset_getter", "offset_(o).offset() != o")
        expect_matrix(t, np.tile(np.eye(D), (N, 1, 1)), used, 0.0, "translation_transform_matrix", "Translation.matrix() != [I | offset]")
        nt = bool((np.abs(used) > 0.05).all())
    else:
        M = used.reshape(N, D, D + 1)
        Mt = vals.reshape(N, D, D + 1)
        if op == "matrix":
            t = fresh()
            if t.matrix_(Mt) is not t:
                raise Violation("setter_return", "matrix_() must return self")
            check_held(t)
        else:
            t = C(grid, params=Mt)
            labels[3] = "tensor"
        expect_matrix(t, M[:, :, :D], M[:, :, D], 0.0, "homogeneous_transform_matrix", "HomogeneousTransform.matrix_(M).matrix() != M")
        nt = True
    if not torch.equal(vals, keep):
        raise Violation("setter_input_modified", f"{cls}: the setter modified its argument")
    return {"ratio": worst, "nontrivial": nt and N > 1, "labels": labels}


# ---------------------------------------------------------------------------------------
# facet 8: setter_toggles - parameter set -> (public state toggles) -> get round trips


TOGGLES = ["freeze", "unfreeze", "flag_false", "flag_true", "eval", "train", "to64", "to32", "state_dict", "copy", "deepcopy",
           "zero_grad"]
VIEWS = ["none", "none", "inverse", "inverse_linked", "inverse_twice"]
COMPOSITE_OF = {
    "EulerRotation": [("RigidTransform", "rotation"), ("SimilarityTransform", "rotation"), ("AffineTransform", "rotation"),
                      ("FullAffineTransform", "rotation")],
    "QuaternionRotation": [("RigidQuaternionTransform", "rotation")],
    "IsotropicScaling": [("SimilarityTransform", "scaling")],
    "AnisotropicScaling": [("AffineTransform", "scaling"), ("FullAffineTransform", "scaling")],
    "Shearing": [("FullAffineTransform", "shearing")],
    "Translation": [("RigidTransform", "translation"), ("RigidQuaternionTransform", "translation"), ("FullAffineTransform", "translation")],
}
COMPOSITE_ARGS = {"RigidTransform": ("rotation", "translation"), "RigidQuaternionTransform": ("rotation", "translation"),
                  "SimilarityTransform": ("scaling", "rotation", "translation"), "AffineTransform": ("scaling", "rotation", "translation"),
                  "FullAffineTransform": ("scaling", "shearing", "rotation", "translation")}


@st.composite
def toggle_cases(draw):
    case = dict(draw(setter_cases().filter(lambda c: c["op"] != "ctor")))
    tog = st.sampled_from(TOGGLES + ["freeze", "freeze", "flag_false"])
    case["pre"] = draw(st.lists(tog, min_size=0, max_size=2))
    case["post"] = draw(st.lists(tog, min_size=1, max_size=3))
    case["view"] = draw(st.sampled_from(VIEWS))
    case["functional"] = draw(st.booleans()) and case["op"] == "matrix"
    comps = COMPOSITE_OF.get(case["cls"], [])
    if comps and not case["functional"] and draw(st.booleans()):
        ok = [c for c in comps if not (c[0] == "RigidQuaternionTransform" and case["D"] != 3)]
        case["composite"] = list(draw(st.sampled_from(ok)))
        if case["cls"] == "EulerRotation":
            case["order"] = None          # the composites build their EulerRotation with the default order
    else:
        case["composite"] = None
    return case


def toggle_enumeration(tier):
    """Every class x every toggle placed between set and get (Parameter-held, N in {1, 2}), plus set-while-frozen -> unfreeze."""
    base = {
        "EulerRotation": lambda D, N: [[0.7 - 0.3 * i, 1.1 + 0.2 * i, -2.3 + 0.4 * i][:3 if D == 3 else 1] for i in range(N)],
        "QuaternionRotation": lambda D, N: [[0.5 + 0.1 * i, -0.7, 0.3, 0.9] for i in range(N)],
        "IsotropicScaling": lambda D, N: [[1.7 - 0.9 * i] for i in range(N)],
        "AnisotropicScaling": lambda D, N: [[0.6 + 0.2 * i, 1.9, 2.4][:D] for i in range(N)],
        "Shearing": lambda D, N: [[0.4 - 0.5 * i, -0.6, 0.25][:3 if D == 3 else 1] for i in range(N)],
        "Translation": lambda D, N: [[3.5 + i, -1.25, 0.75][:D] for i in range(N)],
        "HomogeneousTransform": lambda D, N: [[round(0.3 * j - 0.9 + 0.1 * i, 2) for j in range(D * (D + 1))] for i in range(N)],
    }
    i = 0
    for cls, mk in base.items():
        for tog in TOGGLES:
            for pre, post in (([], [tog]), ([tog], ["unfreeze" if tog in ("freeze", "flag_false") else "freeze"])):
                i += 1
                D = 3 if (cls == "QuaternionRotation" or i % 2) else 2
                N = 1 + i % 2
                op = "matrix" if cls == "HomogeneousTransform" or (cls in ("EulerRotation", "QuaternionRotation") and i % 3 == 0) else "params"
                comps = COMPOSITE_OF.get(cls, [])
                comp = list(comps[i % len(comps)]) if comps and i % 4 == 0 else None
                if comp and comp[0] == "RigidQuaternionTransform":
                    D = 3
                yield {"cls": cls, "D": D, "N": N, "held": "parameter", "dtype": "float32" if i % 3 else "float64", "op": op,
                       "order": None if (comp or D == 2 or cls != "EulerRotation") else ["zxz", "xzx", "xyz"][i % 3 if op == "params" else i % 2],
                       "values": mk(D, N), "pre": pre, "post": post, "view": VIEWS[1 + i % 4] if i % 5 == 0 else "none",
                       "functional": False, "composite": comp}


def toggle_model(cls, D, used, order, op, eps, values):
    """Documented meaning of the parameters: (getter name, expected getter value, its tolerance, linear part, translation, matrix tol)."""
    N = used.shape[0]
    zero_t = np.zeros((N, D))
    if cls == "EulerRotation":
        R = euler_reference(D, order.lower() if order else None, used)
        if op == "matrix":
            cond = 1.0 if D == 2 else 1.0 + max(1.0 / abs(math.sin(a[1])) for a in values)
            return None, None, 0.0, R, zero_t, 64 * eps * 4 * cond
        return "angles", used, 64 * eps * math.pi, R, zero_t, 64 * eps * 4
    if cls == "QuaternionRotation":
        R = rot_of_quats(used)
        if op == "matrix":
            return None, None, 0.0, R, zero_t, 64 * eps * 4 + FLOOR_M2Q
        return "quaternion", used / np.linalg.norm(used, axis=1, keepdims=True), 16 * eps, R, zero_t, 64 * eps
    if cls in ("IsotropicScaling", "AnisotropicScaling"):
        tol = 64 * eps * float(np.abs(used).max() + 1)
        diag = np.zeros((N, D, D))
        for i in range(D):
            diag[:, i, i] = used[:, 0] if cls == "IsotropicScaling" else used[:, i]
        return "scales", used, tol, diag, zero_t, tol
    if cls == "Shearing":
        M = np.tile(np.eye(D), (N, 1, 1))
        for j, (r, c) in enumerate([(0, 1)] if D == 2 else [(0, 1), (0, 2), (1, 2)]):
            M[:, r, c] = np.tan(used[:, j])
        return "angles", used, 64 * eps, M, zero_t, 64 * eps * float((1 + np.tan(used) ** 2).max())
    if cls == "Translation":
        return "offset", used, 0.0, np.tile(np.eye(D), (N, 1, 1)), used, 0.0
    M = used.reshape(N, D, D + 1)
    return None, None, 0.0, M[:, :, :D], M[:, :, D], 0.0


def second_values(cls, held, op, vals64):
    """Values of a second, simultaneously alive transform of the same class (a different valid parameter set)."""
    if cls == "QuaternionRotation":
        return vals64 * np.array([1.0, -1.0, -1.0, -1.0])
    if cls in ("IsotropicScaling", "AnisotropicScaling"):
        return np.round(3.1 - vals64, 6) if (held == "parameter" and op == "params") else vals64 + 0.25
    return -vals64


def run_toggles(case):
    import copy as _copy

    import deepali.spatial as S
    from deepali.core import Grid
    from torch.nn import Parameter

    cls, D, N, held, op = case["cls"], case["D"], case["N"], case["held"], case["op"]
    dt = tdtype(case["dtype"])
    grid = Grid(shape=[5, 4, 3][:D])
    comp = case.get("composite")
    order = case.get("order") if cls == "EulerRotation" else None
    flag = held == "parameter"
    labels = [cls, f"D={D}", f"N={N}", held, op, case["dtype"], "view=" + case["view"], "composite=" + (comp[0] if comp else "-"),
              "functional" if case.get("functional") else "in-place"] + ["post=" + t for t in case["post"]] + ["pre=" + t for t in case["pre"]]

    def make_root(dtype):
        if comp:
            root = getattr(S, comp[0])(grid, groups=N, **{k: flag for k in COMPOSITE_ARGS[comp[0]]})
        else:
            kw = {"order": order} if order is not None else {}
            root = getattr(S, cls)(grid, groups=N, params=flag, **kw)
        return root.to(dtype)

    def member(root):
        return getattr(root, comp[1]) if comp else root

    state = {"cur": dt, "eps": eps_of(dt), "exact": True}

    def toggle(root, tog):
        m = member(root)
        if tog == "freeze":
            root.requires_grad_(False)
        elif tog == "unfreeze":
            root.requires_grad_(True)
        elif tog in ("flag_false", "flag_true"):
            if isinstance(m.params, Parameter):       # documented: "set params.requires_grad = False"
                m.params.requires_grad = tog == "flag_true"
        elif tog == "eval":
            root.eval()
        elif tog == "train":
            root.train()
        elif tog in ("to64", "to32"):
            new = torch.float64 if tog == "to64" else torch.float32
            root = root.to(new)
            if new != state["cur"]:
                state["exact"] = False
            state["cur"] = new
            state["eps"] = max(state["eps"], eps_of(new))
        elif tog == "state_dict":
            fresh = make_root(state["cur"])
            fresh.load_state_dict(root.state_dict())
            root = fresh
        elif tog == "copy":
            root = _copy.copy(root)
        elif tog == "deepcopy":
            root = _copy.deepcopy(root)
        elif tog == "zero_grad":
            root.zero_grad()
        else:
            raise AssertionError(tog)
        return root

    def setter(root, vals):
        m = member(root)
        if op == "matrix":
            if cls == "HomogeneousTransform":
                arg = vals.reshape(N, D, D + 1)
            else:
                used_ = vals.double().numpy()
                Rn = euler_reference(D, order.lower() if order else None, used_) if cls == "EulerRotation" else rot_of_quats(used_)
                arg = torch.tensor(Rn, dtype=vals.dtype)
            if case.get("functional"):
                before = m.data().detach().clone()
                m2 = m.matrix(arg)
                if m2 is m:
                    raise Violation("setter_functional_copy", f"{cls}.matrix(arg) returned self instead of a copy")
                if not torch.equal(m.data().detach(), before):
                    raise Violation("setter_functional_copy", f"{cls}.matrix(arg) modified the parameters of the original transformation")
                return m2, arg
            m.matrix_(arg)
            return root, arg
        name = {"EulerRotation": "angles_", "Shearing": "angles_", "QuaternionRotation": "quaternion_", "IsotropicScaling": "scales_",
                "AnisotropicScaling": "scales_", "Translation": "offset_"}[cls]
        getattr(m, name)(vals)
        return root, None

    def read(root):
        """All getters of the (viewed) member and of the composite, evaluated before anything is compared."""
        m = member(root)
        view = state["view"]
        inverted = False
        if view == "inverse":
            m, inverted = m.inverse(), True
        elif view == "inverse_linked":
            m, inverted = m.inverse(link=True), True
        elif view == "inverse_twice":
            m = m.inverse().inverse()
        out = {"held": isinstance(member(root).params, Parameter), "inverted": inverted}
        for g in ("angles", "scales", "quaternion", "offset"):
            if hasattr(m, g):
                out[g] = getattr(m, g)()
        out["tensor"] = m.tensor()
        out["matrix"] = m.matrix()
        if comp:
            out["root"] = root.tensor()
        return out

    vals64 = np.asarray(case["values"], dtype=np.float64)
    sets = [vals64, second_values(cls, held, op, vals64)]
    roots, args_ = [], []
    for v in sets:
        state["cur"] = dt
        root = make_root(dt)
        for tog in case["pre"]:
            root = toggle(root, tog)
        # parameters are set with values of the dtype the transformation currently has; only later conversions round them
        state.update(eps=eps_of(state["cur"]), exact=True)
        vals = torch.tensor(v, dtype=state["cur"])
        keep = vals.clone()
        root, arg = setter(root, vals)
        if not torch.equal(vals, keep):
            raise Violation("setter_input_modified", f"{cls}: the setter modified its argument")
        for tog in case["post"]:
            root = toggle(root, tog)
        roots.append(root)
        args_.append((vals, arg))
    # an inverse view is taken only of (well conditioned) invertible transformations
    state["view"] = case["view"]
    if case["view"] in ("inverse", "inverse_linked", "inverse_twice"):
        for vals, arg in args_:
            used = vals.double().numpy()
            _, _, _, lin, trans, _ = toggle_model(cls, D, used, order, "params", 1.0, None)
            sq = np_square(np.concatenate([lin, trans[..., None]], axis=-1))
            dets = [abs(np.linalg.det(sq[i])) for i in range(N)]
            if min(dets) < 1e-3 or float(np.abs(sq).max() * np.abs(np.linalg.inv(sq)).max()) * (D + 1) > 1e3:
                state["view"] = "none"
                labels.append("inverse-skipped")
    # evaluate all operands first (both transforms, twice), compare afterwards
    reads, snaps = [], []
    for which in (0, 1, 0):
        r = read(roots[which])
        reads.append(r)
        snaps.append({k: (v.detach().clone() if isinstance(v, torch.Tensor) else v) for k, v in r.items()})
    eps = state["eps"]
    worst = 0.0
    what0 = f"{cls}{'@' + comp[0] if comp else ''} {op} setter, then {case['post']} (before the setter: {case['pre']}), view={state['view']}"
    for idx, (r, which) in enumerate(zip(reads, (0, 1, 0))):
        vals, arg = args_[which]
        used = vals.double().numpy()
        if op == "matrix" and cls != "HomogeneousTransform":
            valsrc = [[float(x) for x in row] for row in used]
        else:
            valsrc = None
        getter, pvals, ptol, lin, trans, mtol = toggle_model(cls, D, used, order, op, eps, valsrc)
        if arg is not None and cls != "HomogeneousTransform":
            lin = arg.double().numpy()
        conv = 0.0 if state["exact"] else eps * float(np.abs(used).max() + 1)
        what = what0 + f" [transform {which}, read {idx}]"
        if r["held"] != flag:
            raise Violation("toggle_param_kind", what + ": params changed kind (Parameter vs tensor)")
        if getter is not None:
            worst = max(worst, check_close(r[getter], pvals, ptol + conv, "toggle_getter", what + f": {getter}() != value set"))
        full = np.concatenate([lin, trans[..., None]], axis=-1)
        mt = mtol + conv
        if r["inverted"]:
            sq = np_square(full)
            inv = np.linalg.inv(sq)
            kappa = float(np.abs(sq).max() * np.abs(inv).max()) * (D + 1)
            full = inv[:, :D, :]
            mt = mt * kappa + 64 * eps * kappa * (1 + float(np.abs(inv).max()))
        for key in ("tensor", "matrix") + (("root",) if comp else ()):
            if key == "root" and r["inverted"]:
                continue                      # the view was taken of the member only
            m = r[key]
            if key == "matrix" and tuple(m.shape) != (N, D, D + 1):
                raise Violation("toggle_matrix_shape", what + f": matrix() has shape {tuple(m.shape)}")
            worst = max(worst, check_close(np_full(m.detach().double().numpy(), D), full, mt, "toggle_matrix",
                                           what + f": {key}() is not the transformation that was set"))
        for k, v in r.items():
            if isinstance(v, torch.Tensor) and not torch.equal(v.detach(), snaps[idx][k]):
                raise Violation("toggle_result_overwritten", what + f": value returned by {k}() changed after later calls")
    # the two reads of transform 0 must agree with each other (nothing in between changed it)
    for k, v in reads[0].items():
        if isinstance(v, torch.Tensor):
            check_close(reads[2][k], v.detach(), 4 * eps * float(v.detach().abs().max() + 1), "toggle_not_repeatable",
                        what0 + f": {k}() differs between two reads")
    nt = any(t in ("freeze", "flag_false", "unfreeze", "flag_true", "to64", "to32", "state_dict", "deepcopy", "copy") for t in case["post"])
    return {"ratio": worst, "nontrivial": nt and held == "parameter", "labels": labels}


# ---------------------------------------------------------------------------------------
# facet 9: call_isolation - several results of one function alive at the same time


def _unit_rows(a, fallback):
    a = np.array(a, dtype=np.float64)
    for i in range(a.shape[0]):
        nrm = np.linalg.norm(a[i])
        a[i] = np.asarray(fallback, dtype=np.float64) if nrm < 0.2 else a[i] / nrm
    return a


def iso_vectors(key, n):
    """Rotation vectors with generic axes and angles in [0.3, 2.8]."""
    ax = _unit_rows(hash_noise((n, 3), key, -1.0, 1.0), [0.0, 0.0, 1.0])
    return np.round(ax * hash_noise((n, 1), key + 7, 0.3, 2.8), 4)


def iso_quats(key, n):
    """Unit quaternions of rotations by 0.3 .. 2.8 rad, either sign of w."""
    v = iso_vectors(key, n)
    th = np.linalg.norm(v, axis=1, keepdims=True)
    q = np.concatenate([np.cos(th / 2), np.sin(th / 2) * v / th], axis=1)
    return q * np.where(hash_noise((n, 1), key + 11, -1.0, 1.0) < 0, -1.0, 1.0)


def iso_specs():
    """name -> builder(key, n, dt, D, batch) -> dict(args, kwargs, expect, canon, bound, inverse).

    'args' are the tensors of one call, 'expect' the float64 value the result must have after canon(result) (both as rotation
    / transformation matrices), computed from the values actually passed; 'inverse' (optional) builds the arguments of the
    inverse rotation such that result(args) @ result(inverse) = I."""
    from deepali.core import affine as A
    from deepali.core import linalg as L

    ident = lambda x: x  # noqa: E731
    T = lambda a, dt: torch.tensor(np.ascontiguousarray(a), dtype=dt)  # noqa: E731
    N64 = lambda t: t.detach().double().numpy()  # noqa: E731
    specs = {}

    def spec(name, fn):
        def deco(builder):
            specs[name] = (fn, builder)
            return builder
        return deco

    @spec("angle_axis_to_rotation_matrix", L.angle_axis_to_rotation_matrix)
    def _(key, n, dt, D, batch):
        v = T(iso_vectors(key, n), dt)
        th = np.linalg.norm(N64(v), axis=1)
        return dict(args=[v], expect=rot_of_vecs(N64(v)), canon=ident, bound=64 * eps_of(dt) + max(floor_aa(float(x)) for x in th),
                    inverse=lambda: [-v])

    @spec("angle_axis_to_quaternion", L.angle_axis_to_quaternion)
    def _(key, n, dt, D, batch):
        v = T(iso_vectors(key, n), dt)
        return dict(args=[v], expect=rot_of_vecs(N64(v)), canon=rot_of_quats, bound=256 * eps_of(dt))

    @spec("quaternion_log_to_exp", L.quaternion_log_to_exp)
    def _(key, n, dt, D, batch):
        v = T(iso_vectors(key, n) / 2, dt)
        return dict(args=[v], expect=rot_of_vecs(2 * N64(v)), canon=rot_of_quats, bound=256 * eps_of(dt))

    @spec("normalize_quaternion", L.normalize_quaternion)
    def _(key, n, dt, D, batch):
        q = T(np.round(iso_quats(key, n) * (0.5 + key % 5), 4), dt)
        return dict(args=[q], expect=N64(q) / np.linalg.norm(N64(q), axis=1, keepdims=True), canon=ident, bound=8 * eps_of(dt))

    @spec("quaternion_to_rotation_matrix", L.quaternion_to_rotation_matrix)
    def _(key, n, dt, D, batch):
        q = T(iso_quats(key, n), dt)
        return dict(args=[q], expect=rot_of_quats(N64(q)), canon=ident, bound=64 * eps_of(dt),
                    inverse=lambda: [q * torch.tensor([1.0, -1.0, -1.0, -1.0], dtype=dt)])

    @spec("quaternion_to_angle_axis", L.quaternion_to_angle_axis)
    def _(key, n, dt, D, batch):
        q = T(iso_quats(key, n), dt)
        return dict(args=[q], expect=rot_of_quats(N64(q)), canon=rot_of_vecs, bound=256 * eps_of(dt))

    @spec("quaternion_exp_to_log", L.quaternion_exp_to_log)
    def _(key, n, dt, D, batch):
        q = T(iso_quats(key, n), dt)
        vn = float(np.linalg.norm(N64(q)[:, 1:], axis=1).min())       # >= sin(0.15)
        return dict(args=[q], expect=rot_of_quats(N64(q)), canon=lambda lg: rot_of_vecs(2 * lg), bound=256 * eps_of(dt) * (1 + 1 / vn))

    @spec("rotation_matrix_to_quaternion", L.rotation_matrix_to_quaternion)
    def _(key, n, dt, D, batch):
        R = T(rot_of_quats(iso_quats(key, n)), dt)
        return dict(args=[R], expect=N64(R), canon=rot_of_quats, bound=256 * eps_of(dt) + FLOOR_M2Q)

    @spec("rotation_matrix_to_angle_axis", L.rotation_matrix_to_angle_axis)
    def _(key, n, dt, D, batch):
        R = T(rot_of_quats(iso_quats(key, n)), dt)
        return dict(args=[R], expect=N64(R), canon=rot_of_vecs, bound=256 * eps_of(dt) + FLOOR_M2Q)

    @spec("vector_rotation", L.vector_rotation)
    def _(key, n, dt, D, batch):
        a = _unit_rows(hash_noise((n, 3), key, -1.0, 1.0), [1.0, 0.0, 0.0])
        ax = np.cross(a, _unit_rows(hash_noise((n, 3), key + 5, -1.0, 1.0), [0.0, 1.0, 0.0]))
        ax = _unit_rows(ax, [0.0, 0.0, 1.0])
        ax = _unit_rows(ax - (ax * a).sum(1, keepdims=True) * a, [0.0, 0.0, 1.0])       # axis orthogonal to a
        ang = hash_noise((n, 1), key + 9, 0.3, 1.2)                                   # angle(a, b) < pi/2 (asin range)
        b = np.stack([ref.axis_angle_matrix(ax[i] * ang[i]) @ a[i] for i in range(n)])
        ta, tb = T(np.round(a * 2.0, 4), dt), T(np.round(b * 3.0, 4), dt)
        ua, ub = _unit_rows(N64(ta), [1, 0, 0]), _unit_rows(N64(tb), [1, 0, 0])
        cr = np.cross(ua, ub)
        sn = np.linalg.norm(cr, axis=1, keepdims=True)
        expect = rot_of_vecs(cr / sn * np.arcsin(sn))
        cosmin = float(np.sqrt(1 - sn.max() ** 2))
        return dict(args=[ta, tb], expect=expect, canon=ident, bound=256 * eps_of(dt) / cosmin + floor_aa(1.2), orth=False,
                    skip=bool(np.abs(ax).sum() == 0 or sn.min() < 0.2 or sn.max() > 0.95))

    def euler3(key, n, dt, D, batch, fn_name):
        order = ORDERS[key % 12]
        a = T(np.round(hash_noise((n, 3), key, -3.1, 3.1), 3), dt)
        hom = bool((key // 12) % 2)
        exp = euler_reference(3, order, N64(a))
        if hom:
            exp = np.concatenate([exp, np.zeros((n, 3, 1))], axis=-1)
        return dict(args=[a], kwargs={"order": order, "homogeneous": hom}, expect=exp, canon=ident, bound=64 * eps_of(dt),
                    inverse=(lambda: ([-a.flip(-1)], {"order": order[::-1], "homogeneous": hom})), labels=[f"order={order}", f"hom={hom}"])

    specs["euler_rotation_matrix"] = (A.euler_rotation_matrix, lambda *x: euler3(*x, "euler"))
    specs["rotation_matrix"] = (A.rotation_matrix, lambda *x: euler3(*x, "rotation"))

    @spec("euler_rotation_matrix_2d", A.euler_rotation_matrix)
    def _(key, n, dt, D, batch):
        a = T(np.round(hash_noise((n, 1), key, -3.1, 3.1), 3), dt)
        return dict(args=[a], expect=euler_reference(2, None, N64(a)), canon=ident, bound=64 * eps_of(dt), inverse=lambda: [-a])

    @spec("euler_rotation_angles", A.euler_rotation_angles)
    def _(key, n, dt, D, batch):
        order = IMPLEMENTED_INVERSE[key % 2]
        ang = np.round(hash_noise((n, 3), key, -3.1, 3.1), 3)
        ang[:, 1] = np.round(hash_noise((n,), key + 3, 0.3, 2.8), 3)
        R = T(euler_reference(3, order, ang), dt)
        return dict(args=[R], kwargs={"order": order}, expect=N64(R), canon=lambda g: euler_reference(3, order, g),
                    bound=64 * eps_of(dt) * (1 + 1 / math.sin(0.3)), labels=[f"order={order}"])

    @spec("scaling_transform", A.scaling_transform)
    def _(key, n, dt, D, batch):
        sc = T(np.round(hash_noise((n, D), key, 0.3, 3.0), 3), dt)
        exp = np.zeros((n, D, D))
        for i in range(D):
            exp[:, i, i] = N64(sc)[:, i]
        return dict(args=[sc], expect=exp, canon=ident, bound=0.0, orth=False)

    @spec("shear_matrix", A.shear_matrix)
    def _(key, n, dt, D, batch):
        a = T(np.round(hash_noise((n, 1 if D == 2 else 3), key, -1.2, 1.2), 3), dt)
        exp = np.tile(np.eye(D), (n, 1, 1))
        for j, (r, c) in enumerate([(0, 1)] if D == 2 else [(0, 1), (0, 2), (1, 2)]):
            exp[:, r, c] = np.tan(N64(a)[:, j])
        return dict(args=[a], expect=exp, canon=ident, bound=64 * eps_of(dt) * (1 + math.tan(1.2) ** 2), orth=False)

    @spec("translation", A.translation)
    def _(key, n, dt, D, batch):
        o = T(np.round(hash_noise((n, D), key, -9.0, 9.0), 3), dt)
        hom = bool(key % 2)
        return dict(args=[o], kwargs={"homogeneous": hom}, expect=np_full(N64(o)[..., None], D), canon=lambda r: np_full(r, D), bound=0.0,
                    orth=False, labels=[f"hom={hom}"])

    @spec("identity_transform", A.identity_transform)
    def _(key, n, dt, D, batch):
        hom = bool(key % 2)
        exp = np.zeros((n, D, D + 1 if hom else D))
        exp[:, range(D), range(D)] = 1.0
        return dict(args=[(n, D)], kwargs={"homogeneous": hom, "dtype": dt}, expect=exp, canon=ident, bound=0.0, orth=False, labels=[f"hom={hom}"])

    @spec("affine_rotation_matrix", A.affine_rotation_matrix)
    def _(key, n, dt, D, batch):
        R = rot_of_quats(iso_quats(key, n))
        U = np.tile(np.eye(3), (n, 1, 1))
        U[:, 0, 1], U[:, 0, 2], U[:, 1, 2] = np.round(hash_noise((3, n), key + 1, -0.6, 0.6), 3)
        Sc = np.round(hash_noise((n, 3), key + 2, 0.5, 2.0), 3)
        M = T(np.matmul(R, U * Sc[:, None, :]), dt)                  # rotation o shearing o scaling (documented order)
        kap = float(max(np.linalg.cond(U[i] * Sc[i][None, :]) for i in range(n)))
        return dict(args=[M], expect=R, canon=ident, bound=64 * eps_of(dt) * kap * kap)

    def forms(key, n, batch):
        return {"form": "tah"[key % 3], "batch": batch, "key": key, "amp": 2.0, "t1d": bool(key % 2)}

    @spec("as_homogeneous_matrix", L.as_homogeneous_matrix)
    def _(key, n, dt, D, batch):
        x = build_operand(forms(key, n, batch), D, n, dt)
        return dict(args=[x], expect=model_of(x, D), canon=ident, bound=0.0, orth=False, labels=["form=" + "tah"[key % 3]])

    @spec("homogeneous_matrix", L.homogeneous_matrix)
    def _(key, n, dt, D, batch):
        x = build_operand(forms(key, n, batch), D, n, dt)
        return dict(args=[x], expect=model_of(x, D), canon=ident, bound=0.0, orth=False, labels=["form=" + "tah"[key % 3]])

    def matmul(key, n, dt, D, batch):
        fa, fb = forms(key, n, batch), forms(key // 3 + 1, n, ("none", "1", "N")[key % 3] if batch != "none" else "none")
        a, b = build_operand(fa, D, n, dt), build_operand(fb, D, n, dt)
        ma, mb = model_of(a, D), model_of(b, D)
        return dict(args=[a, b], expect=np_compose(ma, mb), canon=lambda r: np_full(r, D), bound=64 * eps_of(dt) * max(1.0, np_abs_compose(ma, mb)),
                    orth=False, labels=["forms=" + fa["form"] + fb["form"]])

    specs["homogeneous_matmul"] = (L.homogeneous_matmul, matmul)
    specs["hmm"] = (L.hmm, matmul)

    @spec("homogeneous_transform", L.homogeneous_transform)
    def _(key, n, dt, D, batch):
        x = build_operand(forms(key, n, batch), D, n, dt)
        p = T(points_array(D, key, (1 if batch != "N" else n, 3)), dt)
        f = model_of(x, D)
        return dict(args=[x, p], expect=np_apply(f.reshape((-1, D, D + 1)), N64(p)), canon=ident,
                    bound=64 * eps_of(dt) * (float(np.abs(f).max()) + 1) * 6.0 * (D + 1), orth=False, labels=["form=" + "tah"[key % 3]])

    return specs


ISO_NAMES = ["angle_axis_to_rotation_matrix", "angle_axis_to_quaternion", "quaternion_log_to_exp", "normalize_quaternion",
             "quaternion_to_rotation_matrix", "quaternion_to_angle_axis", "quaternion_exp_to_log", "rotation_matrix_to_quaternion",
             "rotation_matrix_to_angle_axis", "vector_rotation", "euler_rotation_matrix", "rotation_matrix", "euler_rotation_matrix_2d",
             "euler_rotation_angles", "scaling_transform", "shear_matrix", "translation", "identity_transform", "affine_rotation_matrix",
             "as_homogeneous_matrix", "homogeneous_matrix", "homogeneous_matmul", "hmm", "homogeneous_transform"]
ISO_FORMS = ("as_homogeneous_matrix", "homogeneous_matrix", "homogeneous_matmul", "hmm", "homogeneous_transform")
_ISO = {}


def selftest_iso():
    from deepali.core import _kornia as K

    missing = [n for n in K.__all__ if n not in ISO_NAMES]
    assert not missing, ("conversion functions without isolation entry", missing)


@st.composite
def isolation_cases(draw):
    fn = draw(st.sampled_from(ISO_NAMES))
    n = draw(st.sampled_from([1, 1, 2, 3]))
    batch = draw(st.sampled_from(["none", "1", "N"])) if fn in ISO_FORMS else ("1" if n == 1 else "N")
    return {"fn": fn, "n": n if batch == "N" or fn not in ISO_FORMS else 1, "batch": batch, "D": draw(gen.dims()), "dtype": draw(gen.dtypes()),
            "keys": draw(st.lists(st.integers(0, 10 ** 5), min_size=2, max_size=3, unique=True)),
            "inverse_second": draw(st.booleans()), "write": draw(st.booleans())}


def isolation_enumeration(tier):
    i = 0
    for fn in ISO_NAMES:
        for n in (1, 2):
            for dtype in ("float32", "float64"):
                for batch in (("none", "1") if (fn in ISO_FORMS and n == 1) else ("1" if n == 1 else "N",)):
                    i += 1
                    yield {"fn": fn, "n": n, "batch": batch, "D": 2 + i % 2, "dtype": dtype, "keys": [3 * i + 1, 5 * i + 2, 7 * i + 40],
                           "inverse_second": bool(i % 2), "write": True}


def module_tensors():
    """Tensors held as module-level state of the modules of the property (a result must never share their memory)."""
    from deepali.core import _kornia, affine, linalg

    out = []
    for mod in (_kornia, affine, linalg):
        for name, val in vars(mod).items():
            if isinstance(val, torch.Tensor):
                out.append((f"{mod.__name__}.{name}", val))
    return out


def storage_ptr(t: torch.Tensor) -> int:
    return t.untyped_storage().data_ptr()


def run_isolation(case):
    if not _ISO:
        _ISO.update(iso_specs())
    name = case["fn"]
    fn, builder = _ISO[name]
    dt = tdtype(case["dtype"])
    eps = eps_of(dt)
    n, D, batch = case["n"], case["D"], case["batch"]
    labels = [name, f"n={n}", "batch=" + batch, case["dtype"]]
    calls = [builder(k, n, dt, D, batch) for k in case["keys"]]
    if any(c.get("skip") for c in calls):
        return {"ratio": 0.0, "nontrivial": False, "labels": labels + ["degenerate-input"]}
    labels += calls[0].get("labels", [])
    inv_of = None
    if case.get("inverse_second") and calls[0].get("inverse") is not None:
        inv = calls[0]["inverse"]()
        args, kwargs = inv if isinstance(inv, tuple) else (inv, calls[0].get("kwargs", {}))
        lin = calls[0]["expect"]
        k = lin.shape[-2]
        calls[1] = dict(calls[0], args=args, kwargs=kwargs, inverse=None,
                        expect=np.concatenate([np.swapaxes(lin[..., :k], -1, -2), lin[..., k:]], axis=-1))
        inv_of = (0, 1)
        labels.append("with-inverse")
    # 1. evaluate all calls; keep every result alive; snapshot each result right after its own call
    keeps = [[a.clone() if isinstance(a, torch.Tensor) else a for a in c["args"]] for c in calls]
    results, snaps = [], []
    for c in calls:
        r = fn(*c["args"], **c.get("kwargs", {}))
        results.append(r)
        snaps.append(r.detach().clone())
    what = f"{name}({case['dtype']}, leading size {n if batch != 'none' else 'none'})"
    # 2. earlier results are bit-identical after the later calls, inputs untouched
    for i, (r, s0) in enumerate(zip(results, snaps)):
        if not torch.equal(r.detach(), s0):
            d = float((r.detach().double() - s0.double()).abs().max())
            raise Violation("result_overwritten_by_later_call", f"{what}: the result of call {i} changed (max {d:.3g}) when the function was "
                                                                f"called again with other arguments")
    for c, kp in zip(calls, keeps):
        for a, b in zip(c["args"], kp):
            if isinstance(a, torch.Tensor) and not torch.equal(a, b):
                raise Violation("call_input_modified", f"{what} modified an argument")
    # 3. no shared memory between results of different calls, or with module-level tensors
    for i in range(len(results)):
        for j in range(i + 1, len(results)):
            if results[i].numel() and storage_ptr(results[i]) == storage_ptr(results[j]):
                raise Violation("results_share_memory", f"{what}: results of calls {i} and {j} (different arguments) share their memory")
        for mname, mt in module_tensors():
            if results[i].numel() and storage_ptr(results[i]) == storage_ptr(mt):
                raise Violation("result_shares_module_state", f"{what}: result shares memory with module-level tensor {mname}")
    # 4. deferred comparison of every result against the float64 reference
    worst = 0.0
    canons = []
    for i, (c, r) in enumerate(zip(calls, results)):
        if r.dtype != dt:
            raise Violation("call_dtype", f"{what}: result dtype {r.dtype}")
        got = c["canon"](r.detach().double().numpy())
        canons.append(got)
        exp = c["expect"]
        if got.size == exp.size and got.shape != exp.shape:
            got = got.reshape(exp.shape)
        worst = max(worst, check_close(got, exp, c["bound"], "deferred_value",
                                       f"{what}: result of call {i}, compared after {len(calls)} calls, is not the value of its own arguments"))
    if inv_of is not None:
        a, b = canons[0], canons[1]
        k = a.shape[-2]
        prod = np.matmul(a[..., :k], b[..., :k])
        worst = max(worst, check_close(prod, np.broadcast_to(np.eye(k), prod.shape), 4 * (calls[0]["bound"] + 16 * eps), "rotation_times_inverse",
                                       f"{what}: R(x) R(x^-1) != I with both factors computed before the product"))
    # 5. writing into the last result must not reach what the function returns afterwards
    if case.get("write"):
        last = results[-1]
        if last.numel() and all(not (st_ == 0 and sz > 1) for st_, sz in zip(last.stride(), last.shape)):
            last.add_(1.0)
            again = fn(*keeps[0], **calls[0].get("kwargs", {}))
            check_close(again, snaps[0], 4 * eps * float(snaps[0].abs().max() + 1), "result_write_leaks",
                        f"{what}: after an in-place change of a returned tensor the function returns other values for the first arguments")
            labels.append("write")
    return {"ratio": worst, "nontrivial": len(calls) >= 2, "labels": labels}


# ---------------------------------------------------------------------------------------

FACETS = [
    Facet("hmm_forms", run_hmm, strategy=hmm_cases, enumerate=hmm_enumeration, exhaustive_tiers=("quick", "thorough"),
          rule="all 9 ordered form pairs x batch {none,1,N}^2 x D{2,3} enumerated (162 cases) + generated entries, leading shape (2,N), "
               "third operand; non-trivial = some operand with leading size > 1",
          quick=1000, thorough=40000, shards=16, quick_shards=2),
    Facet("as_matrix", run_as_matrix, strategy=as_matrix_cases, enumerate=as_matrix_enumeration, exhaustive_tiers=("quick", "thorough"),
          rule="forms x batch {none,1,N,(2,N)} x offset {none,scalar,(D,),batched} x D enumerated (96) + generated; non-trivial = leading size > 1",
          quick=600, thorough=20000, shards=8),
    Facet("vectors", run_vectors, strategy=vector_cases,
          rule="transform form x batch {none,1,N}, point shapes (D,), (1,k,D), (N,k,D), (N,a,b,D); non-trivial = transform has a translation part > 0.1",
          quick=700, thorough=20000, shards=8),
    Facet("euler", run_euler, strategy=euler_cases, enumerate=euler_enumeration, exhaustive_tiers=("quick", "thorough"),
          rule="12 orders x {lower, upper, 'Rz o Rx o Rz'} x angle shapes {(3,), (N,3), (A,B,3)} x homogeneous enumerated (216) + generated "
               "angles in (-pi, pi] incl. 0, +-pi/2, pi; 2-D scalar/tensor angles; non-trivial = N > 1 and some item with no angle within 0.05 of a multiple of pi/2",
          quick=1000, thorough=40000, shards=16, quick_shards=2),
    Facet("euler_roundtrip", run_roundtrip, strategy=roundtrip_cases,
          rule="matrices built by the numpy reference from angles with |sin(second)| >= sin(0.05); orders ZXZ, XZX, default and 2-D must "
               "round trip, other orders must raise NotImplementedError or round trip; non-trivial = some item with generic angles (2-D: negative generic angle)",
          quick=1000, thorough=40000, shards=16, quick_shards=2),
    Facet("rotation_reprs", run_reprs, strategy=repr_cases,
          rule="unit quaternions (any sign of w) and rotation vectors with angle in [0, pi-0.01]; all conversions compared as rotation "
               "matrices via numpy formulas; non-trivial = N > 1 and (q: some w < 0, all |w| > 0.05 | v: all angles > 0.05)",
          quick=1000, thorough=40000, shards=16, quick_shards=2),
    Facet("setters", run_setters, strategy=setter_cases,
          rule="EulerRotation/QuaternionRotation/Iso-/AnisotropicScaling/Shearing/Translation/HomogeneousTransform, Parameter- and "
               "tensor-held, setter/getter, matrix_(), constructor; non-trivial = generic values and N > 1",
          quick=1000, thorough=40000, shards=16, quick_shards=2),
    Facet("setter_toggles", run_toggles, strategy=toggle_cases, enumerate=toggle_enumeration, exhaustive_tiers=("quick", "thorough"),
          rule="the seven linear transform classes, stand-alone or as member of Rigid/RigidQuaternion/Similarity/Affine/FullAffineTransform; "
               "0-2 public state toggles before and 1-3 between setter and getters out of {requires_grad_(False/True) of the module, "
               "params.requires_grad = False/True, eval, train, to(float64/float32), state_dict -> load_state_dict into a fresh twin, copy, "
               "deepcopy, zero_grad}; read through the transform itself, inverse(), inverse(link=True), inverse().inverse(); two transforms "
               "with different values alive, all getters evaluated before any comparison; class x toggle enumerated (168); "
               "non-trivial = Parameter-held and a flag/dtype/copy toggle between set and get",
          quick=700, thorough=30000, shards=16, quick_shards=2),
    Facet("call_isolation", run_isolation, strategy=isolation_cases, enumerate=isolation_enumeration, exhaustive_tiers=("quick", "thorough"),
          rule="every conversion function of core/_kornia.__all__ (completeness asserted at start-up), the matrix constructors of core/affine "
               "and the operand-form functions of core/linalg: 2-3 calls with different generated arguments (optionally the second = inverse "
               "rotation of the first), leading size exactly 1 / N / none, both dtypes; all results alive, snapshot after each call, every "
               "comparison after the last call; function x n in {1,2} x dtype enumerated; non-trivial = at least two calls",
          quick=600, thorough=20000, shards=8),
]
