"""C07 - inverse() really inverts: T^-1(T(x)) = x for every invertible transform model.

Histories (list-of-ops, replayable from the JSON case): a transform `t` of a generated invertible class is
built with parameters held as Parameter / fixed tensor / callable, then a generated sequence of operations
(inverse(link, update_buffers), .inv, in-place parameter edits, parameter replacement through the public
setters - called on the forward member or on the member of an unlinked inverse sharing its parameter container -,
functional setters data(p) / unlink() / grid(g) / matrix(m) called on either side of a pair with the result dropped,
inverse of inverse, composition) is applied and after EVERY operation every live (forward, inverse)
pair is evaluated as modules (so that the update pre-hook runs):  g(f(x)) == x  and  f(g(x)) == x.

Which inverses must follow a REPLACED parameter tensor (data_(), offset_(), angles_(), scales_(), quaternion_(), matrix_()):
* linked inverses (inverse(link=True), .inv): always (they read the parameters of the transform they are linked to);
* unlinked inverses of transforms whose parameters are an optimisable torch.nn.Parameter: yes - SpatialTransform.__copy__
  documents that the shallow copy "shares containers for parameters", inverse() that the inverse "will share the
  parameters with this transformation", and the property states that the inverse stays an inverse after the forward
  parameters are changed; members of composites / GenericSpatialTransform included (their inverse inverts each member);
* unlinked inverses of transforms whose parameters are a fixed tensor (buffer): NOT asserted - the buffer container is
  documented as not shared and inverse() says that shared tensors may be replaced;
* callables: every update() asks the callable again, linked or not.
A functional setter returns a copy "with the specified parameters / grid": neither the receiver nor its inverse partner
may change (values compared with those of the previous evaluation), and the pair must still round-trip.

Precision: parameters and points are generated in float32 AND float64 (parameters handed over as float64 tensors to the
constructor / the public setters / data_ / returned by the callable - as_float_tensor keeps a floating dtype -, or created
with the default dtype and converted with Module.double(); optionally another dtype for one member of a composite, for the
points, or for a tensor that replaces the parameters later). "To floating-point accuracy" is read as the accuracy of the
coarsest dtype that enters the computation: eps = max(eps(parameter dtypes of the members), eps(points dtype)); the grid
(float32 attributes) does not enter a cube-space round trip of a linear model. For linear pairs the matrix representations
(matrix() / tensor()) of the pair and of each member must in addition compose to the identity to the accuracy of the
PARAMETER dtype alone (no points involved), and results have the dtype of the points (homogeneous_transform docstring).

Bounds (derived, not fitted):
* linear models and composites of linear:  eps * prod_i cond2(H_i) * (64 + (D+1) sum_j cond2(H_j)) * max(1, |x|), H_i the
  float64 numpy reference matrix of member i (homogeneous (D+1)x(D+1)), j over the members inverted numerically
  (torch.inverse: HomogeneousTransform, Shearing); the product of the member condition numbers is what bounds the rounding
  of the matrix products M and M^-1 that deepali forms independently, the second-order term is the residual bound of
  an LU-based inverse on its "other" side (see `World.linear_factor`).
* velocity models on smooth band-limited velocities (sum of components of amplitude a_i samples, curvature
  a_i kappa_i):  at grid points the bound of props/c11.run_smooth,  3 A C + floor  (A = sum a_i, C = sum a_i kappa_i,
  i.e. 3 a^2 kappa for one component); at arbitrary points the transform is the multilinear interpolant of the
  grid field, whose distance to the smooth field is <= C/8 per evaluation (two evaluations + one Lipschitz
  transfer), giving the additional first-order term C/2.
* composites of linear members and one velocity member: Nrm (B_phi + Lip delta) + delta, see `pair_bound`.
"""
from __future__ import annotations

import math

import numpy as np
import torch
from hypothesis import strategies as st

from props.c11 import cube_axis, smooth_velocity
from vlib import gen, ref
from vlib.case import make_grid, tdtype
from vlib.core import Facet, Violation, eps_of

PROPERTY = "C07"
MANIFEST = {
    "text": "Generated histories (Hypothesis, list-of-operations interpreted against float64 reference bookkeeping) over all "
            "invertible transform classes (Translation, EulerRotation with order, QuaternionRotation, Iso/AnisotropicScaling, "
            "Shearing, HomogeneousTransform, Rigid/RigidQuaternion/Similarity/Affine/FullAffine, SequentialTransform, "
            "GenericSpatialTransform, SVF, SVFFD and composites of linear members with one velocity member), parameters held "
            "as Parameter / fixed tensor / callable, in float32 and float64 (float64 tensors handed to constructor / setters / data_ / "
            "callable, or Module.double(); mixed dtypes between members, between parameters and points, and across a parameter "
            "replacement), groups 1 and 2, oriented grids, both align_corners where allowed. Operations: "
            "inverse(link, update_buffers), .inv, in-place edits, replacement through public setters / data_ (on the forward "
            "member or through an unlinked inverse sharing its parameter container), functional setters data(p) / unlink() / "
            "grid(g) / matrix(m) on either side of a pair, inverse of inverse, composition. After every operation all live "
            "(forward, inverse) pairs are called as modules and inv(t(x)) = x, t(inv(x)) = x, inverse(inverse(t)) = t are "
            "asserted with derived bounds in the unit roundoff of the coarsest dtype involved (eps64 when parameters and points are "
            "float64); for linear pairs the matrices (matrix()/tensor()) of the pair and of every member also compose to the "
            "identity to the accuracy of the parameter dtype, and results keep the dtype of the points; replaced parameters are followed by linked inverses (all parameter kinds) and by "
            "unlinked inverses of Parameter-held transforms (shared parameter container); a functional setter leaves both "
            "members of a pair unchanged; classes without inverse must raise NotImplementedError. Exploration: no absence "
            "proof; sign / order / stale-parameter errors are 2-5 orders of magnitude above the bounds at the generated "
            "parameter magnitudes.",
    "note": "Trusted: numpy reference matrices of the elementary linear models (only used for the condition number in the "
            "tolerance), the parameter activations of optimisable parameters as implemented by the public setters, the "
            "second-order bound derived in props/c11.py for smooth velocity fields. CPU, float32 and float64. Replaced "
            "fixed-tensor (buffer) parameters are only asserted through linked inverses (buffer containers are documented as "
            "not shared by shallow copies); replaced Parameter-held parameters also through unlinked inverses, as promised by "
            "the docstrings of SpatialTransform.__copy__ and inverse().",
    "technique": "property-based testing (Hypothesis) of operation histories with metamorphic round-trip oracles and derived tolerances",
}
ASSUMPTIONS = [
    "linear members are generated well conditioned (scales in [0.2, 5], shear angles <= 1.2 rad, homogeneous matrices "
    "rotation * (I + E) [* diag(s), s_i in [0.1, 4], optional: condition numbers up to a few hundred] with |E|_inf <= 0.5); "
    "operations that would push the product of the condition numbers beyond 2000 are skipped and counted",
    "a parameter tensor keeps the dtype in which it is handed over (constructor / data_ register the tensor as is, the setters' "
    "as_float_tensor only converts non-floating tensors, update() buffers what the callable returns): 'floating-point "
    "accuracy' of a pair is the unit roundoff of the coarsest dtype among the tensors handed over for its members and the points",
    "float64: SVFFD parameters in float64 are only generated together with Module.double() (the B-spline kernels are module "
    "buffers of the default dtype; handing a float64 tensor to an unconverted SVFFD raises a dtype RuntimeError in "
    "evaluate_cubic_bspline - torch module convention, not asserted either way); the dtype of a velocity model's result for "
    "points of another dtype is not asserted (promotion by torch), only that of linear models (homogeneous_transform docstring); "
    "velocity models keep the interpolation-derived bound in float64 (it does not depend on the dtype)",
    "velocity fields are sums of band-limited sine products vanishing at the domain boundary, total amplitude <= 2 samples, "
    "wave numbers <= 2, sizes 12..32 (2-D) / 12..16 (3-D); bound 3 A C + floor at grid points (props/c11.py), "
    "+ C/2 at arbitrary points (first-order linear-interpolation term of the point evaluation itself)",
    "after a FIXED parameter tensor (buffer) is REPLACED (data_, angles_, ...) only inverses created with link=True are "
    "asserted; a replaced optimisable Parameter is asserted through every inverse (the shallow copy made by inverse() shares "
    "the parameter container, SpatialTransform.__copy__), callables through every inverse; in-place edits are asserted "
    "through every inverse",
    "functional setters: data(p) with any tensor of the parameter shape, unlink(), grid(g) with a grid of different size "
    "(SVFFD: subdivision 2n-1 of the first dimension of the same domain, the only change BSplineTransform.grid_ supports; "
    "otherwise n+1 samples and optionally the other align_corners), matrix(m) for the models implementing matrix_ "
    "(Homogeneous, Quaternion, Euler with orders ZXZ/XZX in 3-D) whose parameters are not provided by a callable or link "
    "(documented ReadOnlyParameters); the copies returned by data / matrix are evaluated once, then dropped; receiver and "
    "partner must return the values of the previous evaluation (same parameters, same code path: 4 eps)",
    "inverses are evaluated in creation order after the forward transform (a linked inverse reads the buffered "
    "parameters of the transform it is linked to)",
]

K = 64.0
FLOOR_SAMPLES = 2e-4  # float32 floor of props/c11.run_smooth
COND_MAX = 2000.0
AMP_MAX = 2.0
MAX_PAIRS = 4
MAX_EQUIVS = 3

LINEAR = ("Translation", "EulerRotation", "QuaternionRotation", "IsotropicScaling", "AnisotropicScaling", "Shearing",
          "HomogeneousTransform")
NAMED = {
    "RigidTransform": (("rotation", "EulerRotation"), ("translation", "Translation")),
    "RigidQuaternionTransform": (("rotation", "QuaternionRotation"), ("translation", "Translation")),
    "SimilarityTransform": (("scaling", "IsotropicScaling"), ("rotation", "EulerRotation"), ("translation", "Translation")),
    "AffineTransform": (("scaling", "AnisotropicScaling"), ("rotation", "EulerRotation"), ("translation", "Translation")),
    "FullAffineTransform": (("scaling", "AnisotropicScaling"), ("shearing", "Shearing"), ("rotation", "EulerRotation"),
                            ("translation", "Translation")),
}
GENERIC_LETTER = {"A": ("affine", "HomogeneousTransform"), "K": ("shearing", "Shearing"), "T": ("translation", "Translation"),
                  "R": ("rotation", "EulerRotation"), "S": ("scaling", "AnisotropicScaling"), "Q": ("quaternion", "QuaternionRotation")}
VELOCITY = ("SVF", "SVFFD")
ORDERS = [None, "ZXZ", "XZX", "XYZ", "ZYX", "ZXY", "YXZ", "XYX", "zyz"]


# ---------------------------------------------------------------------------------------
# float64 reference bookkeeping of the elementary linear models (used for the tolerance only)


def nvals(cls: str, D: int) -> int:
    if cls == "Translation" or cls == "AnisotropicScaling":
        return D
    if cls in ("EulerRotation", "Shearing"):
        return 1 if D == 2 else 3
    if cls == "QuaternionRotation":
        return 4
    if cls == "IsotropicScaling":
        return 1
    if cls == "HomogeneousTransform":
        return D * (D + 1)
    raise ValueError(cls)


def hom_from_desc(D: int, flat) -> np.ndarray:
    """Homogeneous matrix from the descriptor [E (D*D), rot (1|3), t (D), optional stretch s (D)]:
    Rot * (I + E) * diag(s) | t.  Rows of E are scaled so that |E|_inf <= 0.5, hence cond_inf(I + E) <= 3 by
    construction; the optional stretch factors s_i in [0.1, 4] give non-trivial but harmless condition numbers
    (up to a few hundred) - the condition number that enters the tolerance is always computed from the matrix."""
    flat = [float(v) for v in flat]
    E = np.array(flat[: D * D]).reshape(D, D)
    nrot = 1 if D == 2 else 3
    rot = flat[D * D: D * D + nrot]
    t = np.array(flat[D * D + nrot: D * D + nrot + D])
    s = np.array(flat[D * D + nrot + D: D * D + nrot + 2 * D])
    rs = np.abs(E).sum(1)
    E = E * (0.5 / np.maximum(rs, 0.5))[:, None]
    R = ref.rot2(rot[0]) if D == 2 else ref.euler_matrix(rot, "zyx")
    A = R @ (np.eye(D) + E)
    if s.size == D:
        A = A @ np.diag(s)
    return np.concatenate([A, t[:, None]], axis=1)


def eff_of_raw(cls: str, raw: np.ndarray, act: bool) -> np.ndarray:
    """Effective values (radians, factors) of raw parameters; `act`: parameters are an optimisable Parameter."""
    if not act:
        return raw
    if cls == "EulerRotation":
        return np.pi * np.tanh(raw)
    if cls in ("IsotropicScaling", "AnisotropicScaling"):
        return np.exp(np.tanh(raw - 1.0))
    if cls == "Shearing":
        return np.pi / 4 * np.tanh(raw)
    return raw


def raw_of_eff(cls: str, eff: np.ndarray, act: bool) -> np.ndarray:
    if not act:
        return eff
    if cls == "EulerRotation":
        return np.arctanh(eff / np.pi)
    if cls in ("IsotropicScaling", "AnisotropicScaling"):
        return np.arctanh(np.log(eff)) + 1.0
    if cls == "Shearing":
        return np.arctanh(eff * 4 / np.pi)
    return eff


def leaf_hom(cls: str, D: int, eff: np.ndarray, order=None) -> np.ndarray:
    """(D+1)x(D+1) float64 matrix of one batch item of an elementary linear model."""
    H = np.eye(D + 1)
    if cls == "Translation":
        H[:D, D] = eff
    elif cls == "EulerRotation":
        H[:D, :D] = ref.rot2(float(eff[0])) if D == 2 else ref.euler_matrix(eff, (order or "ZXZ").lower())
    elif cls == "QuaternionRotation":
        H[:D, :D] = ref.quaternion_matrix(eff)
    elif cls == "IsotropicScaling":
        H[:D, :D] = np.eye(D) * float(eff[0])
    elif cls == "AnisotropicScaling":
        H[:D, :D] = np.diag(eff)
    elif cls == "Shearing":
        iu = np.triu_indices(D, 1)
        H[:D, :D][iu] = np.tan(eff)
    elif cls == "HomogeneousTransform":
        H[:D, :] = np.asarray(eff).reshape(D, D + 1)
    else:
        raise ValueError(cls)
    return H


def leaf_valid(cls: str, eff: np.ndarray) -> bool:
    if not np.all(np.isfinite(eff)):
        return False
    if cls == "QuaternionRotation":
        return float(np.linalg.norm(eff)) >= 0.2
    if cls in ("IsotropicScaling", "AnisotropicScaling"):
        return bool(np.all(eff >= 0.2) and np.all(eff <= 5.0))
    if cls == "Shearing":
        return bool(np.all(np.abs(eff) <= 1.2))
    if cls == "EulerRotation":
        return bool(np.all(np.abs(eff) <= 50.0))
    if cls == "Translation":
        return bool(np.all(np.abs(eff) <= 3.0))
    return True


def selftest():
    rng = [0.3, -1.1, 2.0]
    for order in ORDERS:
        R = leaf_hom("EulerRotation", 3, np.array(rng), order)[:3, :3]
        assert np.allclose(R @ R.T, np.eye(3)) and abs(np.linalg.det(R) - 1) < 1e-12
    q = leaf_hom("QuaternionRotation", 3, np.array([0.5, -0.2, 0.7, 0.1]))[:3, :3]
    assert np.allclose(q @ q.T, np.eye(3))
    S = leaf_hom("Shearing", 3, np.array([0.1, 0.2, 0.3]))
    assert np.allclose([S[0, 1], S[0, 2], S[1, 2]], [math.tan(0.1), math.tan(0.2), math.tan(0.3)], rtol=1e-14) and S[1, 0] == 0
    for cls, eff in (("EulerRotation", np.array([0.3, -2.5, 1.0])), ("AnisotropicScaling", np.array([0.5, 2.0])),
                     ("Shearing", np.array([0.7, -0.3, 0.0]))):
        assert np.allclose(eff_of_raw(cls, raw_of_eff(cls, eff, True), True), eff)
    for D in (2, 3):
        flat = [0.9, -0.8, 0.7, 0.6, 0.5, -0.4, 0.3, 0.2, 0.1][: D * D] + [0.4, -1.0, 2.0][: 1 if D == 2 else 3] + [0.1] * D
        H = np.eye(D + 1)
        H[:D] = hom_from_desc(D, flat)
        assert np.linalg.cond(H[:D, :D], np.inf) <= 3.0 * D + 1e-9
    # SVFFD coefficient field: the cubic B-spline of the sampled sine product stays within the amplitude, vanishes
    # at the first and last sample and its second difference obeys the curvature bound used in the tolerance
    n, s, w, a = 13, 3, 2, 1.0
    m = (n - 1) // s + 4 if s > 1 else n + 3
    pos = (np.arange(m) - 1.0) * s
    c = a * np.sin(np.pi * w * pos / (n - 1))
    u = 1.0 + np.arange(n) / s
    v = ref.bspline_eval_1d(c, u)
    assert abs(v[0]) < 1e-12 and abs(v[-1]) < 1e-12 and np.abs(v).max() <= a + 1e-12
    d2 = np.abs(v[2:] - 2 * v[1:-1] + v[:-2]).max()
    assert d2 <= a * (np.pi * w / (n - 1)) ** 2 + 1e-12


# ---------------------------------------------------------------------------------------
# velocity content


def velocity_kappa(D: int, shape, waves) -> float:
    return D * (math.pi * max(waves) / (min(shape) - 1)) ** 2


def svf_tensor(D, shape, ac, comps, dtype="float32") -> torch.Tensor:
    out = None
    for c in comps:
        v = smooth_velocity({"D": D, "shape": list(shape), "ac": ac, "waves": c["waves"], "dtype": dtype}, c["amp"])
        out = v if out is None else out + v
    return out


def svffd_tensor(D, shape, stride, cp_shape, comps, dtype="float32") -> torch.Tensor:
    """Control point coefficients (1, D, *cp_shape): control point k of an axis sits at sample (k - 1) * stride
    (cubic_bspline_control_point_grid: origin = index -stride); coefficient = amp * sin-product of that position, so
    the spline has amplitude <= amp, curvature <= amp (pi w/(n-1))^2 per axis and vanishes on the domain boundary."""
    out = np.zeros((1, D) + tuple(cp_shape))
    for c in comps:
        for comp in range(D):  # component x, y, z <-> tensor axis D-1-comp
            n_c = shape[D - 1 - comp]
            unit = 2.0 / (n_c - 1)
            f = np.ones(tuple(cp_shape)) * c["amp"] * unit
            for ax in range(D):
                n = shape[ax]
                w = c["waves"][(comp + ax) % D]
                pos = (np.arange(cp_shape[ax]) - 1.0) * stride
                sh = [1] * D
                sh[ax] = cp_shape[ax]
                f = f * np.sin(np.pi * w * pos / (n - 1)).reshape(sh)
            out[0, comp] += f
    return torch.tensor(out, dtype=tdtype(dtype))


# ---------------------------------------------------------------------------------------
# the interpreter


def inv_of(t):
    """t.inv; an AttributeError raised inside the property is replaced by Module.__getattr__'s "no attribute 'inv'":
    then the property function is called directly so that the original error (raised inside deepali) is reported."""
    try:
        return t.inv
    except AttributeError:
        return type(t).inv.fget(t)


class ModuleSource(torch.nn.Module):
    """Callable parameter source implemented as a module (e.g. a network head predicting the parameters)."""

    def __init__(self, fn):
        super().__init__()
        self.fn = fn

    def forward(self, *args, **kwargs):
        return self.fn()


class Leaf:
    """One parametric member: the real deepali transform + float64 bookkeeping of its parameters."""

    def __init__(self, spec, kind, act, dtype="float32"):
        self.spec = spec
        self.cls = spec["cls"]
        self.kind = kind  # param | buffer | callable
        self.dtype = spec.get("dtype") or dtype  # dtype of the parameter tensor ("float32" | "float64")
        self.act = act  # activation applies (parameters are an optimisable Parameter)
        self.real = None
        self.holder = None  # dict with key "p" for callables
        self.key = "p"
        self.raw = None  # np (N, ...) for linear leaves
        self.comps = None  # velocity: list of {"amp","waves"}
        self.velocity = self.cls in VELOCITY
        self.path = []  # names of the composite members leading from the current forward transform to this member

    def tensor(self) -> torch.Tensor:
        """The tensor object that currently holds the parameters (edited in place by `edit`)."""
        if self.kind == "callable":
            return self.holder[self.key]
        return self.real.params


class World:
    def __init__(self, init):
        from deepali import spatial as S

        self.S = S
        self.init = init
        self.D = D = len(init["grid"]["size"])
        self.N = int(init.get("N", 1))
        self.grid = make_grid(init["grid"])
        self.shape = tuple(int(n) for n in init["grid"]["size"][::-1])  # tensor order (..., X)
        self.ac = bool(init["grid"]["ac"])
        self.kind = init["kind"]
        self.pdtype = init.get("dtype", "float32")  # dtype of the parameters (a leaf may override it: spec["dtype"])
        self.xdtype = init.get("xdtype", "float32")  # dtype of the points
        self.route = init.get("route", "setter")  # "double": created with the default dtype, converted by Module.double()
        self.units = [2.0 / (n - 1) if self.ac else 2.0 / n for n in init["grid"]["size"]]  # component order x, y, z
        self.leaves = []
        self.pairs = []
        self.equivs = []
        self.version = 0
        self.worst = 0.0
        self.labels = set()
        self.flags = {"changed": False, "linked": False, "skipped_ops": 0, "performed": 0, "replaced_unlinked": False,
                      "func": False, "matrix": False}
        self.expect_same = None  # set by a functional setter: the next check compares with the previous values
        pts = [list(p) for p in init["pts"]]
        self.grid_pts = 0
        for idx in init.get("gidx", []):
            pts.append([float(cube_axis(self.shape[D - 1 - c], self.ac)[int(round(u * (self.shape[D - 1 - c] - 1)))])
                        for c, u in enumerate(idx)])
            self.grid_pts += 1
        self.x = torch.tensor(pts, dtype=tdtype(self.xdtype)).reshape(1, len(pts), D).repeat(self.N, 1, 1)
        self.t = self.build(init["model"])
        self.t(self.x)  # the forward transform is evaluated once, as in any use of it

    # ---- construction ------------------------------------------------------------------
    def eff_values(self, cls, val) -> np.ndarray:
        """Descriptor values (one list per batch item) -> effective parameter array (N, ...)."""
        D = self.D
        items = []
        for item in val:
            if cls == "HomogeneousTransform":
                items.append(hom_from_desc(D, item))
            else:
                items.append(np.array([float(v) for v in item]))
        return np.stack(items)

    def source(self, fn):
        """The callable handed to deepali as `params`: a plain function or a torch module."""
        return ModuleSource(fn) if self.init.get("module") else fn

    def to_tensor(self, arr, dtype=None) -> torch.Tensor:
        return torch.tensor(np.asarray(arr), dtype=tdtype(dtype or self.pdtype))

    def leaf_of(self, spec, kind, act) -> "Leaf":
        return Leaf(spec, kind, act, dtype=self.pdtype)

    def fill(self, leaf: "Leaf", eff: np.ndarray):
        """route "double": the transform was created with zero-initialised default (float32) parameters and converted
        with Module.double(); the float64 values are written into the converted tensor in place."""
        if leaf.cls == "QuaternionRotation" and leaf.kind == "param":
            eff = eff / np.linalg.norm(eff, axis=-1, keepdims=True)
        raw = raw_of_eff(leaf.cls, eff, leaf.act)
        with torch.no_grad():
            leaf.real.params.copy_(self.to_tensor(raw, leaf.dtype))
        leaf.raw = raw

    def set_linear(self, leaf: Leaf, eff: np.ndarray, obj=None):
        """Replace the parameters of a linear leaf through its public setter (called on `obj`, a transform which
        shares the parameters of the leaf, when given)."""
        t, cls = (leaf.real if obj is None else obj), leaf.cls
        arg = self.to_tensor(eff, leaf.dtype)
        if leaf.kind == "callable":
            leaf.holder[leaf.key] = arg
        elif cls == "Translation":
            t.offset_(arg)
        elif cls in ("EulerRotation", "Shearing"):
            t.angles_(arg)
        elif cls == "QuaternionRotation":
            t.quaternion_(arg)
            eff = eff / np.linalg.norm(eff, axis=-1, keepdims=True)
        elif cls in ("IsotropicScaling", "AnisotropicScaling"):
            t.scales_(arg)
        elif cls == "HomogeneousTransform":
            t.matrix_(arg)
        leaf.raw = raw_of_eff(cls, eff, leaf.act)

    def new_linear(self, spec, kind=None, member=None) -> Leaf:
        """Stand-alone elementary linear transform (or bookkeeping of a member of a named composite)."""
        kind = self.kind if kind is None else kind
        cls = spec["cls"]
        leaf = self.leaf_of(spec, kind, act=(kind == "param"))
        eff = self.eff_values(cls, spec["val"])
        if member is not None:
            leaf.real = member
            return leaf, eff
        kw = {"order": spec.get("order")} if cls == "EulerRotation" else {}
        C = getattr(self.S, cls)
        double = self.route == "double" and leaf.dtype == "float64"
        if kind == "param":
            leaf.real = C(self.grid, groups=self.N, **kw)
            if double:
                leaf.real = leaf.real.double()
                self.fill(leaf, eff)
            else:
                self.set_linear(leaf, eff)
        elif kind == "buffer":
            if double:
                leaf.real = C(self.grid, groups=self.N, params=False, **kw).double()
                self.fill(leaf, eff)
            else:
                leaf.real = C(self.grid, params=self.to_tensor(eff, leaf.dtype), **kw)
                leaf.raw = eff
        else:
            leaf.holder = {"p": self.to_tensor(eff, leaf.dtype)}
            holder = leaf.holder
            leaf.real = C(self.grid, groups=self.N, params=self.source(lambda: holder["p"]), **kw)
            leaf.raw = eff
        return leaf

    def new_velocity(self, spec, kind=None, member=None, holder=None, key="p") -> Leaf:
        kind = self.kind if kind is None else kind
        leaf = self.leaf_of(spec, kind, act=False)
        leaf.comps = [dict(c) for c in spec["comps"]]
        S = self.S
        if member is None:
            kw = dict(scale=spec.get("scale"), steps=spec.get("steps"))
            C = S.StationaryVelocityFieldTransform if spec["cls"] == "SVF" else S.StationaryVelocityFreeFormDeformation
            if spec["cls"] == "SVFFD":
                kw["stride"] = int(spec["stride"])
            # float64 SVFFD: the B-spline kernels are (float32) module buffers, the module is converted with double()
            double = leaf.dtype == "float64" and (self.route == "double" or spec["cls"] == "SVFFD")
            if kind == "callable":
                leaf.holder = {"p": None}
                h = leaf.holder
                leaf.real = C(self.grid, groups=1, params=self.source(lambda: h["p"]), **kw)
                if double and spec["cls"] == "SVFFD":
                    leaf.real = leaf.real.double()
                h["p"] = self.velocity_tensor(leaf)
            elif double:
                leaf.real = C(self.grid, groups=1, params=(kind == "param"), **kw).double()
                with torch.no_grad():
                    leaf.real.params.copy_(self.velocity_tensor(leaf))
            elif kind == "buffer":
                leaf.real = C(self.grid, groups=1, params=False, **kw)  # only to read data_shape (SVFFD control points)
                leaf.real = C(self.grid, params=self.velocity_tensor(leaf), **kw)
            else:
                leaf.real = C(self.grid, groups=1, params=True, **kw)
                leaf.real.data_(self.velocity_tensor(leaf))
        else:
            leaf.real = member
            leaf.holder = holder
            leaf.key = key
        return leaf

    def velocity_tensor(self, leaf: Leaf, comps=None, dtype=None) -> torch.Tensor:
        comps = leaf.comps if comps is None else comps
        dtype = dtype or leaf.dtype
        if leaf.cls == "SVF":
            return svf_tensor(self.D, self.shape, self.ac, comps, dtype)
        cp_shape = tuple(leaf.real.data_shape[1:])
        s = int(leaf.spec["stride"])
        expect = tuple((n - 1) // s + 4 if s > 1 else n + 3 for n in self.shape)
        if cp_shape != expect:
            raise Violation("svffd_control_point_layout", f"data_shape {cp_shape} != {expect} for shape {self.shape} stride {s}")
        return svffd_tensor(self.D, self.shape, s, cp_shape, comps, dtype)

    def build(self, model):
        S = self.S
        typ = model["type"]
        if typ == "elem":
            spec = model["leaves"][0]
            leaf = self.new_velocity(spec) if spec["cls"] in VELOCITY else self.new_linear(spec)
            self.leaves.append(leaf)
            self.labels.add(spec["cls"])
            return leaf.real
        if typ == "seq":
            for spec in model["leaves"]:
                self.leaves.append(self.new_velocity(spec) if spec["cls"] in VELOCITY else self.new_linear(spec))
            self.labels.add("Sequential")
            self.labels.add("Sequential[" + ("nonlinear" if any(l.velocity for l in self.leaves) else "linear") + "]")
            for i, l in enumerate(self.leaves):
                l.path = [str(i)]
            return S.SequentialTransform(*[l.real for l in self.leaves])
        if typ == "named":
            name = model["name"]
            members = NAMED[name]
            C = getattr(S, name)
            self.labels.add(name)
            specs = model["leaves"]
            double = self.route == "double" and self.kind != "callable"
            if self.kind == "param" or double:
                t = C(self.grid, groups=self.N, **({} if self.kind == "param" else {attr: False for attr, _ in members}))
                if double:
                    t = t.double()
                for (attr, cls), spec in zip(members, specs):
                    leaf, eff = self.new_linear(spec, member=getattr(t, attr))
                    leaf.path = [attr]
                    if double:
                        self.fill(leaf, eff)
                    else:
                        self.set_linear(leaf, eff)
                    self.leaves.append(leaf)
                return t
            kw = {}
            for (attr, cls), spec in zip(members, specs):
                leaf = self.leaf_of(spec, self.kind, act=False)
                eff = self.eff_values(cls, spec["val"])
                leaf.raw = eff
                if self.kind == "buffer":
                    kw[attr] = self.to_tensor(eff, leaf.dtype)
                else:
                    leaf.holder = {"p": self.to_tensor(eff, leaf.dtype)}
                    kw[attr] = self.source((lambda h: (lambda: h["p"]))(leaf.holder))
                self.leaves.append(leaf)
            t = C(self.grid, groups=self.N, **kw)
            for (attr, cls), leaf in zip(members, self.leaves):
                leaf.real = getattr(t, attr)
                leaf.path = [attr]
            return t
        if typ == "generic":
            from deepali.spatial.generic import GenericSpatialTransform, TransformConfig

            cfg = TransformConfig(transform=model["transform"], affine_model=model["affine_model"],
                                  rotation_model=model.get("rotation_model") or "ZXZ",
                                  control_point_spacing=int(model.get("stride", 1)),
                                  scaling_and_squaring_steps=int(model.get("steps", 6)))
            self.labels.add("Generic[" + model["transform"] + "]")
            holder = {}
            if self.kind == "callable":
                t = GenericSpatialTransform(self.grid, params=self.source(lambda: dict(holder)), config=cfg)
            else:
                t = GenericSpatialTransform(self.grid, params=True, config=cfg)
            # Module.double(): always needed by a float64 SVFFD member (its B-spline kernels are module buffers)
            double = self.pdtype == "float64" and (self.route == "double" or any(sp["cls"] == "SVFFD" for sp in model["leaves"]))
            if double:
                t = t.double()
            for spec in model["leaves"]:  # in order of composition
                name = spec["name"]
                member = t[name]
                if spec["cls"] in VELOCITY:
                    leaf = self.new_velocity(spec, member=member, holder=holder, key=name)
                    if self.kind == "callable":
                        holder[name] = self.velocity_tensor(leaf)
                    elif double and leaf.dtype == "float64":
                        with torch.no_grad():
                            member.params.copy_(self.velocity_tensor(leaf))
                    else:
                        member.data_(self.velocity_tensor(leaf))
                else:
                    if self.kind == "callable":
                        leaf = self.leaf_of(spec, "callable", act=False)
                        leaf.real, leaf.holder, leaf.key = member, holder, name
                        leaf.raw = self.eff_values(spec["cls"], spec["val"])
                        holder[name] = self.to_tensor(leaf.raw, leaf.dtype)
                    else:
                        leaf, eff = self.new_linear(spec, kind="param", member=member)
                        if double and self.route == "double" and leaf.dtype == "float64":
                            self.fill(leaf, eff)
                        else:
                            self.set_linear(leaf, eff)
                leaf.path = [name]
                self.leaves.append(leaf)
            return t
        raise ValueError(typ)

    # ---- reference quantities ------------------------------------------------------------
    def leaf_homs(self, leaf: Leaf):
        eff = eff_of_raw(leaf.cls, leaf.raw, leaf.act)
        return [leaf_hom(leaf.cls, self.D, eff[b], leaf.spec.get("order")) for b in range(eff.shape[0])]

    def linear_numbers(self, ids):
        """(product of cond2, product of max(|H|, |H^-1|)) over the linear leaves `ids`, worst batch item."""
        cond, nrm = 1.0, 1.0
        for i in ids:
            leaf = self.leaves[i]
            if leaf.velocity:
                continue
            c_i, n_i = 1.0, 1.0
            for H in self.leaf_homs(leaf):
                a = float(np.linalg.norm(H, 2))
                b = float(np.linalg.norm(np.linalg.inv(H), 2))
                c_i, n_i = max(c_i, a * b), max(n_i, a, b)
            cond *= c_i
            nrm *= n_i
        return cond, nrm

    def eps_ids(self, ids, points=True) -> float:
        """Unit roundoff of the computation: the coarsest of the parameter dtypes of the members `ids` (a composite is
        formed in the dtype of one of its members) and, when points are mapped, of the points (homogeneous_transform
        casts the matrix to the dtype of the points)."""
        e = eps_of(self.xdtype) if points else 0.0
        for i in ids:
            e = max(e, eps_of(self.leaves[i].dtype))
        return e

    def linear_factor(self, ids) -> float:
        """prod_i cond_i * (K + (D+1) * sum_j cond_j), j over the members whose inverse is a numerically inverted matrix
        (HomogeneousTransform, Shearing: torch.inverse). First-order term: rounding of the independently formed
        products M and M^-1 (K prod cond). Second-order term: the columns of an LU-based inverse X^ carry independent
        errors of relative size gamma_n cond, n = D+1, so that the residual of the other side (X^ A - I = dX A) is bounded
        by gamma_n cond^2 only (Higham, Accuracy and Stability of Numerical Algorithms, 14.3)."""
        cond, _ = self.linear_numbers(ids)
        cinv = 0.0
        for i in ids:
            if self.leaves[i].cls in ("HomogeneousTransform", "Shearing"):
                cinv += self.linear_numbers([i])[0]
        return cond * (K + (self.D + 1) * cinv)

    def velocity_numbers(self, leaf: Leaf):
        """(A, C, G): total amplitude in samples, total curvature, gradient bound of the velocity (per sample)."""
        s = abs(float(leaf.spec["scale"])) if leaf.spec.get("scale") is not None else 1.0
        A = s * sum(abs(c["amp"]) for c in leaf.comps)
        C = s * sum(abs(c["amp"]) * velocity_kappa(self.D, self.shape, c["waves"]) for c in leaf.comps)
        G = s * sum(abs(c["amp"]) * math.pi * max(c["waves"]) / (min(self.shape) - 1) for c in leaf.comps)
        return A, C, G

    def identity_distance(self, ids) -> float:
        d = 0.0
        for i in ids:
            leaf = self.leaves[i]
            if leaf.velocity:
                d = max(d, self.velocity_numbers(leaf)[0])
            else:
                for H in self.leaf_homs(leaf):
                    d = max(d, float(np.abs(H - np.eye(self.D + 1)).max()))
        return d

    def pair_bound(self, ids):
        """Bound on |g(f(x)) - x| and |f(g(x)) - x| per component, in cube units.

        delta = eps prod cond_i (64 + (D+1) sum_inv cond_j) max(1,|x|)   rounding of the linear members (`linear_factor`),
                eps = unit roundoff of the coarsest dtype among the parameters of the members and the points
        pure linear:      delta
        pure velocity:    unit_c (3 A C + [C/2 for non-grid points] + floor)
        mixed (one velocity member phi between linear maps L1, L2):  the inner round trip phi^-1 L^-1 L phi sees the
        linear rounding delta magnified by Lip(phi^-1) <= exp(D G r) (flow of a field with Lipschitz constant D G r,
        r = ratio of sample units), and the outer linear map magnifies the velocity error by at most
        Nrm = prod max(|H_i|, |H_i^-1|):   Nrm (unit_max B_phi + Lip delta) + delta.
        Returns the bound as a (points, components) array; for a pure velocity model the trailing `grid_pts`
        points are sample positions and get the grid-point bound."""
        cond, nrm = self.linear_numbers(ids)
        xmax = max(1.0, float(self.x.abs().max()))
        eps = self.eps_ids(ids)
        delta = eps * self.linear_factor(ids) * xmax
        vel = [self.leaves[i] for i in ids if self.leaves[i].velocity]
        lin = [i for i in ids if not self.leaves[i].velocity]
        P = self.x.shape[1]
        if not vel:
            return np.full((P, self.D), delta)
        A = C = G = 0.0
        for leaf in vel:
            a, c, g = self.velocity_numbers(leaf)
            A, C, G = A + a, C + c, G + g
        units = np.array(self.units)
        b_grid = 3 * A * C + FLOOR_SAMPLES
        b_any = b_grid + C / 2
        out = np.zeros((P, self.D))
        if not lin:
            out[:] = b_any * units + K * eps
            if self.grid_pts:
                out[P - self.grid_pts:] = b_grid * units + K * eps
            return out
        lip = math.exp(self.D * G * float(units.max() / units.min()))
        out[:] = nrm * (b_any * float(units.max()) + lip * delta) + delta
        return out

    # ---- operations -------------------------------------------------------------------------
    def all_ids(self):
        return list(range(len(self.leaves)))

    def add_pair(self, f, g, linked, what):
        self.pairs.append({"f": f, "g": g, "linked": bool(linked), "born": self.version, "ids": self.all_ids(), "what": what,
                           "pre": [], "paths": {i: list(l.path) for i, l in enumerate(self.leaves)}})
        if len(self.pairs) > MAX_PAIRS:
            self.pairs.pop(0)

    @staticmethod
    def member(obj, path):
        """Member transform of (the inverse of) a composite: members keep their names in the inverse."""
        for name in path:
            obj = obj[name]
        return obj

    def immediate(self, g, what):
        """update_buffers=True: the inverse must be usable without calling update() (t is up to date here)."""
        with torch.no_grad():
            y = self.t.forward(self.x)
            xr = g.forward(y)
        self.compare(xr, self.x, self.pair_bound(self.all_ids()), "update_buffers_inverse_not_ready:" + self.kind,
                     f"{what}: inverse used without update() right after inverse(update_buffers=True)")

    def compare(self, actual, expected, bound, kind, what):
        a = actual.detach().double().numpy()
        e = expected.detach().double().numpy()
        if a.shape != e.shape:
            raise Violation(kind + ":shape", f"{what}: shape {a.shape} != {e.shape}")
        if not np.all(np.isfinite(a)):
            raise Violation(kind + ":nonfinite", f"{what}: non-finite result")
        err = np.abs(a - e)  # (N, P, D)
        ratio = float((err / bound[None]).max())
        if ratio > 1.0:
            n, p, c = np.unravel_index(int(np.argmax(err / bound[None])), err.shape)
            raise Violation(kind, f"{what}: |delta|={err[n, p, c]:.4g} > bound {bound[p, c]:.3g} at point {p} "
                                  f"x={e[n, p].tolist()} got={a[n, p].tolist()}")
        self.worst = max(self.worst, ratio)

    def apply(self, op):
        name = op["op"]
        t = self.t
        if name == "inverse":
            g = t.inverse(link=bool(op["link"]), update_buffers=bool(op["ub"]))
            if op["ub"]:
                self.immediate(g, f"inverse(link={op['link']}, update_buffers=True)")
            self.add_pair(t, g, op["link"], f"inverse(link={op['link']}, update_buffers={op['ub']})")
            self.labels.add(f"inverse(link={bool(op['link'])})")
        elif name == "inv":
            g = inv_of(t)
            self.immediate(g, ".inv")
            self.add_pair(t, g, True, ".inv")
            self.labels.add(".inv")
        elif name == "nest":
            if not self.pairs:
                g = t.inverse()
                self.add_pair(t, g, False, "inverse()")
            p = self.pairs[int(op["k"]) % len(self.pairs)]
            gg = p["g"].inverse(link=bool(op["link"]), update_buffers=bool(op["ub"]))
            # (g, gg) is an inverse pair whatever happens to f; gg tracks f when g does
            # a linked transform reads the parameters buffered by the transform it is linked to: everything up the
            # chain is evaluated first ("pre"), as a user holding the whole chain would do
            self.pairs.append({"f": p["g"], "g": gg, "linked": p["linked"], "born": self.version, "ids": p["ids"],
                               "what": f"inverse of [{p['what']}]", "pre": p["pre"] + [p["f"]], "paths": p["paths"]})
            if len(self.pairs) > MAX_PAIRS:
                self.pairs.pop(0)
            self.equivs.append({"f": p["f"], "gg": gg, "linked": p["linked"], "born": p["born"], "ids": p["ids"],
                                "what": f"inverse(link={op['link']}) of [{p['what']}]", "pre": p["pre"] + [p["f"], p["g"]]})
            if len(self.equivs) > MAX_EQUIVS:
                self.equivs.pop(0)
            self.labels.add("inverse_of_inverse")
        elif name == "edit":
            if not self.edit(op):
                self.flags["skipped_ops"] += 1
                return
            self.version += 1
            self.labels.add("edit:" + op["how"])
        elif name == "set":
            if not self.replace(op):
                self.flags["skipped_ops"] += 1
                return
            self.version += 1
            self.labels.add("set")
        elif name == "func":
            if not self.functional(op):
                self.flags["skipped_ops"] += 1
                return
        elif name == "compose":
            spec = op["leaf"]
            leaf = self.new_linear(spec)
            cond, _ = self.linear_numbers(self.all_ids())
            self.leaves.append(leaf)
            if cond * self.linear_numbers([len(self.leaves) - 1])[0] > COND_MAX or len(self.leaves) > 7:
                self.leaves.pop()
                self.flags["skipped_ops"] += 1
                return
            S = self.S
            self.t = S.SequentialTransform(t, leaf.real) if op["where"] == "after" else S.SequentialTransform(leaf.real, t)
            for l in self.leaves[:-1]:
                l.path = ["0" if op["where"] == "after" else "1"] + l.path
            leaf.path = ["1" if op["where"] == "after" else "0"]
            self.labels.add("compose")
        else:
            raise ValueError(name)
        self.flags["performed"] += 1
        self.check()

    def edit(self, op) -> bool:
        """In-place change of the parameter tensor under no_grad (what an optimizer step does)."""
        leaf = self.leaves[int(op["leaf"]) % len(self.leaves)]
        how = op["how"]
        if leaf.velocity:
            comps = [dict(c) for c in leaf.comps]
            if how == "mul":
                f = float(op["factor"])
                new = [dict(c, amp=c["amp"] * f) for c in comps]
            elif how == "add":
                new = comps + [dict(op["comp"])]
            else:
                new = [dict(op["comp"])]
            s = abs(float(leaf.spec["scale"])) if leaf.spec.get("scale") is not None else 1.0
            if s * sum(abs(c["amp"]) for c in new) > AMP_MAX or len(new) > 4:
                return False
            with torch.no_grad():
                tensor = leaf.tensor()
                if how == "mul":
                    tensor.mul_(float(op["factor"]))
                elif how == "add":
                    tensor.add_(self.velocity_tensor(leaf, [dict(op["comp"])], str(tensor.dtype)[6:]))
                else:
                    tensor.copy_(self.velocity_tensor(leaf, new, str(tensor.dtype)[6:]))
            leaf.comps = new
            return True
        cls = leaf.cls
        if how == "mul":
            new_raw = leaf.raw * float(op["factor"])
        elif how == "add":
            d = np.resize(np.array([float(v) for v in op["delta"]]), leaf.raw.shape[1:])
            new_raw = leaf.raw + d[None]
        else:
            eff = self.eff_values(cls, self.fit_val(leaf, op["val"]))
            if cls == "QuaternionRotation" and leaf.kind == "param":
                eff = eff / np.linalg.norm(eff, axis=-1, keepdims=True)
            new_raw = raw_of_eff(cls, eff, leaf.act)
        if not leaf_valid(cls, eff_of_raw(cls, new_raw, leaf.act)) or not self.cond_ok(leaf, new_raw):
            return False
        with torch.no_grad():
            tensor = leaf.tensor()
            if how == "mul":
                tensor.mul_(float(op["factor"]))
            elif how == "add":
                tensor.add_(self.to_tensor(np.broadcast_to(d[None], leaf.raw.shape).copy(), leaf.dtype))
            else:
                tensor.copy_(self.to_tensor(new_raw, leaf.dtype))
        leaf.raw = new_raw
        return True

    def fit_val(self, leaf, val):
        """Descriptor values of an op (drawn for the class) repeated to the batch size of the leaf."""
        val = [list(v) for v in val]
        return [val[b % len(val)] for b in range(leaf.raw.shape[0])]

    def cond_ok(self, leaf, new_raw) -> bool:
        old = leaf.raw
        leaf.raw = new_raw
        try:
            cond, _ = self.linear_numbers(self.all_ids())
        finally:
            leaf.raw = old
        return cond <= COND_MAX

    def sharing_member(self, op, idx):
        """The transform on which a setter is called: the forward member itself, or (op["on"] == "g", optimisable
        parameters only) the corresponding member of an unlinked inverse, which shares the parameter container of the
        forward member (SpatialTransform.__copy__), so that replacing the parameters through it is the same operation."""
        leaf = self.leaves[idx]
        if op.get("on") != "g" or leaf.kind != "param":
            return None
        cands = [p for p in self.pairs if not p["linked"] and idx in p["ids"]]
        if not cands:
            return None
        p = cands[int(op.get("k", 0)) % len(cands)]
        obj = self.member(p["g"], p["paths"][idx])
        if not isinstance(obj.params, torch.nn.Parameter):
            return None  # inverse(link=True) of an unlinked inverse: its parameters are read-only (ReadOnlyParameters)
        self.labels.add("set_through_inverse")
        return obj

    def replace(self, op) -> bool:
        """Replace the parameter tensor (public setter / data_, or a new tensor returned by the callable)."""
        idx = int(op["leaf"]) % len(self.leaves)
        leaf = self.leaves[idx]
        # the new tensor may have another dtype than the replaced one (not for SVFFD, whose module dtype is fixed by its kernels)
        dtype = op.get("dtype") if leaf.cls != "SVFFD" else None
        if leaf.velocity:
            comps = [dict(op["comp"])]
            s = abs(float(leaf.spec["scale"])) if leaf.spec.get("scale") is not None else 1.0
            if s * abs(comps[0]["amp"]) > AMP_MAX:
                return False
            if dtype and dtype != leaf.dtype:
                leaf.dtype = dtype
                self.labels.add("set:dtype_switch")
            new = self.velocity_tensor(leaf, comps)
            if leaf.kind == "callable":
                leaf.holder[leaf.key] = new
            else:
                (self.sharing_member(op, idx) or leaf.real).data_(new)
            leaf.comps = comps
        else:
            eff = self.eff_values(leaf.cls, self.fit_val(leaf, op["val"]))
            chk = eff / np.linalg.norm(eff, axis=-1, keepdims=True) if leaf.cls == "QuaternionRotation" else eff
            if not leaf_valid(leaf.cls, chk) or not self.cond_ok(leaf, raw_of_eff(leaf.cls, chk, leaf.act)):
                return False
            if dtype and dtype != leaf.dtype:
                leaf.dtype = dtype
                self.labels.add("set:dtype_switch")
            self.set_linear(leaf, eff, obj=self.sharing_member(op, idx))
        if leaf.kind == "buffer":
            # fixed tensors live in the buffer container, which a shallow copy does not share (SpatialTransform.__copy__):
            # only linked inverses follow a replaced tensor. Optimisable parameters live in the parameter container that
            # the copy made by inverse() shares, and callables are asked again by every update(): nothing is dropped.
            self.pairs = [p for p in self.pairs if p["linked"] or idx not in p["ids"]]
            self.equivs = [e for e in self.equivs if e["linked"] or idx not in e["ids"]]
        for p in self.pairs + self.equivs:
            if idx in p["ids"]:
                p["replaced"] = True
        return True

    def functional(self, op) -> bool:
        """A functional setter (data(p), unlink(), grid(g), matrix(m): 'shallow copy with ...') is called on one side of a
        live pair (the whole transform or one of its members); the returned copy is evaluated where that is meaningful
        and then dropped. Neither the receiver nor its partner may change: `check` compares every pair with the values
        it had before this operation, then asserts the round trips as usual."""
        if not self.pairs:
            self.add_pair(self.t, self.t.inverse(), False, "inverse()")
            self.check()
        p = self.pairs[int(op["k"]) % len(self.pairs)]
        side = op["side"]
        obj = p[side]
        how = op["how"]
        idx = int(op["leaf"]) % len(self.leaves)
        leaf = self.leaves[idx]
        if how == "grid" and op.get("whole"):
            target = obj
        elif idx in p["ids"]:
            target = self.member(obj, p["paths"][idx])
        else:
            return False
        if how == "data":
            dtype = (op.get("dtype") if leaf.cls != "SVFFD" else None) or leaf.dtype
            if leaf.velocity:
                arg = self.velocity_tensor(leaf, [dict(op["comp"])], dtype)
            else:
                arg = self.to_tensor(self.eff_values(leaf.cls, self.fit_val(leaf, op["val"])), dtype)
            c = target.data(arg)
            c(self.x)
        elif how == "unlink":
            c = target.unlink()
            if c.params is not None:
                raise Violation("unlink_copy_keeps_parameters", f"{type(c).__name__}.unlink().params is {type(c.params).__name__}")
        elif how == "matrix":
            if leaf.cls not in ("HomogeneousTransform", "EulerRotation", "QuaternionRotation"):
                return False  # matrix_() not implemented by the other models
            if leaf.cls == "EulerRotation" and self.D == 3 and (leaf.spec.get("order") or "ZXZ").upper() not in ("ZXZ", "XZX"):
                return False  # euler_rotation_angles() implements these two orders only
            if callable(target.params):
                return False  # documented: ReadOnlyParameters when parameters come from a callable (or a linked transform)
            eff = self.eff_values(leaf.cls, self.fit_val(leaf, op["val"]))
            D = self.D
            mats = []
            for b in range(eff.shape[0]):
                H = leaf_hom(leaf.cls, D, eff[b], leaf.spec.get("order"))
                mats.append(H[:D, :] if leaf.cls == "HomogeneousTransform" else H[:D, :D])
            c = target.matrix(self.to_tensor(np.stack(mats), op.get("dtype") or leaf.dtype))
            c(self.x)
        elif how == "grid":
            desc = dict(self.init["grid"])
            svffd = any(l.cls == "SVFFD" for l in self.leaves)
            if svffd:  # BSplineTransform.grid_ supports subdivision of the same domain only: 2 n - 1 samples, half spacing
                desc["size"] = [2 * int(desc["size"][0]) - 1] + [int(n) for n in desc["size"][1:]]
                desc["spacing"] = [float(desc["spacing"][0]) / 2] + [float(v) for v in desc["spacing"][1:]]
            else:
                desc["size"] = [int(n) + 1 for n in desc["size"]]
                if op.get("ac_toggle"):
                    desc["ac"] = not bool(desc["ac"])
            c = target.grid(make_grid(desc))
            if c is target:
                raise Violation("grid_copy_is_receiver", f"{type(target).__name__}.grid(g) returned the transform itself")
        else:
            raise ValueError(how)
        self.labels.add(f"func:{how}")
        self.labels.add(f"func:{how}:on_" + ("forward" if side == "f" else "inverse") + (":linked" if p["linked"] else ":unlinked"))
        self.expect_same = how
        return True

    # ---- oracle -------------------------------------------------------------------------------
    def hom_matrices(self, t) -> np.ndarray:
        """(n, D+1, D+1) float64 copies of the matrices of a linear transform: matrix() where the class offers it
        (LinearTransform), else tensor() - documented shapes (n, D, 1) translation, (n, D, D) affine, (n, D, D+1)."""
        D = self.D
        T = (t.matrix() if hasattr(t, "matrix") else t.tensor()).detach().double().numpy()
        if T.ndim != 3 or T.shape[1] != D or T.shape[2] not in (1, D, D + 1):
            raise Violation("linear_tensor_shape", f"{type(t).__name__}: matrix representation of shape {T.shape}")
        H = np.tile(np.eye(D + 1)[None], (T.shape[0], 1, 1))
        if T.shape[2] == 1:
            H[:, :D, D] = T[:, :, 0]
        else:
            H[:, :D, : T.shape[2]] = T
        return H

    def matrix_roundtrip(self, f, g, ids, kind, what):
        """The matrix representations of a linear pair compose to the identity to the accuracy of the PARAMETER dtype
        (no points involved): |Mg Mf - I|, |Mf Mg - I| <= eps_p * linear_factor; the products are formed in float64 numpy."""
        if any(self.leaves[i].velocity for i in ids):
            return
        Mf, Mg = self.hom_matrices(f), self.hom_matrices(g)
        if not (np.all(np.isfinite(Mf)) and np.all(np.isfinite(Mg))):
            raise Violation(kind + ":nonfinite", f"{what}: non-finite matrix")
        bound = self.eps_ids(ids, points=False) * self.linear_factor(ids)
        I = np.eye(self.D + 1)[None]
        err = max(float(np.abs(Mg @ Mf - I).max()), float(np.abs(Mf @ Mg - I).max()))
        if err > bound:
            raise Violation(kind, f"{what}: |M_inv M - I| = {err:.4g} > bound {bound:.3g} (parameter dtypes "
                                  f"{sorted({self.leaves[i].dtype for i in ids})})")
        self.worst = max(self.worst, err / bound)

    def check_linear_extras(self, p, f, g, outs, ctx):
        """Linear pairs only: dtype of the results (homogeneous_transform: 'the data type of the resulting tensor is
        set to points.dtype'), and the matrix level round trip of the pair and of each of its members."""
        ids = p["ids"]
        if any(self.leaves[i].velocity for i in ids):
            return
        for name, out in outs:
            if out.dtype != self.x.dtype:
                raise Violation("linear_result_dtype_differs_from_points", f"{name} has dtype {out.dtype} for points of dtype "
                                                                          f"{self.x.dtype} ({p['what']})")
        self.matrix_roundtrip(f, g, ids, "matrix_of_inverse_times_matrix:" + ctx, f"pair [{p['what']}]")
        if len(ids) > 1:
            for i in ids:
                path = p["paths"].get(i)
                if not path:
                    continue
                self.matrix_roundtrip(self.member(f, path), self.member(g, path), [i], "member_matrix_of_inverse_times_matrix:" + ctx,
                                      f"member {'.'.join(path)} ({self.leaves[i].cls}, {self.leaves[i].dtype}) of pair [{p['what']}]")
        self.flags["matrix"] = True

    def check(self):
        x = self.x
        same, self.expect_same = self.expect_same, None
        self.t(x)
        for p in self.pairs:
            f, g = p["f"], p["g"]
            bound = self.pair_bound(p["ids"])
            ctx = ("linked" if p["linked"] else "unlinked") + ":" + self.kind + (":changed" if self.version > p["born"] else ":fresh")
            if p.get("replaced"):
                ctx += ":replaced"
            for m in p["pre"]:
                m(x)
            y = f(x)
            z = g(x)
            if same is not None and "last" in p:
                # same parameters, same code path as in the previous check: identical values (4 eps32 for safety)
                for new, old, who in ((y, p["last"][0], "receiver_or_partner_forward"), (z, p["last"][1], "receiver_or_partner_inverse")):
                    b = np.full((x.shape[1], self.D), 4 * self.eps_ids(p["ids"]) * max(1.0, float(old.abs().max())))
                    self.compare(new, old, b, f"functional_setter_modified_pair:{same}:" + ("linked" if p["linked"] else "unlinked") + ":" + self.kind,
                                 f"{who} of pair [{p['what']}] changed by the functional setter {same}(...) whose result was dropped")
                self.flags["func"] = True
            p["last"] = (y.detach().clone(), z.detach().clone())
            xr = g(y)
            self.compare(xr, x, bound, "inv_of_fwd:" + ctx, f"g(f(x)) != x for g = {p['what']}")
            xr2 = f(z)
            self.compare(xr2, x, bound, "fwd_of_inv:" + ctx, f"f(g(x)) != x for g = {p['what']}")
            self.check_linear_extras(p, f, g, (("f(x)", y), ("g(x)", z), ("g(f(x))", xr), ("f(g(x))", xr2)), ctx)
            if self.version > p["born"]:
                self.flags["changed"] = True
            if p.get("replaced") and not p["linked"] and self.kind == "param":
                self.flags["replaced_unlinked"] = True
            if p["linked"]:
                self.flags["linked"] = True
        for e in self.equivs:
            f, gg = e["f"], e["gg"]
            cond, nrm = self.linear_numbers(e["ids"])
            for m in e["pre"]:
                m(x)
            y = f(x)
            mag = max(1.0, float(y.detach().abs().max()))
            bound = np.full((x.shape[1], self.D), self.eps_ids(e["ids"]) * self.linear_factor(e["ids"]) * mag)
            y2 = gg(x)
            self.compare(y2, y, bound, "inverse_of_inverse_differs:" + ("linked" if e["linked"] else "unlinked") + ":" + self.kind,
                         f"inverse(inverse(t))(x) != t(x) for {e['what']}")


def run_history(case):
    init = case["init"]
    torch.set_grad_enabled(bool(init.get("grad", True)))
    try:
        w = World(init)
        for op in case["steps"]:
            w.apply(op)
    finally:
        torch.set_grad_enabled(True)
    nonid = w.identity_distance(w.all_ids()) > 1e-3
    nt = nonid and w.flags["performed"] >= 1 and bool(w.pairs or w.equivs) and (
        w.flags["changed"] or w.flags["linked"] or w.kind == "callable" or w.flags["func"])
    labels = sorted(w.labels) + [f"kind={w.kind}" + ("(module)" if w.kind == "callable" and init.get("module") else ""), f"D={w.D}", f"N={w.N}", f"ac={w.ac}", "grid=" + init["grid"].get("kind", "?")]
    labels += [f"pdtype={w.pdtype}", f"xdtype={w.xdtype}", "route=" + w.route]
    dts = {l.dtype for l in w.leaves}
    if len(dts) > 1:
        labels.append("mixed_member_dtypes")
    if "float64" in dts and w.N > 1:
        labels.append("float64_groups>1")
    if all(d == "float64" for d in dts) and w.xdtype == "float64" and not any(l.velocity for l in w.leaves):
        labels.append("all_float64_linear[" + init["model"]["type"] + "]")
    if any(l.cls == "HomogeneousTransform" and len(l.spec["val"][0]) > w.D * w.D + (1 if w.D == 2 else 3) + w.D for l in w.leaves):
        labels.append("hom_stretch")
    if w.flags["matrix"]:
        labels.append("matrix_level_round_trip")
    if w.flags["changed"]:
        labels.append("checked_after_change")
    if w.flags["replaced_unlinked"]:
        labels.append("unlinked_parameter_pair_checked_after_replacement")
    if w.flags["func"]:
        labels.append("pair_compared_across_functional_setter")
    if w.flags["skipped_ops"]:
        labels.append("op_skipped")
    return {"ratio": w.worst, "nontrivial": nt, "labels": labels, "steps": w.flags["performed"]}


# ---------------------------------------------------------------------------------------
# generators


def vals(cls: str, D: int):
    """Strategy for one batch item of generated non-identity effective parameter values."""
    if cls == "Translation":
        return st.lists(gen.qfloat(-0.5, 0.5, 0.01), min_size=D, max_size=D)
    if cls == "EulerRotation":
        return st.lists(gen.qfloat(-3.0, 3.0, 0.01), min_size=nvals(cls, D), max_size=nvals(cls, D))
    if cls == "QuaternionRotation":
        w = st.tuples(st.sampled_from([-1.0, 1.0]), gen.qfloat(0.3, 1.0, 0.01)).map(lambda sw: round(sw[0] * sw[1], 3))
        return st.tuples(w, st.lists(gen.qfloat(-1.0, 1.0, 0.01), min_size=3, max_size=3)).map(lambda t: [t[0]] + t[1])
    if cls == "IsotropicScaling":
        return st.lists(gen.logfloat(0.5, 2.0), min_size=1, max_size=1)
    if cls == "AnisotropicScaling":
        return st.lists(gen.logfloat(0.5, 2.0), min_size=D, max_size=D)
    if cls == "Shearing":
        return st.lists(gen.qfloat(-0.7, 0.7, 0.01), min_size=nvals(cls, D), max_size=nvals(cls, D))
    if cls == "HomogeneousTransform":
        nrot = 1 if D == 2 else 3
        stretch = st.one_of(st.just([]), st.lists(gen.logfloat(0.1, 4.0), min_size=D, max_size=D))  # cond up to a few hundred
        return st.tuples(st.lists(gen.qfloat(-0.5, 0.5, 0.01), min_size=D * D, max_size=D * D),
                         st.lists(gen.qfloat(-3.0, 3.0, 0.01), min_size=nrot, max_size=nrot),
                         st.lists(gen.qfloat(-0.5, 0.5, 0.01), min_size=D, max_size=D), stretch).map(lambda t: t[0] + t[1] + t[2] + t[3])
    raise ValueError(cls)


@st.composite
def linear_spec(draw, D, N, cls=None, name=None):
    if cls is None:
        cls = draw(st.sampled_from([c for c in LINEAR if D == 3 or c != "QuaternionRotation"]))
    spec = {"cls": cls, "val": draw(st.lists(vals(cls, D), min_size=N, max_size=N))}
    if cls == "EulerRotation" and name is None:
        spec["order"] = draw(st.sampled_from(ORDERS)) if D == 3 else None
    if name is not None:
        spec["name"] = name
    return spec


@st.composite
def comp_spec(draw, D, lo=0.05, hi=1.5):
    return {"amp": draw(gen.qfloat(lo, hi, 0.05)), "waves": draw(st.lists(st.integers(1, 2), min_size=D, max_size=D))}


@st.composite
def velocity_spec(draw, D, cls, name=None, stride=None, steps=None):
    spec = {"cls": cls, "comps": [draw(comp_spec(D))], "steps": steps if steps is not None else draw(st.integers(5, 7)),
            "scale": draw(st.sampled_from([None, None, 0.5, -1.0])) if name is None else None}
    if cls == "SVFFD":
        spec["stride"] = stride
    if name is not None:
        spec["name"] = name
    return spec


def edit_op(draw, i, spec, D, damped=False):
    """In-place edit of leaf i, drawn for its class."""
    cls = spec["cls"]
    if cls in VELOCITY:
        how = draw(st.sampled_from(["mul", "add", "copy"]))
        if how == "mul":
            return {"op": "edit", "leaf": i, "how": "mul", "factor": draw(st.sampled_from([0.5, -1.0, 0.8, 1.25, -0.5]))}
        return {"op": "edit", "leaf": i, "how": how, "comp": draw(comp_spec(D, 0.05, 0.8))}
    hows = ["add", "copy"] + (["mul"] if cls in ("IsotropicScaling", "AnisotropicScaling", "Translation") else [])
    how = draw(st.sampled_from(hows))
    if how == "mul":
        return {"op": "edit", "leaf": i, "how": "mul", "factor": draw(st.sampled_from([0.8, 0.9, 1.1, 1.25]))}
    if how == "add":
        mag = 0.05 if cls == "HomogeneousTransform" or damped else 0.3
        n = nvals(cls, D)
        return {"op": "edit", "leaf": i, "how": "add", "delta": draw(st.lists(gen.qfloat(-mag, mag, 0.01), min_size=n, max_size=n))}
    v = draw(vals(cls, D))
    return {"op": "edit", "leaf": i, "how": "copy", "val": [damp(cls, v, D) if damped else v]}


OTHER_DTYPE = [None, None, None, None, None, None, "float32", "float64"]  # optional dtype of a tensor handed to a setter / of a composed member


def set_op(draw, i, spec, D, damped=False):
    """Replacement through the public setter, called on the forward member or ("on" = "g") on the member of an unlinked
    inverse that shares its parameter container (optimisable parameters only, else the forward member is used); the new
    tensor optionally has another dtype than the one it replaces ("dtype")."""
    on = {"on": draw(st.sampled_from(["f", "f", "g"])), "k": draw(st.integers(0, 3))}
    dt = draw(st.sampled_from(OTHER_DTYPE))
    if dt is not None:
        on["dtype"] = dt
    if spec["cls"] in VELOCITY:
        return {"op": "set", "leaf": i, "comp": draw(comp_spec(D)), **on}
    v = draw(vals(spec["cls"], D))
    return {"op": "set", "leaf": i, "val": [damp(spec["cls"], v, D) if damped else v], **on}


def func_op(draw, i, spec, D, damped=False):
    """Functional setter called on the forward ("f") or inverse ("g") side of live pair k, on the member of leaf i
    (grid: optionally on the whole transform); arguments drawn for the class of the leaf."""
    cls = spec["cls"]
    hows = ["data", "data", "unlink", "grid", "grid"] + (["matrix", "matrix"] if cls in ("HomogeneousTransform", "EulerRotation",
                                                                                       "QuaternionRotation") else [])
    op = {"op": "func", "how": draw(st.sampled_from(hows)), "side": draw(st.sampled_from(["f", "g", "g"])),
          "k": draw(st.integers(0, 3)), "leaf": i}
    if op["how"] == "grid":
        op["whole"] = draw(st.booleans())
        op["ac_toggle"] = draw(st.booleans())
    elif op["how"] in ("data", "matrix"):
        dt = draw(st.sampled_from(OTHER_DTYPE))
        if dt is not None:
            op["dtype"] = dt
        if cls in VELOCITY:
            op["comp"] = draw(comp_spec(D, 0.05, 0.8))
        else:
            v = draw(vals(cls, D))
            op["val"] = [damp(cls, v, D) if damped else v]
    return op


def draw_steps(draw, specs, D, N, max_ops, damped=False):
    steps = []
    specs = list(specs)
    n = draw(st.integers(2, max_ops))
    composed = 0
    for _ in range(n):
        what = draw(st.sampled_from(["inverse", "inverse", "inverse", "inv", "edit", "edit", "set", "set", "func", "func", "nest",
                                     "compose"]))
        if what == "compose" and composed >= (1 if damped else 2):
            what = "inverse"
        if what == "inverse":
            steps.append({"op": "inverse", "link": draw(st.booleans()), "ub": draw(st.booleans())})
        elif what == "inv":
            steps.append({"op": "inv"})
        elif what == "nest":
            steps.append({"op": "nest", "k": draw(st.integers(0, 3)), "link": draw(st.booleans()), "ub": draw(st.booleans())})
        elif what == "edit":
            i = draw(st.integers(0, len(specs) - 1))
            steps.append(edit_op(draw, i, specs[i], D, damped))
        elif what == "set":
            i = draw(st.integers(0, len(specs) - 1))
            steps.append(set_op(draw, i, specs[i], D, damped))
        elif what == "func":
            i = draw(st.integers(0, len(specs) - 1))
            steps.append(func_op(draw, i, specs[i], D, damped))
        else:
            spec = draw(linear_spec(D, N))
            if damped:
                spec["val"] = [damp(spec["cls"], v, D) for v in spec["val"]]
            dt = draw(st.sampled_from(OTHER_DTYPE))
            if dt is not None:
                spec["dtype"] = dt
            specs.append(spec)
            composed += 1
            steps.append({"op": "compose", "leaf": spec, "where": draw(st.sampled_from(["after", "before"]))})
    return steps


@st.composite
def linear_histories(draw):
    D = draw(gen.dims())
    names = [c for c in LINEAR if D == 3 or c != "QuaternionRotation"]
    names += [k for k in NAMED if D == 3 or k != "RigidQuaternionTransform"]
    names += ["seq", "seq", "seq", "generic", "generic", "generic"]
    name = draw(st.sampled_from(names))
    typ = "elem" if name in LINEAR else "named" if name in NAMED else name
    kind = draw(st.sampled_from(["param", "param", "buffer", "callable"]))
    N = draw(st.sampled_from([1, 1, 2])) if typ != "generic" else 1
    grid = draw(gen.grids(D, 2, 12))
    model = {"type": typ}
    if typ == "elem":
        model["leaves"] = [draw(linear_spec(D, N, cls=name))]
    elif typ == "seq":
        model["leaves"] = draw(st.lists(linear_spec(D, N), min_size=2, max_size=3))
    elif typ == "named":
        model["name"] = name
        model["leaves"] = [draw(linear_spec(D, N, cls=cls, name=attr)) for attr, cls in NAMED[name]]
    else:
        if kind == "buffer":
            kind = "param"
        letters = draw(st.sampled_from(["TRS", "A", "TR", "RS", "T", "TRKS", "KS"] + (["TQS", "QT", "Q"] if D == 3 else [])))
        if kind == "callable":
            letters = letters.replace("K", "")  # a callable cannot provide shearing parameters (GenericSpatialTransform._data)
        if draw(st.booleans()) and len(letters) > 1:
            affine_model = " o ".join(letters)
        else:
            affine_model = letters
        model.update(transform="Affine", affine_model=affine_model,
                     rotation_model=draw(st.sampled_from(["ZXZ", "XZX", "XYZ", "ZYX"])))
        model["leaves"] = []
        for ch in reversed(letters):
            name, cls = GENERIC_LETTER[ch]
            spec = draw(linear_spec(D, 1, cls=cls, name=name))
            if cls == "EulerRotation":
                spec["order"] = model["rotation_model"]
            model["leaves"].append(spec)
    init = {"grid": grid, "N": N, "kind": kind, "model": model, "grad": draw(st.booleans()),
            "pts": draw(gen.point_lists(D, -1.0, 1.0, 1, 4))}
    if kind == "callable":
        init["module"] = draw(st.booleans())
    draw_dtypes(draw, init, model, kind)
    return {"init": init, "steps": draw_steps(draw, model["leaves"], D, N, 8)}


def draw_dtypes(draw, init, model, kind, velocity=False):
    """dtype of the parameters / of the points (the other one in 1 of 4 cases) / optionally another dtype for one member of
    a composite / route by which float64 parameters come about: handed over as float64 tensors (constructor, public
    setters, data_, callable) or created with the default dtype and converted with Module.double()."""
    init["dtype"] = dt = draw(gen.dtypes())
    other = "float32" if dt == "float64" else "float64"
    init["xdtype"] = draw(st.sampled_from([dt, dt, dt, other]))
    leaves = model["leaves"]
    mixed = False
    if len(leaves) > 1 and draw(st.integers(0, 4)) == 0:
        cands = [l for l in leaves if l["cls"] != "SVFFD"]
        if cands:
            draw(st.sampled_from(cands))["dtype"] = other
            mixed = True
    if dt == "float64" and not mixed and kind != "callable" and draw(st.integers(0, 2)) == 0:
        init["route"] = "double"


@st.composite
def velocity_histories(draw):
    D = draw(gen.dims())
    typ = draw(st.sampled_from(["elem", "elem", "elem", "seq", "generic"]))
    kind = draw(st.sampled_from(["param", "param", "buffer", "callable"]))
    cls = draw(st.sampled_from(["SVF", "SVF", "SVFFD"]))
    lo, hi = (12, 32) if D == 2 else (12, 16)
    stride = None
    if cls == "SVFFD":
        stride = draw(st.integers(1, 3))
        size = [stride * draw(st.integers((lo + stride - 2) // stride, (hi - 1) // stride)) + 1 for _ in range(D)]
    else:
        size = draw(st.lists(st.integers(lo, hi), min_size=D, max_size=D))
    grid = draw(gen.grids(D, 2, 4, ac=True if cls == "SVFFD" else None))
    grid["size"] = size
    model = {"type": typ}
    if typ == "elem":
        model["leaves"] = [draw(velocity_spec(D, cls, stride=stride))]
    elif typ == "seq":
        lin = draw(st.lists(linear_spec(D, 1, cls=draw(st.sampled_from(["Translation", "EulerRotation", "AnisotropicScaling",
                                                                         "HomogeneousTransform"]))), min_size=1, max_size=1))
        lin[0]["val"] = [damp(lin[0]["cls"], lin[0]["val"][0], D)]
        v = draw(velocity_spec(D, cls, stride=stride))
        model["leaves"] = lin + [v] if draw(st.booleans()) else [v] + lin
    else:
        if kind == "buffer":
            kind = "param"
        letters = draw(st.sampled_from(["TRS", "T", "A", "TR"]))
        first = draw(st.booleans())  # affine applied first
        tr = ("SVF" if cls == "SVF" else "SVFFD") + " o Affine" if first else "Affine o " + ("SVF" if cls == "SVF" else "SVFFD")
        steps = draw(st.integers(5, 7))
        model.update(transform=tr, affine_model=letters, rotation_model=draw(st.sampled_from(["ZXZ", "XYZ"])),
                     stride=stride or 1, steps=steps)
        lin = []
        for ch in reversed(letters):
            name, c = GENERIC_LETTER[ch]
            spec = draw(linear_spec(D, 1, cls=c, name=name))
            spec["val"] = [damp(c, spec["val"][0], D)]
            if c == "EulerRotation":
                spec["order"] = model["rotation_model"]
            lin.append(spec)
        v = draw(velocity_spec(D, cls, name="nonrigid", stride=stride, steps=steps if cls == "SVF" else 5))
        model["leaves"] = lin + [v] if first else [v] + lin
    P = draw(st.integers(1, 4))
    init = {"grid": grid, "N": 1, "kind": kind, "model": model, "grad": draw(st.booleans()),
            "pts": draw(gen.point_lists(D, -1.0, 1.0, 1, 3)),
            "gidx": draw(st.lists(st.lists(gen.qfloat(0.0, 1.0, 0.01), min_size=D, max_size=D), min_size=P, max_size=P))}
    if kind == "callable":
        init["module"] = draw(st.booleans())
    draw_dtypes(draw, init, model, kind, velocity=True)
    return {"init": init, "steps": draw_steps(draw, model["leaves"], D, 1, 6, damped=True)}


def damp(cls, val, D):
    """Linear members next to a velocity member stay near the identity (points stay near the domain)."""
    if cls == "Translation":
        return [round(v * 0.2, 4) for v in val]
    if cls == "EulerRotation":
        return [round(v * 0.1, 4) for v in val]
    if cls in ("AnisotropicScaling", "IsotropicScaling"):
        return [round(1.0 + (v - 1.0) * 0.2, 4) if v >= 1 else round(1.0 / (1.0 + (1.0 / v - 1.0) * 0.2), 4) for v in val]
    if cls == "HomogeneousTransform":
        nrot = 1 if D == 2 else 3
        out = list(val)
        for k in range(D * D, D * D + nrot):
            out[k] = round(out[k] * 0.1, 4)
        for k in range(D * D + nrot, D * D + nrot + D):
            out[k] = round(out[k] * 0.2, 4)
        for k in range(D * D + nrot + D, len(out)):  # optional stretch factors
            out[k] = round(1.0 + (out[k] - 1.0) * 0.2, 4) if out[k] >= 1 else round(1.0 / (1.0 + (1.0 / out[k] - 1.0) * 0.2), 4)
        for k in range(D * D):
            out[k] = round(out[k] * 0.4, 4)
        return out
    return val


# ---------------------------------------------------------------------------------------
# enumerated base histories: every model x parameter kind with one fixed history (coverage floor of every run)

FIXED_VALS = {
    "Translation": [0.31, -0.17, 0.23], "EulerRotation": [0.7, -1.9, 2.6], "QuaternionRotation": [0.6, -0.5, 0.3, 0.7],
    "IsotropicScaling": [1.6], "AnisotropicScaling": [0.6, 1.7, 1.2], "Shearing": [0.5, -0.6, 0.4],
    "HomogeneousTransform": [0.3, -0.2, 0.1, 0.25, 0.15, -0.3, -0.1, 0.2, 0.35],
}
FIXED_GRID = {2: {"size": [9, 6], "spacing": [0.7, 1.9], "center": [12.0, -7.5], "rot": [0.6], "perm": [0, 1], "flip": [1, 1],
                  "kind": "rotation", "ac": False},
              3: {"size": [7, 5, 6], "spacing": [1.2, 0.4, 2.0], "center": [-3.0, 40.0, 9.5], "rot": [0.4, -0.9, 2.1],
                  "perm": [2, 0, 1], "flip": [1, -1, 1], "kind": "reflection", "ac": True}}


def fixed_spec(cls, D, name=None, shift=0.0):
    if cls == "HomogeneousTransform":
        nrot = 1 if D == 2 else 3
        val = FIXED_VALS[cls][: D * D] + [1.1, -0.6, 0.8][:nrot] + [0.2, -0.3, 0.15][:D]
    else:
        val = FIXED_VALS[cls][: nvals(cls, D)]
    if shift:
        val = [round(v * (1.0 + shift), 4) for v in val]
    spec = {"cls": cls, "val": [val]}
    if cls == "EulerRotation":
        spec["order"] = "XYZ" if D == 3 and name is None else None
    if name is not None:
        spec["name"] = name
    return spec


def fixed_steps(specs, D):
    last = len(specs) - 1
    cls0, clsl = specs[0]["cls"], specs[last]["cls"]
    return [
        {"op": "inverse", "link": False, "ub": False},
        {"op": "inv"},
        {"op": "func", "how": "data", "side": "g", "k": 0, "leaf": 0, "val": fixed_spec(cls0, D, shift=0.3)["val"]},
        {"op": "func", "how": "data", "side": "g", "k": 1, "leaf": last, "val": fixed_spec(clsl, D, shift=-0.3)["val"]},
        {"op": "edit", "leaf": 0, "how": "add", "delta": [0.07] * nvals(cls0, D)},
        {"op": "func", "how": "unlink", "side": "f", "k": 0, "leaf": 0},
        {"op": "nest", "k": 0, "link": True, "ub": False},
        {"op": "set", "leaf": last, "val": fixed_spec(clsl, D, shift=-0.2)["val"], "on": "f", "k": 0},
        {"op": "func", "how": "matrix", "side": "f", "k": 0, "leaf": last, "val": fixed_spec(clsl, D, shift=0.2)["val"]},
        {"op": "func", "how": "unlink", "side": "g", "k": 1, "leaf": last},
        {"op": "inverse", "link": True, "ub": True},
        {"op": "set", "leaf": 0, "val": fixed_spec(cls0, D, shift=0.15)["val"], "on": "g", "k": 0},
        {"op": "edit", "leaf": last, "how": "copy", "val": fixed_spec(clsl, D, shift=0.1)["val"]},
        {"op": "func", "how": "grid", "side": "g", "k": 0, "leaf": 0, "whole": False, "ac_toggle": True},
        {"op": "nest", "k": 2, "link": False, "ub": True},
        {"op": "compose", "leaf": fixed_spec("Translation", D), "where": "after"},
        {"op": "inverse", "link": True, "ub": False},
        {"op": "func", "how": "grid", "side": "f", "k": 3, "leaf": 0, "whole": True, "ac_toggle": False},
        {"op": "edit", "leaf": 0, "how": "add", "delta": [-0.04] * nvals(cls0, D)},
    ]


def enum_linear(tier):
    for D in (2, 3):
        pts = [[0.3, -0.8, 0.55][:D], [-1.0, 1.0, -0.25][:D], [0.0] * D]
        names = [c for c in LINEAR if D == 3 or c != "QuaternionRotation"] + [k for k in NAMED if D == 3 or k != "RigidQuaternionTransform"]
        names += ["seq", "generic:TRS", "generic:A", "generic:TRKS"] + (["generic:TQS"] if D == 3 else [])
        for name in names:
            for kind in ("param", "buffer", "callable"):
                model = {}
                if name in LINEAR:
                    model = {"type": "elem", "leaves": [fixed_spec(name, D)]}
                elif name in NAMED:
                    model = {"type": "named", "name": name, "leaves": [fixed_spec(c, D, name=a) for a, c in NAMED[name]]}
                elif name == "seq":
                    model = {"type": "seq", "leaves": [fixed_spec("AnisotropicScaling", D), fixed_spec("EulerRotation", D),
                                                       fixed_spec("Shearing", D)]}
                else:
                    letters = name.split(":")[1]
                    if kind == "buffer" or (kind == "callable" and "K" in letters):
                        continue
                    model = {"type": "generic", "transform": "Affine", "affine_model": letters, "rotation_model": "ZXZ",
                             "leaves": [fixed_spec(GENERIC_LETTER[ch][1], D, name=GENERIC_LETTER[ch][0]) for ch in reversed(letters)]}
                    for spec in model["leaves"]:
                        if spec["cls"] == "EulerRotation":
                            spec["order"] = "ZXZ"
                init = {"grid": dict(FIXED_GRID[D]), "N": 1, "kind": kind, "model": model, "grad": True, "pts": pts}
                yield {"init": init, "steps": fixed_steps(model["leaves"], D)}
                # the same history in double precision (parameters and points); fixed tensors of the 2-D cases come
                # about through Module.double(), all others are handed over as float64 tensors
                init64 = dict(init, dtype="float64", xdtype="float64", N=2 if D == 2 and kind == "param" else 1)
                if init64["N"] == 2:
                    init64["model"] = dict(model, leaves=[dict(l, val=[l["val"][0], [round(v * 0.9, 4) for v in l["val"][0]]])
                                                          for l in model["leaves"]])
                if kind == "buffer" and D == 2:
                    init64["route"] = "double"
                yield {"init": init64, "steps": fixed_steps(model["leaves"], D)}


def enum_velocity(tier):
    for D in (2, 3):
        for cls in ("SVF", "SVFFD"):
            for kind in ("param", "buffer", "callable"):
                for ac in ((True, False) if cls == "SVF" else (True,)):
                    grid = dict(FIXED_GRID[D])
                    grid["ac"] = ac
                    grid["size"] = [17, 13, 15][:D] if cls == "SVF" else [13, 19, 16][:D]
                    spec = {"cls": cls, "comps": [{"amp": 0.6, "waves": [1, 2, 1][:D]}], "steps": 6, "scale": None}
                    if cls == "SVFFD":
                        spec["stride"] = 3
                    init = {"grid": grid, "N": 1, "kind": kind, "model": {"type": "elem", "leaves": [spec]}, "grad": False,
                            "pts": [[0.3, -0.8, 0.55][:D], [-0.95, 0.9, -0.25][:D]], "gidx": [[0.25, 0.5, 0.75][:D], [0.5, 0.0, 1.0][:D]]}
                    steps = [
                        {"op": "inverse", "link": False, "ub": True},
                        {"op": "inv"},
                        {"op": "func", "how": "data", "side": "g", "k": 0, "leaf": 0, "comp": {"amp": 0.4, "waves": [1, 1, 1][:D]}},
                        {"op": "func", "how": "data", "side": "g", "k": 1, "leaf": 0, "comp": {"amp": 0.4, "waves": [1, 1, 1][:D]}},
                        {"op": "edit", "leaf": 0, "how": "add", "comp": {"amp": 0.3, "waves": [2, 1, 1][:D]}},
                        {"op": "func", "how": "grid", "side": "f", "k": 0, "leaf": 0, "whole": False, "ac_toggle": True},
                        {"op": "nest", "k": 1, "link": True, "ub": True},
                        {"op": "set", "leaf": 0, "comp": {"amp": 0.9, "waves": [1, 1, 2][:D]}, "on": "f", "k": 0},
                        {"op": "func", "how": "unlink", "side": "g", "k": 0, "leaf": 0},
                        {"op": "inverse", "link": True, "ub": False},
                        {"op": "set", "leaf": 0, "comp": {"amp": 0.5, "waves": [2, 1, 1][:D]}, "on": "g", "k": 0},
                        {"op": "func", "how": "grid", "side": "g", "k": 0, "leaf": 0, "whole": False, "ac_toggle": True},
                        {"op": "edit", "leaf": 0, "how": "mul", "factor": -0.5},
                        {"op": "compose", "leaf": fixed_spec("Translation", D, shift=-0.8), "where": "before"},
                        {"op": "inverse", "link": False, "ub": True},
                    ]
                    yield {"init": init, "steps": steps}
                    if D == 2 or tier == "thorough":  # the same history in double precision
                        yield {"init": dict(init, dtype="float64", xdtype="float64"), "steps": steps}


# ---------------------------------------------------------------------------------------
# models without an inverse


@st.composite
def no_inverse_cases(draw):
    D = draw(gen.dims())
    grid = draw(gen.grids(D, 4, 9, ac=True))
    return {"grid": grid, "model": draw(st.sampled_from(["DDF", "FFD", "Sequential[DDF]", "Sequential[FFD]", "Generic[DDF]",
                                                         "Generic[FFD]", "Generic[Affine o DDF]", "Generic[FFD o Affine]",
                                                         "MultiLevel"])),
            "kind": draw(st.sampled_from(["param", "buffer"])),
            "call": draw(st.sampled_from(["inverse", "inverse_link", "inverse_ub", "inv"])),
            "amp": draw(gen.qfloat(0.0, 0.2, 0.01))}


def run_no_inverse(case):
    from deepali import spatial as S
    from deepali.spatial.generic import GenericSpatialTransform, TransformConfig

    grid = make_grid(case["grid"])
    model = case["model"]
    p = case["kind"] == "param"

    def base(name):
        C = S.DisplacementFieldTransform if name == "DDF" else S.FreeFormDeformation
        t = C(grid, params=p, **({"stride": 2} if name == "FFD" else {}))
        with torch.no_grad():
            t.params.add_(case["amp"])
        return t

    if model in ("DDF", "FFD"):
        t = base(model)
    elif model.startswith("Sequential"):
        t = S.SequentialTransform(S.Translation(grid, params=torch.full((1, grid.ndim), 0.1)), base(model[11:-1]))
    elif model == "MultiLevel":
        t = S.MultiLevelTransform(S.Translation(grid, params=torch.full((1, grid.ndim), 0.1)), base("DDF"))
    else:
        t = GenericSpatialTransform(grid, params=True, config=TransformConfig(transform=model[8:-1], affine_model="TRS",
                                                                               control_point_spacing=2))
    call = case["call"]
    try:
        if call == "inv":
            r = inv_of(t)
        elif call == "inverse":
            r = t.inverse()
        elif call == "inverse_link":
            r = t.inverse(link=True)
        else:
            r = t.inverse(update_buffers=True)
    except NotImplementedError:
        return {"nontrivial": True, "labels": [model, call]}
    raise Violation("missing_inverse_not_signalled", f"{model}.{call} returned {type(r).__name__} instead of raising NotImplementedError")


FACETS = [
    Facet("linear_histories", run_history, strategy=linear_histories,
          rule="elementary / named / Sequential / Generic linear models, parameters as Parameter|buffer|callable, float32|float64 "
               "(points in the same or the other dtype, optionally one member in the other dtype, Module.double() route), N in {1,2}, "
               "oriented grids; 2-8 operations of inverse/inv/edit/set (on forward or through an unlinked inverse)/func (functional "
               "setter on either side of a pair)/nest/compose; non-trivial = non-identity parameters and (a pair was checked after "
               "a parameter change made after its creation, or link=True, or callable parameters, or a pair was compared across a "
               "functional setter)",
          quick=600, thorough=10000, shards=16, quick_shards=4, enumerate=enum_linear),
    Facet("velocity_histories", run_history, strategy=velocity_histories,
          rule="SVF / SVFFD (stride 1-3) alone, in a Sequential with one damped linear member, or in a GenericSpatialTransform "
               "with an affine component; smooth band-limited velocities of total amplitude <= 2 samples; grid points and "
               "arbitrary points; 2-6 operations; same non-triviality rule",
          quick=300, thorough=3000, shards=16, quick_shards=4, enumerate=enum_velocity),
    Facet("no_inverse", run_no_inverse, strategy=no_inverse_cases,
          rule="DDF / FFD alone, inside Sequential / MultiLevel / Generic: inverse(...) and .inv must raise NotImplementedError",
          quick=60, thorough=400, shards=2),
]
