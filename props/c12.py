"""C12 - Spatial derivatives of flow fields are exact on polynomial fields."""
from __future__ import annotations

import itertools
import math
import re

import numpy as np
import torch
from hypothesis import strategies as st

from vlib import gen, ref
from vlib.case import hash_noise, tdtype
from vlib.core import EPS32, EPS64, Facet, Violation, check_close, eps_of

PROPERTY = "C12"
MANIFEST = {
    "text": "Generated-input search (Hypothesis) plus fixed enumerated grids (mode x D x spacing form x dtype x N) over D in {2,3}, "
            "shapes 5..12 (occasionally up to 24), batch sizes 1..4, float32/float64, contiguous and strided inputs, every "
            "accepted form of the spacing argument (float/int/0-d tensor scalar, per-axis list/tuple/tensor, (1,D), (N,1), (N,D)), "
            "all six finite-difference modes and mode='bspline' (stride 1..4, int or per-axis list/tuple). Affine fields u(x)=Ax+b sampled at x=index*spacing are "
            "compared with the analytic Jacobian, determinant (with/without identity), divergence, curl and Lie bracket computed in "
            "float64 numpy at EVERY grid point: exact everywhere for forward_central_backward (default), prewitt and sobel; for the "
            "replicate-padded forward/backward/central schemes exact inside and the value the padded stencil gives on the two faces "
            "along the derived axis (zero on the padded side, half the slope for central), with the derived quantities assembled "
            "from these per-point Jacobians. Second derivatives of quadratic fields equal 2Q wherever both passes of the scheme use "
            "complete stencils (per mode/key region, mixed keys of the four plain schemes at every grid point with the product of "
            "the face weights); arbitrary key requests (both spellings of mixed "
            "keys, shorthand and multi-channel keys, duplicates, order filter) against the complete request and the key expansion "
            "rule of the docstring; B-spline mode against an independent tensor-product cubic B-spline evaluator; all first/second "
            "derivatives and the derived quantities of hash-noise fields in every finite-difference mode, with and without Gaussian "
            "pre-smoothing (sigma), against a numpy model of the documented stencils (textbook prewitt [1,1,1]/3 and sobel [1,2,1]/4 "
            "smoothing, truncated normalised Gaussian). Exploration: no "
            "absence proof; the discrete errors at stake (wrong axis, wrong batch item, wrong power of the spacing, missing "
            "normalisation, sign, transposed matrix, wrong face stencil/padding, dropped sigma) are O(1) relative while the bounds are ~1e-6 (float64) .. 1e-4 (float32).",
    "note": "Trusted: numpy float64 arithmetic, vlib.ref.bspline_basis/bspline_eval_1d (self-tested on polynomial precision), the "
            "closed forms and the stencil model in props/c12.py (self-tested on ramps/polynomials). CPU only; mode='gaussian', the "
            "undocumented default spacing (spacing=None), sigma combined with mode='bspline', and with sigma > 0 the samples whose "
            "stencil chain reaches a face (the padding of the Gaussian pass is not documented) are outside the check.",
    "technique": "property-based testing (Hypothesis) with closed-form (analytic) oracles, independent reference models for the "
                 "B-spline mode and the finite-difference stencils, and a metamorphic subset-vs-full relation",
}
ASSUMPTIONS = [
    "bounds: first derivatives K(eps_dtype*max|u_c|/h_j + eps32*|A_cj|), second derivatives K(4 eps_dtype*max|u_c|/(h_i h_j) + "
    "2 eps32*|2Q_cij|) with K=8 (times D for prewitt/sobel: one difference pass plus D-1 smoothing passes); eps32 enters for "
    "float64 fields too because spatial_derivatives casts the spacing to float32",
    "face values of affine fields: forward (1, 0), backward (0, 1), central (1/2, 1/2) times the slope on the (lower, upper) face "
    "along the derived axis - the differences of the replicate-padded field the property statement names; exact on the faces for "
    "forward_central_backward (documented one-sided face differences) and for prewitt/sobel (the same differences after smoothing "
    "along the other axes only; since the repair of F24 that smoothing is replicate-padded 'so derivatives of affine fields are exact at the border')",
    "second derivatives are the scheme applied once per letter of the (sorted) key; closed-form regions: see second_order_region()",
    "stencil model: bound = K x (rounding error propagated through the passes: 2 eps max|f| per smoothing pass, "
    "(2 eps + eps32) 2 max|f|/h per difference pass, D (2 eps + 16 eps32) max|f| for the float32 Gaussian kernel); Gaussian "
    "kernel = exp(-x^2/(2 sigma^2)) sampled at integers |x| <= floor(3 sigma), normalised (gaussian_kernel_radius/gaussian1d); "
    "with sigma > 0 only samples at least radius + derivative order away from every face are compared",
    "spacing values in [0.25, 4] (first order) / [0.5, 2] (second order, stencil model) so that the float32 conditioning max|u|/h stays small",
]

L1 = {0: 1.0, 1: 2.0, 2: 4.0}  # upper bounds of sum |w| of the 4 cubic B-spline basis (derivative) weights
MODES = ["forward", "backward", "central", "forward_central_backward", "prewitt", "sobel"]
K = 8.0
CH = "uvw"
AX = "xyz"


# ---------------------------------------------------------------------------------------
# helpers: fields, spacing argument, regions


def index_coords(shape):
    """Index coordinates as array (..., X, D) with (x, y, z) component order; shape is (..., X)."""
    D = len(shape)
    mesh = np.meshgrid(*[np.arange(n, dtype=np.float64) for n in shape], indexing="ij")
    return np.stack(mesh[::-1], axis=-1).reshape(tuple(shape) + (D,))


def poly_field(shape, sp, A, b, Q=None):
    """u(x) = A x + b (+ x^T Q_c x) at x = index * spacing. Returns (u (D, ..., X), x (..., X, D))."""
    D = len(shape)
    x = index_coords(shape) * np.asarray(sp, dtype=np.float64)
    A = np.asarray(A, dtype=np.float64).reshape(D, D)
    u = x @ A.T + np.asarray(b, dtype=np.float64)
    if Q is not None:
        Q = np.asarray(Q, dtype=np.float64).reshape(D, D, D)
        u = u + np.einsum("...i,cij,...j->...c", x, Q, x)
    return np.moveaxis(u, -1, 0), x


def spacing_arg(form, sp):
    """The `spacing` argument in the form named by `form`; sp is a list of N per-item lists [sx, sy(, sz)]."""
    if form == "scalar":
        return float(sp[0][0])
    if form == "int":
        return int(sp[0][0])
    if form == "scalar_tensor":
        return torch.tensor(sp[0][0], dtype=torch.float64)
    if form == "NxD_f32":
        return torch.tensor(sp, dtype=torch.float32)
    if form == "vector":
        return [float(v) for v in sp[0]]
    if form == "tuple":
        return tuple(float(v) for v in sp[0])
    if form == "vector_tensor":
        return torch.tensor(sp[0], dtype=torch.float64)
    if form == "1xD":
        return torch.tensor([sp[0]], dtype=torch.float32)
    if form == "Nx1":
        return torch.tensor([[s[0]] for s in sp], dtype=torch.float64)
    if form == "NxD":
        return torch.tensor(sp, dtype=torch.float64)
    raise ValueError(form)


ALL_SPFORMS = ["scalar", "int", "scalar_tensor", "vector", "tuple", "vector_tensor", "1xD", "Nx1", "NxD", "NxD_f32"]
SPFORMS = ALL_SPFORMS + ["NxD"]
ISO_FORMS = ("scalar", "int", "scalar_tensor", "Nx1")


def fixed_spacing(form, D, N, k=0):
    """Deterministic spacing of the given form for the enumerated grids (k varies the values)."""
    base = [[0.5, 1.25, 2.0], [1.5, 0.75, 0.4]][k % 2][:D]
    if form == "scalar" or form == "scalar_tensor":
        return [[0.75 + 0.5 * (k % 2)] * D] * N
    if form == "int":
        return [[2.0 + (k % 2)] * D] * N
    if form == "Nx1":
        return [[0.5 + 0.75 * n] * D for n in range(N)]
    if form in ("NxD", "NxD_f32"):
        return [[round(v * (1 + 0.6 * n), 3) for v in (base if n % 2 == 0 else base[::-1])] for n in range(N)]
    return [base] * N


def fixed_coef(k, m):
    return [round(((7 * i + 3 * k) % 11 - 5) * 0.17, 2) for i in range(m)]


@st.composite
def spacings_for(draw, D, N, lo, hi):
    form = draw(st.sampled_from(SPFORMS + (["Nx1", "NxD", "NxD"] if N > 1 else [])))
    one = gen.logfloat(lo, hi)
    if form in ("scalar", "scalar_tensor"):
        s = draw(one)
        sp = [[s] * D] * N
    elif form == "int":
        s = float(draw(st.integers(max(1, math.ceil(lo)), max(1, math.floor(hi)))))
        sp = [[s] * D] * N
    elif form == "Nx1":
        sp = [[draw(one)] * D for _ in range(N)]
    elif form in ("NxD", "NxD_f32"):
        sp = [[draw(one) for _ in range(D)] for _ in range(N)]
    else:
        v = [draw(one) for _ in range(D)]
        sp = [v] * N
    return form, [list(s) for s in sp]


def as_layout(t, layout):
    """Same values, optionally as a non-contiguous view (every second element of a wider buffer)."""
    if layout != "strided":
        return t
    buf = torch.zeros(t.shape[:-1] + (2 * t.shape[-1],), dtype=t.dtype)
    buf[..., ::2] = t
    return buf[..., ::2]


def interior(D, margin):
    if margin == 0:
        return (Ellipsis,)
    return (Ellipsis,) + (slice(margin, -margin),) * D


# Value of the first derivative of an affine field on the (lower, upper) face along the derived axis, as a fraction of
# the slope, for each documented scheme: forward/backward/central differences of the replicate-padded field give a zero
# difference on the padded side (central: half the slope on both faces); forward_central_backward (= default) uses
# one-sided differences on the faces and is exact there; prewitt/sobel are forward_central_backward differences of the
# field smoothed (replicate-padded) along the other axes, which leaves the slope along the derived axis unchanged.
FACE = {"forward": (1.0, 0.0), "backward": (0.0, 1.0), "central": (0.5, 0.5)}
SMOOTHED = ("prewitt", "sobel")


def face_weights(mode, shape, j):
    """Array broadcastable to `shape` (..., X): 1 inside, FACE[mode] on the two faces along spatial dim j (x = 0)."""
    D = len(shape)
    n = shape[D - 1 - j]
    w = np.ones(n)
    w[0], w[-1] = FACE.get(mode, (1.0, 1.0))
    return w.reshape([n if ax == D - 1 - j else 1 for ax in range(D)])


def jacobian_field(A, shape, mode):
    """Documented first derivatives of the affine field with matrix A at every grid point, array (..., X, D, D)."""
    D = len(shape)
    J = np.empty(tuple(shape) + (D, D))
    for c in range(D):
        for j in range(D):
            J[..., c, j] = A[c, j] * face_weights(mode, shape, j)
    return J


def kmode(mode, D):
    """Rounding-error factor: K per pass over the data (the difference pass plus D-1 smoothing passes of prewitt/sobel)."""
    return K * D if mode in SMOOTHED else K


def aniso(sp):
    return any(max(s) / min(s) > 1.05 for s in sp)


def per_item(sp):
    return any(s != sp[0] for s in sp)


def coef_lists(draw, n, lo, hi, step=0.01):
    return draw(st.lists(gen.qfloat(lo, hi, step), min_size=n, max_size=n))


def expect_shape(t, shape, what):
    if tuple(t.shape) != tuple(shape):
        raise Violation("shape", f"{what}: shape {tuple(t.shape)} != {tuple(shape)}")


def expect_dtype(t, dt, what):
    if t.dtype != dt:
        raise Violation("dtype", f"{what}: dtype {t.dtype} != {dt}")


# ---------------------------------------------------------------------------------------
# facet 1: affine fields, all finite-difference modes, all derived quantities


@st.composite
def affine_cases(draw):
    D = draw(gen.dims())
    N = draw(st.sampled_from([1, 1, 2, 2, 3, 3, 4]))
    hi = draw(st.sampled_from([12, 12, 12, 24])) if D == 2 else draw(st.sampled_from([9, 9, 9, 13]))
    shape = draw(st.lists(st.integers(5, hi), min_size=D, max_size=D))
    form, sp = draw(spacings_for(D, N, 0.25, 4.0))
    return {
        "D": D, "N": N, "shape": shape, "dtype": draw(gen.dtypes()), "mode": draw(st.sampled_from(MODES + [None])),
        "layout": draw(st.sampled_from(["contiguous", "contiguous", "strided"])),
        "spform": form, "sp": sp,
        "A": [coef_lists(draw, D * D, -2.0, 2.0) for _ in range(N)], "a": [coef_lists(draw, D, -5.0, 5.0) for _ in range(N)],
        "B": [coef_lists(draw, D * D, -2.0, 2.0) for _ in range(N)], "b": [coef_lists(draw, D, -5.0, 5.0) for _ in range(N)],
    }


def affine_grid(tier):
    """Every mode x D x spacing form x dtype x N in {1,2,3} once, with fixed generic coefficients."""
    k = 0
    for mode, D, form, dtype, N in itertools.product(MODES + [None], (2, 3), ALL_SPFORMS, ("float32", "float64"), (1, 2, 3)):
        k += 1
        yield {"D": D, "N": N, "shape": [[5, 7, 6], [6, 5, 8]][k % 2][:D], "dtype": dtype, "mode": mode, "spform": form,
               "sp": [list(x) for x in fixed_spacing(form, D, N, k)], "layout": "strided" if k % 5 == 0 else "contiguous",
               "A": [fixed_coef(1 + n + k, D * D) for n in range(N)], "a": [fixed_coef(3 + n, D) for n in range(N)],
               "B": [fixed_coef(5 + n, D * D) for n in range(N)], "b": [fixed_coef(7 + n + k, D) for n in range(N)]}


def run_affine(case):
    from deepali.core import functional as U

    D, N, shape, mode = case["D"], case["N"], tuple(case["shape"]), case["mode"]
    dt = tdtype(case["dtype"])
    eps = eps_of(dt)
    sp = case["sp"]
    spacing = spacing_arg(case["spform"], sp)
    us, vs, xs = [], [], []
    for n in range(N):
        un, x = poly_field(shape, sp[n], case["A"][n], case["a"][n])
        vn, _ = poly_field(shape, sp[n], case["B"][n], case["b"][n])
        us.append(un), vs.append(vn), xs.append(x)
    u = as_layout(torch.tensor(np.stack(us), dtype=dt), case.get("layout"))
    v = as_layout(torch.tensor(np.stack(vs), dtype=dt), case.get("layout"))
    u0, v0 = u.clone(), v.clone()
    A = np.array(case["A"], dtype=np.float64).reshape(N, D, D)
    B = np.array(case["B"], dtype=np.float64).reshape(N, D, D)
    a = np.array(case["a"], dtype=np.float64)
    b = np.array(case["b"], dtype=np.float64)
    maxu = np.abs(np.stack(us)).reshape(N, D, -1).max(-1)  # (N, D)
    maxv = np.abs(np.stack(vs)).reshape(N, D, -1).max(-1)
    h = np.array(sp, dtype=np.float64)  # (N, D)
    # per-entry error bounds of the first derivatives (see ASSUMPTIONS)
    km = kmode(mode, D)
    eu = km * (eps * maxu[:, :, None] / h[:, None, :] + EPS32 * np.abs(A))  # (N, D, D)
    ev = km * (eps * maxv[:, :, None] / h[:, None, :] + EPS32 * np.abs(B))
    kw = dict(mode=mode, spacing=spacing)
    # documented value of every first derivative at EVERY grid point (faces included, see FACE)
    Ju = [jacobian_field(A[n], shape, mode) for n in range(N)]
    Jv = [jacobian_field(B[n], shape, mode) for n in range(N)]
    worst = 0.0

    def close(actual, expected, bound, kind, what):
        nonlocal worst
        worst = max(worst, check_close(actual, expected, bound, kind, f"{what} (mode={mode}, spacing {case['spform']})"))

    # flow_derivatives, all first-order keys
    deriv = U.flow_derivatives(u, **kw)
    keys = [f"d{CH[c]}/d{AX[j]}" for c in range(D) for j in range(D)]
    if set(deriv.keys()) != set(keys):
        raise Violation("keys", f"flow_derivatives() returned keys {sorted(deriv)} instead of {keys}")
    for c in range(D):
        for j in range(D):
            val = deriv[f"d{CH[c]}/d{AX[j]}"]
            expect_shape(val, (N, 1) + shape, "flow_derivatives value")
            expect_dtype(val, dt, "flow_derivatives value")
            for n in range(N):
                close(val[n, 0], Ju[n][..., c, j], eu[n, c, j], "flow_derivatives", f"d{CH[c]}/d{AX[j]} of item {n}")

    # Jacobian matrix / dict, with and without identity
    for add_id in (False, True):
        J = U.jacobian_matrix(u, add_identity=add_id, **kw)
        expect_shape(J, (N,) + shape + (D, D), "jacobian_matrix")
        Jd = U.jacobian_dict(u, add_identity=add_id, **kw)
        if set(Jd.keys()) != set(itertools.product(range(D), repeat=2)):
            raise Violation("keys", f"jacobian_dict() keys {sorted(Jd)}")
        for n in range(N):
            E = Ju[n] + (np.eye(D) if add_id else 0.0)
            for c in range(D):
                for j in range(D):
                    bnd = eu[n, c, j] + (2 * eps if add_id else 0.0)
                    close(J[n][..., c, j], E[..., c, j], bnd, "jacobian_matrix", f"J[{c},{j}] add_identity={add_id} item {n}")
                    close(Jd[(c, j)][n, 0], E[..., c, j], bnd, "jacobian_dict", f"J[{c},{j}] add_identity={add_id} item {n}")

    # determinant
    for add_id in (True, False):
        det = U.jacobian_det(u, add_identity=add_id, **kw)
        expect_shape(det, (N, 1) + shape, "jacobian_det")
        for n in range(N):
            E = Ju[n] + (np.eye(D) if add_id else 0.0)
            m = max(1.0, float(np.abs(E).max()))
            bnd = math.factorial(D) * D * m ** (D - 1) * float(eu[n].max()) + 16 * eps * math.factorial(D) * m ** D
            close(det[n, 0], np.linalg.det(E), bnd, "jacobian_det" if add_id else "jacobian_det_no_identity",
                  f"det add_identity={add_id} item {n}")
    det_default = U.jacobian_det(u, **kw)
    close(det_default, U.jacobian_det(u, add_identity=True, **kw), 0.0, "jacobian_det_default", "default add_identity must be True")

    # divergence
    div = U.divergence(u, **kw)
    expect_shape(div, (N, 1) + shape, "divergence")
    for n in range(N):
        bnd = float(sum(eu[n, i, i] for i in range(D))) + 4 * eps * float(np.abs(np.diag(A[n])).sum())
        close(div[n, 0], np.trace(Ju[n], axis1=-2, axis2=-1), bnd, "divergence", f"item {n}")

    # curl
    curl = U.curl(u, **kw)
    expect_shape(curl, (N, 1 if D == 2 else 3) + shape, "curl")
    for n in range(N):
        if D == 2:
            pairs = [((1, 0), (0, 1))]
        else:
            pairs = [((2, 1), (1, 2)), ((0, 2), (2, 0)), ((1, 0), (0, 1))]
        for k, (p, q) in enumerate(pairs):
            bnd = float(eu[n][p] + eu[n][q]) + 4 * eps * float(abs(A[n][p]) + abs(A[n][q]))
            close(curl[n, k], Ju[n][(Ellipsis,) + p] - Ju[n][(Ellipsis,) + q], bnd, "curl", f"component {k} item {n}")

    # Lie bracket [v, u] = Jac(v) u - Jac(u) v with the per-point Jacobians (= B (A x + a) - A (B x + b) inside)
    lb = U.lie_bracket(v, u, **kw)
    expect_shape(lb, (N, D) + shape, "lie_bracket")
    expect_dtype(lb, dt, "lie_bracket")
    for n in range(N):
        un, vn = np.moveaxis(us[n], 0, -1), np.moveaxis(vs[n], 0, -1)  # (..., X, D)
        exp = np.einsum("...ij,...j->...i", Jv[n], un) - np.einsum("...ij,...j->...i", Ju[n], vn)
        M = B[n] @ A[n] - A[n] @ B[n]
        t = B[n] @ a[n] - A[n] @ b[n]
        inner = interior(D, 1)
        if np.abs(np.moveaxis(exp, -1, 0)[inner] - np.moveaxis(xs[n] @ M.T + t, -1, 0)[inner]).max() > 1e-9 * (1 + np.abs(exp).max()):
            raise AssertionError("harness: per-point Lie bracket differs from the closed form in the interior")
        for i in range(D):
            bnd = float(sum(ev[n, i, j] * maxu[n, j] + eu[n, i, j] * maxv[n, j] for j in range(D)))
            bnd += 8 * eps * float(sum(abs(B[n, i, j]) * maxu[n, j] + abs(A[n, i, j]) * maxv[n, j] for j in range(D)))
            close(lb[n, i], exp[..., i], bnd, "lie_bracket", f"component {i} item {n}")

    if not (torch.equal(u, u0) and torch.equal(v, v0)):
        raise Violation("input_modified", "a derivative function modified its input vector field")

    offd = all(any(abs(A[n, i, j]) > 0.02 for i in range(D) for j in range(D) if i != j) for n in range(N))
    nt = offd and (aniso(sp) or per_item(sp) or case["spform"] in ISO_FORMS)
    return {"ratio": worst, "nontrivial": nt,
            "labels": [f"D={D}", f"N={N}", f"mode={mode}", f"sp={case['spform']}", case["dtype"], case.get("layout", "contiguous"),
                       "aniso" if aniso(sp) else "iso", "per_item_spacing" if per_item(sp) else "shared_spacing",
                       "large" if max(shape) > 12 else "small"]}


# ---------------------------------------------------------------------------------------
# facet 2: quadratic fields, second derivatives in the interior


@st.composite
def quadratic_cases(draw):
    D = draw(gen.dims())
    N = draw(st.sampled_from([1, 1, 2]))
    shape = draw(st.lists(st.integers(5, 10 if D == 2 else 8), min_size=D, max_size=D))
    form, sp = draw(spacings_for(D, N, 0.5, 2.0))
    nq = D * D * (D + 1) // 2
    return {
        "D": D, "N": N, "shape": shape, "dtype": draw(gen.dtypes()), "mode": draw(st.sampled_from(MODES + [None])),
        "spform": form, "sp": sp,
        "A": [coef_lists(draw, D * D, -1.0, 1.0) for _ in range(N)], "a": [coef_lists(draw, D, -2.0, 2.0) for _ in range(N)],
        "Q": [coef_lists(draw, nq, -0.5, 0.5) for _ in range(N)],  # upper triangles of the D symmetric matrices
        "request": draw(st.sampled_from(["order", "which", "curvature"])),
        "layout": draw(st.sampled_from(["contiguous", "contiguous", "strided"])),
    }


def quadratic_grid(tier):
    """Every mode x D x dtype x N in {1,2,3} x request kind once; spacing forms cycle."""
    k = 0
    for mode, D, dtype, N, request in itertools.product(MODES + [None], (2, 3), ("float32", "float64"), (1, 2, 3),
                                                        ("order", "which", "curvature")):
        k += 1
        form = ALL_SPFORMS[k % len(ALL_SPFORMS)]
        nq = D * D * (D + 1) // 2
        yield {"D": D, "N": N, "shape": [[5, 7, 6], [6, 5, 8]][k % 2][:D], "dtype": dtype, "mode": mode, "spform": form,
               "sp": [list(x) for x in fixed_spacing(form, D, N, k)], "layout": "strided" if k % 5 == 0 else "contiguous",
               "A": [fixed_coef(1 + n + k, D * D) for n in range(N)], "a": [fixed_coef(3 + n, D) for n in range(N)],
               "Q": [[round(0.4 * q + 0.03, 3) for q in fixed_coef(2 + n + k, nq)] for n in range(N)], "request": request}


def sym_from_upper(vals, D):
    Q = np.zeros((D, D, D))
    it = iter(vals)
    for c in range(D):
        for i in range(D):
            for j in range(i, D):
                q = next(it)
                Q[c, i, j] = q if i == j else q / 2
                Q[c, j, i] = Q[c, i, j]
    return Q


def second_order_region(mode, shape, i, j):
    """(index tuple, weight array): where the second derivative d2/didj of a quadratic field, computed as the documented
    first-derivative scheme applied along i and then j, has the closed-form value weight * 2Q_ij.

    mixed keys, plain schemes: the first pass yields (face weight) x (derivative at the stencil midpoint), which is affine
      along j with slope 2Q_ij, so the value is 2Q_ij times the product of the two face weights at EVERY grid point
      (forward_central_backward: exact everywhere);
    unmixed keys: exact wherever both passes use complete stencils along i: all but the two samples next to a padded face
      (forward: upper, backward: lower, central: both); forward_central_backward, prewitt, sobel: two samples from both
      faces (the one-sided face difference is the derivative half a sample off); every position along the other axes;
    mixed keys, prewitt/sobel: two samples from the faces along i and j (replicate-padded smoothing of the bilinear term
      between the passes perturbs the two outer layers), every position along the remaining axis."""
    D = len(shape)
    idx = [slice(None)] * D
    wgt = np.ones((1,) * D)
    if i == j:
        n = shape[D - 1 - i]
        idx[D - 1 - i] = {"forward": slice(0, n - 2), "backward": slice(2, n)}.get(mode, slice(2, n - 2))
    elif mode in SMOOTHED:
        for d in (i, j):
            idx[D - 1 - d] = slice(2, shape[D - 1 - d] - 2)
    else:
        wgt = face_weights(mode, shape, i) * face_weights(mode, shape, j)
    return tuple(idx), wgt


def run_quadratic(case):
    from deepali.core import functional as U

    D, N, shape, mode = case["D"], case["N"], tuple(case["shape"]), case["mode"]
    dt = tdtype(case["dtype"])
    eps = eps_of(dt)
    sp = case["sp"]
    spacing = spacing_arg(case["spform"], sp)
    Qs = [sym_from_upper(case["Q"][n], D) for n in range(N)]
    us = [poly_field(shape, sp[n], case["A"][n], case["a"][n], Qs[n])[0] for n in range(N)]
    u = as_layout(torch.tensor(np.stack(us), dtype=dt), case.get("layout"))
    maxu = np.abs(np.stack(us)).reshape(N, D, -1).max(-1)
    allkeys = [f"d{CH[c]}/d{AX[i]}{AX[j]}" for c in range(D) for i in range(D) for j in range(D)]
    if case["request"] == "order":
        deriv = U.flow_derivatives(u, order=2, mode=mode, spacing=spacing)
        keys = allkeys
    elif case["request"] == "which":
        deriv = U.flow_derivatives(u, which=allkeys, mode=mode, spacing=spacing)
        keys = allkeys
    else:
        keys = [f"d{CH[c]}/d{AX[i]}{AX[i]}" for c in range(D) for i in range(D)]
        deriv = U.flow_derivatives(u, which=keys, mode=mode, spacing=spacing)
    if set(deriv.keys()) != set(keys):
        raise Violation("keys", f"flow_derivatives() returned keys {sorted(deriv)} instead of {keys}")
    worst = 0.0
    km = kmode(mode, D)
    for key in keys:
        c, i, j = CH.index(key[1]), AX.index(key[4]), AX.index(key[5])
        val = deriv[key]
        expect_shape(val, (N, 1) + shape, f"value of {key}")
        reg, wgt = second_order_region(mode, shape, i, j)
        for n in range(N):
            hi, hj = sp[n][i], sp[n][j]
            bnd = km * (4 * eps * maxu[n, c] / (hi * hj) + 2 * EPS32 * abs(2 * Qs[n][c, i, j]))
            worst = max(worst, check_close(val[n, 0][reg], (2 * Qs[n][c, i, j] * wgt * np.ones(shape))[reg], bnd, "second_derivative",
                                           f"{key} item {n} (mode={mode}, spacing {case['spform']})"))
        if i != j and case["request"] != "curvature":
            other = deriv[f"d{CH[c]}/d{AX[j]}{AX[i]}"]
            for n in range(N):  # same rounding-error budget as above for each of the two spellings, whole domain
                bnd = 2 * km * (4 * eps * maxu[n, c] / (sp[n][i] * sp[n][j]) + 2 * EPS32 * abs(2 * Qs[n][c, i, j]))
                worst = max(worst, check_close(other[n], val[n], bnd, "mixed_symmetry", f"{key} vs transposed spelling, item {n}"))
    nt = all(np.abs(Q).min() > 0.004 for Q in Qs) and max(shape) >= 6
    return {"ratio": worst, "nontrivial": nt,
            "labels": [f"D={D}", f"N={N}", f"mode={mode}", f"sp={case['spform']}", case["dtype"], f"request={case['request']}",
                       "aniso" if aniso(sp) else "iso", "per_item_spacing" if per_item(sp) else "shared_spacing"]}


# ---------------------------------------------------------------------------------------
# facet 3: key parsing - arbitrary requests vs the complete request


def expand_keys(which, D, order=None):
    """Key expansion as documented for flow_derivatives() / FlowDerivativeKeys (written from the docstrings)."""
    out = []
    for arg in which:
        m = re.fullmatch(r"(?:d([uvw]+)/d)?([xyz]+)", arg)
        channels = list(m.group(1)) if m.group(1) else list(CH[:D])
        if order is not None and len(m.group(2)) != order:
            continue
        for ch in channels:
            key = f"d{ch}/d{m.group(2)}"
            if key not in out:
                out.append(key)
    return out


@st.composite
def key_requests(draw, D):
    letters = AX[:D]
    n = draw(st.integers(1, 6))
    which = []
    for _ in range(n):
        order = draw(st.sampled_from([1, 1, 2, 2, 2]))
        derivs = "".join(draw(st.sampled_from(letters)) for _ in range(order))
        style = draw(st.sampled_from(["single", "single", "single", "multi", "short"]))
        if style == "short":
            which.append(derivs)
        elif style == "single":
            which.append(f"d{draw(st.sampled_from(CH[:D]))}/d{derivs}")
        else:
            chans = draw(st.lists(st.sampled_from(CH[:D]), min_size=2, max_size=D, unique=True))
            which.append(f"d{''.join(chans)}/d{derivs}")
    if draw(st.integers(0, 3)) == 0:
        which.append(draw(st.sampled_from(which)))  # duplicate entry
    return which


@st.composite
def subset_cases(draw):
    D = draw(gen.dims())
    N = draw(st.sampled_from([1, 2, 3]))
    mode = draw(st.sampled_from(MODES + [None, "bspline", "bspline"]))
    lo = 4 if mode == "bspline" else 5
    shape = draw(st.lists(st.integers(lo, 9 if D == 2 else 7), min_size=D, max_size=D))
    form, sp = draw(spacings_for(D, N, 0.25, 4.0))
    which = draw(key_requests(D))
    as_str = len(which) == 1 and draw(st.booleans())
    case = {
        "D": D, "N": N, "shape": shape, "dtype": draw(gen.dtypes()), "mode": mode, "spform": form, "sp": sp,
        "which": which[0] if as_str else which, "order": draw(st.sampled_from([None, None, 1, 2])),
        "key": draw(st.integers(0, 10 ** 6)),
        "stride": None, "stride_form": draw(st.sampled_from(["list", "tuple"])),
        "which_form": draw(st.sampled_from(["list", "list", "tuple"])),
    }
    if mode == "bspline":
        case["stride"] = draw(st.one_of(st.none(), st.integers(1, 3), st.lists(st.integers(1, 3), min_size=D, max_size=D)))
    return case


def run_subset(case):
    from deepali.core import functional as U

    D, N, shape, mode = case["D"], case["N"], tuple(case["shape"]), case["mode"]
    dt = tdtype(case["dtype"])
    eps = eps_of(dt)
    spacing = spacing_arg(case["spform"], case["sp"])
    u = torch.tensor(hash_noise((N, D) + shape, case["key"], -1.0, 1.0), dtype=dt)
    kw = dict(mode=mode, spacing=spacing)
    if case["stride"] is not None:
        kw["stride"] = stride_arg(case)
    which, order = case["which"], case["order"]
    if case.get("which_form") == "tuple" and not isinstance(which, str):
        which = tuple(which)
    hmin = np.array(case["sp"], dtype=np.float64).min(0)  # per axis, smallest over the batch
    umax = float(u.abs().max())

    def rounding_bound(letters):
        """Budget for two evaluations of the same derivative that may differ in summation order only."""
        if mode == "bspline":
            o = [letters.count(AX[d]) for d in range(D)]
            return 64 * eps * umax * math.prod(L1[k] for k in o) / math.prod(hmin[d] ** o[d] for d in range(D))
        return 16 * eps * umax * math.prod(2.0 / hmin[AX.index(l)] for l in letters)

    wlist = [which] if isinstance(which, str) else list(which)
    full = {}
    full.update(U.flow_derivatives(u, order=1, **kw))
    full.update(U.flow_derivatives(u, order=2, **kw))
    want_full = [f"d{CH[c]}/d{d}" for c in range(D) for d in
                 list(AX[:D]) + ["".join(p) for p in itertools.product(AX[:D], repeat=2)]]
    if set(full.keys()) != set(want_full):
        raise Violation("keys_full", f"order=1 and order=2 requests returned {sorted(full)}")
    sub = U.flow_derivatives(u, which=which, order=order, **kw)
    want = expand_keys(wlist, D, order)
    if set(sub.keys()) != set(want):
        raise Violation("keys", f"which={which!r}, order={order}: returned keys {list(sub)} instead of {want}")
    worst = 0.0
    for key in want:
        f = full[key]
        expect_shape(sub[key], tuple(f.shape), f"value of {key}")
        bnd = rounding_bound(key.split("/d")[1])
        worst = max(worst, check_close(sub[key], f, bnd, "subset_vs_full", f"{key} of which={which!r} (mode={mode})"))
    # both spellings of mixed derivatives
    for c in range(D):
        for i in range(D):
            for j in range(i + 1, D):
                p, q = full[f"d{CH[c]}/d{AX[i]}{AX[j]}"], full[f"d{CH[c]}/d{AX[j]}{AX[i]}"]
                worst = max(worst, check_close(q, p, rounding_bound(AX[i] + AX[j]), "mixed_symmetry",
                                               f"d{CH[c]}/d{AX[i]}{AX[j]} vs transposed (mode={mode})"))
    # spatial_derivatives() on all channels at once == per-component flow derivatives
    skeys = []
    for key in want:
        s = key.split("/d")[1]
        if s not in skeys:
            skeys.append(s)
    if skeys:
        sd = U.spatial_derivatives(u, which=skeys, **kw)
        if set(sd.keys()) != set(skeys):
            raise Violation("keys_spatial", f"spatial_derivatives(which={skeys}) returned keys {list(sd)}")
        for s in skeys:
            for c in range(D):
                f = full[f"d{CH[c]}/d{s}"]
                worst = max(worst, check_close(sd[s][:, c:c + 1], f, rounding_bound(s), "spatial_vs_flow",
                                               f"spatial_derivatives '{s}' channel {c} (mode={mode})"))
    # spatial_derivatives(): default request of a given order, and the order filter on an explicit request
    o = 2 if order == 2 else 1
    sd = U.spatial_derivatives(u, order=o, **kw)
    all_o = ["".join(p) for p in itertools.product(AX[:D], repeat=o)]
    if set(sd.keys()) != set(all_o):
        raise Violation("keys_spatial", f"spatial_derivatives(order={o}) returned keys {list(sd)} instead of {all_o}")
    for s_ in all_o:
        for c in range(D):
            worst = max(worst, check_close(sd[s_][:, c:c + 1], full[f"d{CH[c]}/d{s_}"], rounding_bound(s_), "spatial_vs_flow",
                                           f"spatial_derivatives(order={o}) '{s_}' channel {c} (mode={mode})"))
    if skeys and order is not None:
        mixed_req = skeys + [AX[0], AX[1] * 2]
        sd = U.spatial_derivatives(u, which=mixed_req, order=order, **kw)
        want_sd = [k for k in mixed_req if len(k) == order]
        if set(sd.keys()) != set(want_sd):
            raise Violation("keys_spatial", f"spatial_derivatives(which={mixed_req}, order={order}) returned keys {list(sd)}")
    mixed = any(len(set(k.split("/d")[1])) > 1 for k in want)
    return {"ratio": worst, "nontrivial": len(want) >= 2,
            "labels": [f"D={D}", f"N={N}", f"mode={mode}", f"order={order}", "mixed" if mixed else "unmixed",
                       "which=str" if isinstance(which, str) else "which=list",
                       "shorthand" if any("/" not in w for w in wlist) else "explicit",
                       "multichannel" if any(re.match(r"d[uvw]{2,}/", w) for w in wlist) else "singlechannel",
                       "dup" if len(set(wlist)) < len(wlist) else "nodup", "empty" if not want else "nonempty"]}


# ---------------------------------------------------------------------------------------
# facet 4: B-spline mode against an independent tensor-product evaluator


def stride_arg(case):
    st_ = case["stride"]
    return tuple(st_) if isinstance(st_, list) and case.get("stride_form") == "tuple" else st_


def bspline_reference(coef, stride, order):
    """coef (..., X) float64 of one channel; stride / order per spatial dim in (x, ...) order."""
    D = coef.ndim
    out = coef
    for d in range(D):
        axis = D - 1 - d
        s = stride[d]
        n = coef.shape[axis]
        uu = 1.0 + np.arange((n - 3) * s, dtype=np.float64) / s
        out = ref.bspline_eval_1d(out, uu, derivative=order[d], axis=axis)
    return out




@st.composite
def bspline_cases(draw):
    D = draw(gen.dims())
    N = draw(st.sampled_from([1, 2, 3]))
    shape = draw(st.lists(st.integers(4, 9 if D == 2 else 7), min_size=D, max_size=D))
    form, sp = draw(spacings_for(D, N, 0.25, 4.0))
    return {
        "D": D, "N": N, "shape": shape, "dtype": draw(gen.dtypes()), "spform": form, "sp": sp,
        "stride": draw(st.one_of(st.none(), st.integers(1, 4), st.lists(st.integers(1, 4), min_size=D, max_size=D))),
        "content": draw(st.sampled_from(["noise", "affine", "noise+affine"])),
        "A": coef_lists(draw, D * D, -1.0, 1.0), "a": coef_lists(draw, D, -2.0, 2.0),
        "key": draw(st.integers(0, 10 ** 6)),
        "which": draw(key_requests(D)),
        "stride_form": draw(st.sampled_from(["list", "tuple"])),
        "layout": draw(st.sampled_from(["contiguous", "contiguous", "strided"])),
    }


def bspline_grid(tier):
    """Every stride form x D x spacing form x dtype x N in {1,2,3} once."""
    k = 0
    strides = [(None, "list"), (1, "list"), (2, "list"), (3, "list"), ([2, 1, 3], "list"), ([1, 3, 2], "tuple")]
    for (stride, sform), D, form, dtype, N in itertools.product(strides, (2, 3), ALL_SPFORMS, ("float32", "float64"), (1, 2, 3)):
        k += 1
        letters = AX[:D]
        which = [f"d{CH[k % D]}/d{letters[k % D]}", letters[(k + 1) % D] + letters[k % D], f"d{CH[:D]}/d{letters[(k // 2) % D] * 2}"]
        yield {"D": D, "N": N, "shape": [[5, 7, 6], [6, 4, 8]][k % 2][:D], "dtype": dtype, "spform": form,
               "sp": [list(x) for x in fixed_spacing(form, D, N, k)], "stride": stride[:D] if isinstance(stride, list) else stride,
               "stride_form": sform, "content": "noise+affine", "A": fixed_coef(k, D * D), "a": fixed_coef(k + 1, D), "key": k,
               "which": which, "layout": "strided" if k % 5 == 0 else "contiguous"}


def run_bspline(case):
    from deepali.core import functional as U

    D, N, shape = case["D"], case["N"], tuple(case["shape"])
    dt = tdtype(case["dtype"])
    eps = eps_of(dt)
    sp = case["sp"]
    spacing = spacing_arg(case["spform"], sp)
    stride = case["stride"]
    sl = [1] * D if stride is None else ([stride] * D if isinstance(stride, int) else list(stride))
    coef = np.zeros((N, D) + shape)
    if "noise" in case["content"]:
        coef += hash_noise((N, D) + shape, case["key"], -1.0, 1.0)
    if "affine" in case["content"]:
        for n in range(N):
            coef[n] += poly_field(shape, [1.0] * D, np.array(case["A"]) / (n + 1), case["a"])[0]
    u = as_layout(torch.tensor(coef, dtype=dt), case.get("layout"))
    coef = u.double().numpy()  # the coefficients deepali sees
    u0 = u.clone()
    kw = dict(mode="bspline", spacing=spacing)
    if stride is not None:
        kw["stride"] = stride_arg(case)
    oshape = tuple((n - 3) * s for n, s in zip(shape, sl[::-1]))
    maxc = np.abs(coef).reshape(N, D, -1).max(-1)
    worst = 0.0

    def reference(n, c, letters):
        order = [letters.count(AX[d]) for d in range(D)]
        val = bspline_reference(coef[n, c], sl, order)
        den = math.prod(sp[n][d] ** order[d] for d in range(D))
        cond = maxc[n, c] * math.prod(L1[o] for o in order) / den
        return val / den, 64 * eps * cond + 4 * sum(order) * EPS32 * cond

    which = expand_keys(case["which"], D)
    deriv = U.flow_derivatives(u, which=case["which"], **kw)
    if set(deriv.keys()) != set(which):
        raise Violation("keys", f"which={case['which']!r}: returned keys {list(deriv)} instead of {which}")
    for key in which:
        c, letters = CH.index(key[1]), key.split("/d")[1]
        expect_shape(deriv[key], (N, 1) + oshape, f"value of {key} (stride={stride})")
        expect_dtype(deriv[key], dt, f"value of {key}")
        for n in range(N):
            exp, bnd = reference(n, c, letters)
            worst = max(worst, check_close(deriv[key][n, 0], exp, bnd, "bspline_derivative",
                                           f"{key} item {n} (stride={stride}, spacing {case['spform']})"))

    # derived quantities assembled from the reference first derivatives
    J = np.zeros((N,) + oshape + (D, D))
    EJ = np.zeros((N, D, D))
    for n in range(N):
        for c in range(D):
            for j in range(D):
                J[n][..., c, j], EJ[n, c, j] = reference(n, c, AX[j])
    jm = U.jacobian_matrix(u, **kw)
    expect_shape(jm, (N,) + oshape + (D, D), "jacobian_matrix (bspline)")
    for n in range(N):
        worst = max(worst, check_close(jm[n], J[n], float(EJ[n].max()), "bspline_jacobian", f"item {n} stride={stride}"))
    for add_id in (True, False):
        det = U.jacobian_det(u, add_identity=add_id, **kw)
        expect_shape(det, (N, 1) + oshape, "jacobian_det (bspline)")
        for n in range(N):
            E = J[n] + (np.eye(D) if add_id else 0.0)
            m = max(1.0, float(np.abs(E).max()))
            bnd = math.factorial(D) * D * m ** (D - 1) * float(EJ[n].max()) + 16 * eps * math.factorial(D) * m ** D
            worst = max(worst, check_close(det[n, 0], np.linalg.det(E), bnd,
                                           "bspline_jacobian_det" if add_id else "bspline_jacobian_det_no_identity",
                                           f"item {n} stride={stride}"))
    div = U.divergence(u, **kw)
    curl = U.curl(u, **kw)
    expect_shape(div, (N, 1) + oshape, "divergence (bspline)")
    expect_shape(curl, (N, 1 if D == 2 else 3) + oshape, "curl (bspline)")
    for n in range(N):
        m = float(np.abs(J[n]).max())
        bnd = D * float(EJ[n].max()) + 4 * D * eps * m
        worst = max(worst, check_close(div[n, 0], np.trace(J[n], axis1=-2, axis2=-1), bnd, "bspline_divergence", f"item {n}"))
        if D == 2:
            ec = (J[n][..., 1, 0] - J[n][..., 0, 1])[None]
        else:
            ec = np.stack([J[n][..., 2, 1] - J[n][..., 1, 2], J[n][..., 0, 2] - J[n][..., 2, 0], J[n][..., 1, 0] - J[n][..., 0, 1]])
        worst = max(worst, check_close(curl[n], ec, bnd, "bspline_curl", f"item {n}"))
    if not torch.equal(u, u0):
        raise Violation("input_modified", "a derivative function modified its input (mode=bspline)")
    orders = {len(k.split("/d")[1]) for k in which}
    return {"ratio": worst, "nontrivial": "noise" in case["content"] and (max(sl) > 1 or aniso(sp)),
            "labels": [f"D={D}", f"N={N}", f"sp={case['spform']}", case["dtype"], case["content"],
                       "stride=None" if stride is None else ("stride=int" if isinstance(stride, int) else f"stride={case.get('stride_form', 'list')}"),
                       case.get("layout", "contiguous"),
                       f"max_stride={max(sl)}", "aniso_stride" if len(set(sl)) > 1 else "iso_stride",
                       "order2" if 2 in orders else "order1", "per_item_spacing" if per_item(sp) else "shared_spacing"]}


# ---------------------------------------------------------------------------------------
# facet 5: every scheme against an independent numpy model of the documented stencils, arbitrary (non-polynomial) fields


def fd_ref(f, axis, h, scheme):
    """First difference of float64 array f along `axis` with step h: forward/backward/central differences of the
    replicate-padded array, or ('fcb') central differences with one-sided differences on the two faces."""
    f = np.moveaxis(f, axis, -1)
    d = np.empty_like(f)
    if scheme == "forward":
        d[..., :-1] = (f[..., 1:] - f[..., :-1]) / h
        d[..., -1] = 0.0
    elif scheme == "backward":
        d[..., 1:] = (f[..., 1:] - f[..., :-1]) / h
        d[..., 0] = 0.0
    elif scheme == "central":
        d[..., 1:-1] = (f[..., 2:] - f[..., :-2]) / (2 * h)
        d[..., 0] = (f[..., 1] - f[..., 0]) / (2 * h)
        d[..., -1] = (f[..., -1] - f[..., -2]) / (2 * h)
    elif scheme == "fcb":
        d[..., 1:-1] = (f[..., 2:] - f[..., :-2]) / (2 * h)
        d[..., 0] = (f[..., 1] - f[..., 0]) / h
        d[..., -1] = (f[..., -1] - f[..., -2]) / h
    else:
        raise ValueError(scheme)
    return np.moveaxis(d, -1, axis)


def corr_ref(f, axis, w):
    """Correlation of f along `axis` with the odd-length weights w, replicate-padded, same size."""
    r = len(w) // 2
    g = np.moveaxis(f, axis, -1)
    n = g.shape[-1]
    p = np.concatenate([g[..., :1]] * r + [g] + [g[..., -1:]] * r, axis=-1)
    out = sum(w[k] * p[..., k:k + n] for k in range(2 * r + 1))
    return np.moveaxis(out, -1, axis)


def gauss_radius(sigma):
    """Truncation radius of the Gaussian kernel: three standard deviations, rounded down (gaussian_kernel_radius)."""
    return int(math.floor(3 * sigma + 1e-6)) if sigma else 0


def gauss_ref(f, sigma):
    """Separable, normalised, sampled Gaussian of standard deviation sigma (grid units) truncated at gauss_radius."""
    r = gauss_radius(sigma)
    if r == 0:
        return f
    x = np.arange(-r, r + 1, dtype=np.float64)
    w = np.exp(-0.5 * (x / sigma) ** 2)
    w /= w.sum()
    for axis in range(f.ndim):
        f = corr_ref(f, axis, w)
    return f


AVG = {"prewitt": np.array([1.0, 1.0, 1.0]) / 3.0, "sobel": np.array([1.0, 2.0, 1.0]) / 4.0}


def deriv_ref(f, letters, h, mode, sigma, eps):
    """Documented derivative of one scalar float64 array f (..., X) and a bound of the rounding error of an evaluation in
    arithmetic of precision eps (spacing and Gaussian weights in float32).

    letters: derivative key ('x', 'xy', ...); derivatives are taken one after the other in sorted key order, each pass being
    the scheme of `mode` (prewitt/sobel: [1,1,1]/3 resp. [1,2,1]/4 smoothing along all other axes, then central differences
    with one-sided face differences); h: spacing per spatial dim (x first)."""
    D = f.ndim
    M = float(np.abs(f).max())
    e = 0.0
    if gauss_radius(sigma) > 0:
        f = gauss_ref(f, sigma)
        e += D * (2 * eps + 16 * EPS32) * M  # D passes with float32 weights exp(-x^2/(2 sigma^2)), |x/sigma| <= 3
    scheme = "fcb" if mode in (None, "forward_central_backward") + SMOOTHED else mode
    for l in sorted(letters):
        j = AX.index(l)
        if mode in SMOOTHED:
            for d in range(D):
                if d != j:
                    f = corr_ref(f, D - 1 - d, AVG[mode])
                    e += 2 * eps * M
        f = fd_ref(f, D - 1 - j, h[j], scheme)
        M = 2 * M / h[j]  # |difference| <= 2 max|f| / h (one-sided face differences)
        e = 2 * e / h[j] + (2 * eps + EPS32) * M
    return f, K * e


def noise_field(shape, N, D, key, content, sp, A, Q):
    """(N, D, ..., X) float64: hash noise in [-1, 1] (+ a quadratic polynomial per item)."""
    u = hash_noise((N, D) + tuple(shape), key, -1.0, 1.0)
    if content == "noise+poly":
        for n in range(N):
            u[n] += poly_field(shape, sp[n], A, [0.0] * D, sym_from_upper(Q, D))[0]
    return u


@st.composite
def stencil_cases(draw):
    D = draw(gen.dims())
    N = draw(st.sampled_from([1, 1, 2]))
    sigma = draw(st.sampled_from([None, None, None, None, 0, 0.3, 0.5, 0.7, 0.8, 1.0, 1.2]))
    lo = max(5, 2 * (gauss_radius(sigma) + 2) + 1)
    shape = draw(st.lists(st.integers(lo, lo + (4 if D == 2 else 2)), min_size=D, max_size=D))
    form, sp = draw(spacings_for(D, N, 0.5, 2.0))
    nq = D * D * (D + 1) // 2
    return {
        "D": D, "N": N, "shape": shape, "dtype": draw(gen.dtypes()), "mode": draw(st.sampled_from(MODES + [None])),
        "sigma": sigma, "spform": form, "sp": sp, "key": draw(st.integers(0, 10 ** 6)),
        "content": draw(st.sampled_from(["noise", "noise", "noise+poly"])),
        "A": coef_lists(draw, D * D, -1.0, 1.0), "Q": coef_lists(draw, nq, -0.5, 0.5),
        "layout": draw(st.sampled_from(["contiguous", "contiguous", "strided"])),
    }


def stencil_grid(tier):
    """Every mode x D x dtype x sigma class (none / 0 / radius 1 / radius 2) once."""
    k = 0
    for mode, D, dtype, sigma in itertools.product(MODES + [None], (2, 3), ("float32", "float64"), (None, 0, 0.5, 0.8)):
        k += 1
        N = 1 + k % 2
        form = ALL_SPFORMS[k % len(ALL_SPFORMS)]
        lo = max(5, 2 * (gauss_radius(sigma) + 2) + 1)
        nq = D * D * (D + 1) // 2
        yield {"D": D, "N": N, "shape": [lo + (k + d) % 3 for d in range(D)], "dtype": dtype, "mode": mode, "sigma": sigma,
               "spform": form, "sp": [list(x) for x in fixed_spacing(form, D, N, k)], "key": k,
               "content": "noise+poly" if k % 3 == 0 else "noise", "A": fixed_coef(k, D * D),
               "Q": [round(0.4 * q + 0.03, 3) for q in fixed_coef(2 + k, nq)], "layout": "strided" if k % 5 == 0 else "contiguous"}


def run_stencil(case):
    from deepali.core import functional as U

    D, N, shape, mode, sigma = case["D"], case["N"], tuple(case["shape"]), case["mode"], case["sigma"]
    dt = tdtype(case["dtype"])
    eps = eps_of(dt)
    sp = case["sp"]
    spacing = spacing_arg(case["spform"], sp)
    u = as_layout(torch.tensor(noise_field(shape, N, D, case["key"], case["content"], sp, case["A"], case["Q"]), dtype=dt), case.get("layout"))
    v = as_layout(torch.tensor(noise_field(shape, N, D, case["key"] + 1, "noise", sp, None, None), dtype=dt), case.get("layout"))
    u0 = u.clone()
    un, vn = u.double().numpy(), v.double().numpy()  # the samples deepali sees
    kw = dict(mode=mode, spacing=spacing, sigma=sigma)
    r = gauss_radius(sigma)
    worst = 0.0

    def region(order):
        # with Gaussian pre-smoothing only samples that no stencil chain connects to the (padded) faces are compared
        return interior(D, r + order if r > 0 else 0)

    def close(actual, expected, bound, kind, what, order=1):
        nonlocal worst
        reg = region(order)
        worst = max(worst, check_close(actual[reg], expected[reg], bound, kind, f"{what} (mode={mode}, sigma={sigma}, spacing {case['spform']})"))

    # first and second derivatives of every component
    d1 = U.flow_derivatives(u, order=1, **kw)
    d2 = U.flow_derivatives(u, order=2, **kw)
    R = [[{} for _ in range(D)] for _ in range(N)]  # R[n][c][letters] = (reference, bound)
    for n in range(N):
        for c in range(D):
            for letters in list(AX[:D]) + ["".join(p) for p in itertools.product(AX[:D], repeat=2)]:
                R[n][c][letters] = deriv_ref(un[n, c], letters, sp[n], mode, sigma, eps)
                got = (d1 if len(letters) == 1 else d2)[f"d{CH[c]}/d{letters}"]
                expect_shape(got, (N, 1) + shape, f"value of d{CH[c]}/d{letters}")
                expect_dtype(got, dt, f"value of d{CH[c]}/d{letters}")
                close(got[n, 0], R[n][c][letters][0], R[n][c][letters][1],
                      "stencil_first_derivative" if len(letters) == 1 else "stencil_second_derivative",
                      f"d{CH[c]}/d{letters} item {n}", order=len(letters))

    # derived quantities assembled from the reference first derivatives
    jm = U.jacobian_matrix(u, **kw)
    det = U.jacobian_det(u, **kw)
    div = U.divergence(u, **kw)
    curl = U.curl(u, **kw)
    lb = U.lie_bracket(v, u, **kw)
    for n in range(N):
        J = np.stack([np.stack([R[n][c][AX[j]][0] for j in range(D)], -1) for c in range(D)], -2)  # (..., X, D, D)
        EJ = np.array([[R[n][c][AX[j]][1] for j in range(D)] for c in range(D)])
        JV = np.stack([np.stack([deriv_ref(vn[n, c], AX[j], sp[n], mode, sigma, eps)[0] for j in range(D)], -1) for c in range(D)], -2)
        EV = np.array([[deriv_ref(vn[n, c], AX[j], sp[n], mode, sigma, eps)[1] for j in range(D)] for c in range(D)])
        for c in range(D):
            for j in range(D):
                close(jm[n][..., c, j], J[..., c, j], EJ[c, j], "stencil_jacobian_matrix", f"J[{c},{j}] item {n}")
        E = J + np.eye(D)
        m = max(1.0, float(np.abs(E).max()))
        bnd = math.factorial(D) * D * m ** (D - 1) * float(EJ.max()) + 16 * eps * math.factorial(D) * m ** D
        close(det[n, 0], np.linalg.det(E), bnd, "stencil_jacobian_det", f"item {n}")
        mj = float(np.abs(J).max())
        close(div[n, 0], np.trace(J, axis1=-2, axis2=-1), D * float(EJ.max()) + 4 * D * eps * mj, "stencil_divergence", f"item {n}")
        if D == 2:
            ec = (J[..., 1, 0] - J[..., 0, 1])[None]
        else:
            ec = np.stack([J[..., 2, 1] - J[..., 1, 2], J[..., 0, 2] - J[..., 2, 0], J[..., 1, 0] - J[..., 0, 1]])
        for k in range(ec.shape[0]):
            close(curl[n, k], ec[k], 2 * float(EJ.max()) + 8 * eps * mj, "stencil_curl", f"component {k} item {n}")
        uu, vv = np.moveaxis(un[n], 0, -1), np.moveaxis(vn[n], 0, -1)
        exp = np.einsum("...ij,...j->...i", JV, uu) - np.einsum("...ij,...j->...i", J, vv)
        mu, mv = np.abs(un[n]).reshape(D, -1).max(-1), np.abs(vn[n]).reshape(D, -1).max(-1)
        for i in range(D):
            bnd = float(sum(EV[i, j] * mu[j] + EJ[i, j] * mv[j] for j in range(D)))
            bnd += 8 * eps * float(sum(np.abs(JV[..., i, j]).max() * mu[j] + np.abs(J[..., i, j]).max() * mv[j] for j in range(D)))
            close(lb[n, i], exp[..., i], bnd, "stencil_lie_bracket", f"component {i} item {n}")

    if not torch.equal(u, u0):
        raise Violation("input_modified", "a derivative function modified its input vector field")
    return {"ratio": worst, "nontrivial": True,
            "labels": [f"D={D}", f"N={N}", f"mode={mode}", case["dtype"], case["content"],
                       "sigma=None" if sigma is None else ("sigma=0" if sigma == 0 else f"gauss_radius={r}"),
                       f"sp={case['spform']}", "per_item_spacing" if per_item(sp) else "shared_spacing", case.get("layout", "contiguous")]}


# ---------------------------------------------------------------------------------------


def selftest():
    """Reference sanity: the B-spline evaluator reproduces polynomials up to degree 3 (known closed forms)."""
    k = np.arange(9, dtype=np.float64)
    uu = 1.0 + np.arange(6 * 4) / 4.0
    # coefficients k -> spline u ; k^2 -> u^2 + 1/3 ; k^3 -> u^3 + u
    for coef, f0, f1, f2 in [
        (k, uu, np.ones_like(uu), np.zeros_like(uu)),
        (k ** 2, uu ** 2 + 1 / 3, 2 * uu, 2 * np.ones_like(uu)),
        (k ** 3, uu ** 3 + uu, 3 * uu ** 2 + 1, 6 * uu),
    ]:
        for d, f in enumerate((f0, f1, f2)):
            got = bspline_reference(coef, [4], [d])
            if got.shape != f.shape or np.abs(got - f).max() > 1e-9 * max(1.0, np.abs(f).max()):
                raise AssertionError(f"bspline reference: derivative {d} of polynomial coefficients wrong")
    # tensor-product: c[y, x] = x*y -> d2/dxdy = 1
    c2 = np.outer(np.arange(6.0), np.arange(7.0))
    got = bspline_reference(c2, [2, 3], [1, 1])
    if got.shape != (9, 8) or np.abs(got - 1).max() > 1e-9:
        raise AssertionError("bspline reference: tensor-product mixed derivative wrong")
    # key expansion rule
    assert expand_keys(["x", "duw/dyx", "dv/dx"], 3) == ["du/dx", "dv/dx", "dw/dx", "du/dyx", "dw/dyx"]
    assert expand_keys(["x", "du/dxy"], 2, order=2) == ["du/dxy"]
    # stencil reference model: documented face values on a ramp, exactness on polynomials, smoothing preserves ramps inside
    ramp = np.add.outer(3.0 * np.arange(6.0), 0.5 * np.arange(7.0))  # f[y, x] = 3 y + 0.5 x, unit spacing
    for mode, (lo, hi) in list(FACE.items()) + [("forward_central_backward", (1, 1)), ("prewitt", (1, 1)), ("sobel", (1, 1)), (None, (1, 1))]:
        dx = deriv_ref(ramp, "x", [1.0, 1.0], mode, None, EPS64)[0]
        dy = deriv_ref(ramp, "y", [1.0, 2.0], mode, None, EPS64)[0]
        assert np.allclose(dx[:, 1:-1], 0.5) and np.allclose(dx[:, 0], 0.5 * lo) and np.allclose(dx[:, -1], 0.5 * hi), mode
        assert np.allclose(dy[1:-1], 1.5) and np.allclose(dy[0], 1.5 * lo) and np.allclose(dy[-1], 1.5 * hi), mode
        assert np.allclose(dx, jacobian_field(np.array([[0.5, 3.0], [0, 0]]), (6, 7), mode)[..., 0, 0]), mode
        assert np.allclose(deriv_ref(ramp * ramp, "yx", [1.0, 1.0], mode, None, EPS64)[0][2:-2, 2:-2], 3.0), mode
    g = gauss_ref(ramp, 0.8)
    assert gauss_radius(0.8) == 2 and gauss_radius(0.3) == 0 and gauss_radius(None) == 0 and gauss_radius(1.0) == 3
    assert np.allclose(g[2:-2, 2:-2], ramp[2:-2, 2:-2]) and not np.allclose(g[0], ramp[0])
    alt = np.cos(np.pi * np.arange(9.0))[None].repeat(5, 0)  # Nyquist pattern along x: sobel/prewitt differ in the y-derivative
    assert np.allclose(corr_ref(alt, 1, AVG["sobel"])[:, 1:-1], 0.0) and np.allclose(corr_ref(alt, 1, AVG["prewitt"])[:, 1:-1], -alt[:, 1:-1] / 3)
    # analytic field helper: x component first
    u, x = poly_field((2, 3), [0.5, 2.0], [1, 0, 0, 1], [0, 0])
    assert u.shape == (2, 2, 3) and u[0, 1, 2] == 1.0 and u[1, 1, 2] == 2.0


FACETS = [
    Facet("affine_first_order", run_affine, strategy=affine_cases,
          rule="affine u=Ax+a, v=Bx+b at x=index*spacing; D, shape 5..12 (sometimes up to 24), N 1..4, dtype, 6 FD modes + default, 10 spacing forms, contiguous/strided input; "
               "flow_derivatives/jacobian_matrix/jacobian_dict/jacobian_det(+-identity)/divergence/curl/lie_bracket vs analytic at every grid point "
               "(documented face values of the replicate-padded forward/backward/central schemes, exact on the faces otherwise); "
               "plus the complete grid mode x D x spacing form x dtype x N in 1..3 (840 fixed cases); "
               "non-trivial = every item has a non-zero off-diagonal of A and the spacing is anisotropic, per-item or isotropic-form",
          quick=500, thorough=32000, shards=16, quick_shards=4,
          enumerate=affine_grid, exhaustive_tiers=("quick", "thorough")),
    Facet("quadratic_second_order", run_quadratic, strategy=quadratic_cases,
          rule="quadratic fields, all order-2 keys (order=2 / explicit list / unmixed only), values 2Q on the per-mode/key region where the scheme is exact "
               "(mixed keys of forward/backward/central/forward_central_backward: every grid point, times the face weights), "
               "both spellings of mixed keys equal; plus the grid mode x D x dtype x N in 1..3 x request kind (252 fixed cases); non-trivial = all |Q| entries > 0.004 and max shape >= 6",
          quick=500, thorough=20000, shards=16, quick_shards=2,
          enumerate=quadratic_grid, exhaustive_tiers=("quick", "thorough")),
    Facet("key_subsets", run_subset, strategy=subset_cases,
          rule="hash-noise fields, random key requests (1-6 entries: explicit, multi-channel, shorthand, duplicates, str or list, "
               "optional order filter) in every mode incl. bspline vs the complete order-1 + order-2 request and vs "
               "spatial_derivatives on all channels; non-trivial = at least two keys returned",
          quick=600, thorough=24000, shards=16, quick_shards=2),
    Facet("bspline_mode", run_bspline, strategy=bspline_cases,
          rule="coefficient lattices (noise / affine / both), shapes 4..9, stride None/int/per-axis list in 1..4, all spacing forms; "
               "requested derivatives of order <= 2, Jacobian, determinant, divergence, curl vs tensor-product reference spline; "
               "plus the grid stride form x D x spacing form x dtype x N in 1..3 (720 fixed cases); "
               "non-trivial = noise content and (stride > 1 or anisotropic spacing)",
          quick=300, thorough=20000, shards=16, quick_shards=2,
          enumerate=bspline_grid, exhaustive_tiers=("quick", "thorough")),
    Facet("stencil_reference", run_stencil, strategy=stencil_cases,
          rule="hash-noise fields (optionally + quadratic polynomial), D, N 1..2, shapes 5..9 (up to 13 with pre-smoothing), dtype, 6 FD modes + "
               "default, sigma in {None, 0, 0.3 (radius 0), 0.5 .. 1.2 (radius 1..3)}, all spacing forms, contiguous/strided; all first and "
               "second derivatives, Jacobian matrix, determinant, divergence, curl, Lie bracket vs a numpy model of the documented stencils "
               "(whole domain incl. faces without pre-smoothing, samples not connected to the faces with it); plus the grid mode x D x "
               "dtype x sigma class (112 fixed cases); every case is non-trivial (noise content)",
          quick=200, thorough=8000, shards=16, quick_shards=2,
          enumerate=stencil_grid, exhaustive_tiers=("quick", "thorough")),
]
