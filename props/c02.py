"""C02 - Grid <-> world convention agrees with ITK for every oriented image geometry.

The oracle is a second implementation: SimpleITK (ITK's image geometry).  An ITK image is given
the same size / origin / spacing / direction (row-major flattened) as the deepali ``Grid`` and
ITK's ``TransformContinuousIndexToPhysicalPoint`` / ``TransformPhysicalPointToContinuousIndex``
(float64) are compared with ``Grid.index_to_world`` / ``Grid.world_to_index``; SimpleITK header
accessors, ``GetPixel`` and its file readers are compared with the header conversions.
"""
from __future__ import annotations

import os
import shutil
import tempfile

import numpy as np
import torch
from hypothesis import strategies as st

from vlib import gen, ref
from vlib.case import hash_noise, tdtype
from vlib.core import EPS32, EPS64, Facet, Skip, Violation, check_close

PROPERTY = "C02"
MANIFEST = {
    "text": "Generated oriented image geometries (D in {2,3}, sizes 1..64, anisotropic spacings, origins in [-500,500], "
            "identity / signed-permutation / general-rotation / reflection directions) are given both to deepali.core.Grid "
            "(routes origin=, center= with the center computed by an independent float64 model, and Grid.from_sitk) and to a "
            "SimpleITK image; Grid.index_to_world / world_to_index are compared with ITK's continuous index <-> physical point "
            "maps at indices inside and up to 10 samples outside the image; header conversions (Grid.from_sitk, Image.sitk, "
            "Image.from_sitk, Grid.from_file / from_reader on MetaImage, NRRD and NIfTI files written by SimpleITK) are compared "
            "field by field and pixel by pixel (scalar and multi-channel); the anchors origin = position of sample 0, "
            "direction columns = unit steps, stored center = position of index (n-1)/2 are checked against ITK; "
            "Grid(origin=, center=) with both given accepts float64-consistent pairs and rejects grossly inconsistent ones; the numpy "
            "GridAttrs of utils.simpleitk (maps, header, center property, center= route) is compared with ITK at float64 accuracy; grids with a "
            "history (1-2 derivation steps with deepali's own Grid methods from a parent that was already used) are compared with ITK for "
            "the header they themselves report and write. Exploration, "
            "not proof; the discrete errors aimed at (transposed direction, n vs n-1, swapped axes) are >= 4 orders of "
            "magnitude above the bounds.",
    "note": "Trusted: SimpleITK 2.x (ITK 5) image geometry, GetPixel, numpy bridge and file IO; vlib.ref.GridModel only to "
            "derive the equivalent center and the condition numbers (self-tested against SimpleITK before every run). "
            "Tolerances 64*eps32*condition (world, index) and 8*eps32 relative (header fields) because deepali stores "
            "grid attributes in float32.",
    "technique": "property-based testing (Hypothesis) with differential testing against a second implementation (SimpleITK)",
}
ASSUMPTIONS = [
    "grids: size 1..64 per axis (1..8 where pixel data or files are involved), spacing in [0.05, 20], |origin| <= 500, "
    "direction orthonormal with |det| = 1 (reflections are generated too: ITK and Grid.direction_ both accept them)",
    "continuous indices in [-10, n+9] per axis (plus optional far world points with |p| <= 1000 for world_to_index)",
    "file formats .mha, .nrrd, .nii.gz as written by SimpleITK; the header as re-read by SimpleITK is the reference for "
    "NIfTI (which stores float32), the generated header for the lossless formats",
    "Grid(origin=, center=): 'inconsistent' is only asserted for a center displaced by the whole grid extent along every axis",
    "GridAttrs.center is compared with the ITK position of index (n-1)/2 (the convention of the property statement and of "
    "deepali.core.Grid); on the pinned tree the property and the center= argument raise before any convention can be observed",
    "derived grids: the geometry handed to ITK is the one the derived Grid object reports (size, spacing, direction, center); how "
    "deepali derives those attributes is property C03's subject; half of the derived grids have a fractional internal size (downsample() of an odd size, resample() to a non-dividing "
    "spacing; size() is its ceiling), where the maps and origin() are compared but no image is written; steps that resize an axis with "
    "a single sample or leave fewer samples than requested are not generated (skipped and counted)",
    "pixel types uint8, int16, int32, float32, float64 (SimpleITK has no bool/float16; deepali documents the uint16->int32 and "
    "uint32->int64 widening of tensor_from_image, which is not generated)",
]

K_MAP = 64.0
K_HDR = 8.0
ROUTES = ["origin", "center", "sitk"]


# ---------------------------------------------------------------------------------------
# SimpleITK side (no deepali)


def _sitk():
    import SimpleITK as sitk

    return sitk


def itk_image(m: ref.GridModel, array: np.ndarray = None, vector: bool = False):
    """SimpleITK image with the geometry of model `m`; pixel data from `array` ((..., X[, C]) layout) or zeros."""
    sitk = _sitk()
    size = [int(v) for v in m.n]
    if array is None:
        img = sitk.Image(size, sitk.sitkUInt8)
    else:
        img = sitk.GetImageFromArray(array, isVector=vector)
    img.SetOrigin([float(v) for v in m.o])
    img.SetSpacing([float(v) for v in m.s])
    img.SetDirection([float(v) for v in m.R.flatten()])  # row-major, as SimpleITK expects
    return img


def itk_index_to_world(img, idx: np.ndarray) -> np.ndarray:
    pts = np.asarray(idx, dtype=np.float64).reshape(-1, img.GetDimension())
    return np.array([img.TransformContinuousIndexToPhysicalPoint([float(v) for v in p]) for p in pts])


def itk_world_to_index(img, pts: np.ndarray) -> np.ndarray:
    pts = np.asarray(pts, dtype=np.float64).reshape(-1, img.GetDimension())
    return np.array([img.TransformPhysicalPointToContinuousIndex([float(v) for v in p]) for p in pts])


def selftest():
    """vlib.ref.GridModel (used for the equivalent center and the condition numbers, and by C01) vs SimpleITK,
    and the pixel layout conventions of the SimpleITK numpy bridge the header facets rely on."""
    sitk = _sitk()
    fixed = [
        {"size": [5, 4], "spacing": [2.0, 0.5], "origin": [10.0, -3.0], "rot": [0.3], "perm": [1, 0], "flip": [1, -1]},
        {"size": [7, 1, 3], "spacing": [0.7, 1.3, 2.9], "origin": [-120.5, 33.25, 8.0], "rot": [0.4, -1.1, 2.3],
         "perm": [2, 0, 1], "flip": [1, -1, -1]},
        {"size": [4, 6, 5], "spacing": [1.0, 1.0, 1.0], "center": [1.0, 2.0, 3.0], "rot": [0.0, 0.0, 0.0],
         "perm": [0, 1, 2], "flip": [1, 1, 1]},
    ]
    for g in fixed:
        m = ref.GridModel.from_desc(g)
        D = m.D
        assert abs(abs(np.linalg.det(m.R)) - 1) < 1e-12 and np.allclose(m.R @ m.R.T, np.eye(D), atol=1e-12)
        img = itk_image(m)
        assert img.GetSize() == tuple(g["size"])
        idx = np.array([[0.0] * D, [1.0] + [0.0] * (D - 1), [-3.5, 2.25, 7.0][:D], list((m.n - 1) / 2), list(m.n - 1)])
        w = itk_index_to_world(img, idx)
        scale = np.abs(w).max() + 1
        assert np.abs(m.points(idx, "grid", "world") - w).max() < 1e-12 * scale, "GridModel index->world != ITK"
        assert np.abs(m.points(w, "world", "grid") - itk_world_to_index(img, w)).max() < 1e-11 * scale, "GridModel world->index != ITK"
        assert np.abs(w[0] - m.o).max() < 1e-12 * scale and np.abs(w[3] - m.c).max() < 1e-12 * scale
        assert np.abs((w[1] - w[0]) - m.s[0] * m.R[:, 0]).max() < 1e-12 * scale
    # numpy bridge: array axes are (..., y, x[, c]); GetPixel takes (x, y, ...)
    a = np.arange(2 * 3 * 4, dtype=np.float32).reshape(2, 3, 4)
    s = sitk.GetImageFromArray(a)
    assert s.GetSize() == (4, 3, 2) and s.GetPixel(3, 1, 0) == a[0, 1, 3] and s.GetPixel(0, 2, 1) == a[1, 2, 0]
    v = sitk.GetImageFromArray(a, isVector=True)
    assert v.GetSize() == (3, 2) and v.GetNumberOfComponentsPerPixel() == 4 and v.GetPixel(2, 1) == tuple(a[1, 2, :])


# ---------------------------------------------------------------------------------------
# generators and helpers


@st.composite
def geometries(draw, D, max_size=64):
    """Grid descriptor parametrised by its origin (descriptor key 'origin' instead of 'center').

    Same ranges as gen.grids, but the classes this property is about (non-zero origin, anisotropic
    spacing, non-identity direction) get most of the weight."""
    d = draw(gen.directions(D, ("identity", "perm", "perm", "rotation", "rotation", "rotation", "reflection")))
    # (weights by an explicit integer draw: st.one_of() merges identical branches)
    plain = draw(st.integers(0, 7)) == 0  # the default ITK header: unit spacing, identity direction (pure translation)
    if plain:
        d = {"rot": [0.0] * (1 if D == 2 else 3), "perm": list(range(D)), "flip": [1] * D, "kind": "identity"}
        spacing = [1.0] * D
    elif draw(st.integers(0, 5)) == 0:
        spacing = [draw(gen.logfloat(0.05, 20.0))] * D
    else:
        spacing = draw(st.lists(gen.logfloat(0.05, 20.0), min_size=D, max_size=D))
    if draw(st.integers(0, 5)) == 0:
        origin = [0.0] * D
    else:
        origin = draw(st.lists(gen.qfloat(-500.0, 500.0, 0.01), min_size=D, max_size=D))
    return {"size": draw(gen.sizes(D, 1, max_size)), "spacing": spacing, "origin": origin,
            "rot": d["rot"], "perm": d["perm"], "flip": d["flip"], "kind": d["kind"], "ac": draw(st.booleans())}


def index_lists(draw, size, min_n=1, max_n=5):
    """Continuous indices in [-10, n+9] per axis: lattice values mixed with the special positions."""
    def axis(n):
        special = st.sampled_from([0.0, float(n - 1), (n - 1) / 2.0, -0.5, n - 0.5, -10.0, float(n + 9)])
        return st.one_of(gen.qfloat(-10.0, n + 9.0, 0.01), special)

    k = draw(st.integers(min_n, max_n))
    return [[draw(axis(n)) for n in size] for _ in range(k)]


def build_grid(g: dict, m: ref.GridModel, route: str):
    from deepali.core import Grid

    kw = dict(size=[int(v) for v in m.n], spacing=[float(v) for v in m.s], direction=torch.tensor(m.R, dtype=torch.float64),
              align_corners=bool(g.get("ac", True)))
    if route == "origin":
        return Grid(origin=[float(v) for v in m.o], **kw)
    if route == "center":
        # the equivalent center comes from the independent float64 model, not from deepali
        return Grid(center=[float(v) for v in m.c], **kw)
    if route == "sitk":
        return Grid.from_sitk(itk_image(m), align_corners=bool(g.get("ac", True)))
    raise ValueError(route)


def extent_of(m: ref.GridModel) -> float:
    return float(np.abs(m.s * np.maximum(m.n, 1)).sum())


def world_scale(m: ref.GridModel, p: np.ndarray = None) -> float:
    """|p| + extent of DESIGN section 6/C02: the magnitude the float32 grid attributes are combined at."""
    w = max(float(np.abs(m.o).max()), float(np.abs(m.c).max()))
    if p is not None and np.size(p):
        w = max(w, float(np.abs(p).max()))
    return max(1.0, w + extent_of(m))


def index_scale(m: ref.GridModel, p: np.ndarray = None) -> float:
    return world_scale(m, p) / float(m.s.min()) + float(m.n.max())


def shaped(p: np.ndarray, form: str) -> np.ndarray:
    if form == "single":
        return p[0]
    if form == "batch":
        return p[None]
    return p


def labels_of(case) -> list:
    g = case["grid"]
    return [f"D={case['D']}", g["kind"]] + ([f"route={case['route']}"] if "route" in case else []) + [
            "aniso" if gen.grid_is_anisotropic(g) else "iso", "origin=0" if not any(g["origin"]) else "origin!=0"]


def nontrivial_geometry(g) -> bool:
    """direction != I and origin != 0 (DESIGN NT rule, first two clauses)."""
    R = ref.direction_matrix(g["rot"], g.get("perm"), g.get("flip"))
    return bool(np.abs(R - np.eye(len(g["size"]))).max() > 1e-3) and any(g["origin"])


def outside(idx: np.ndarray, m: ref.GridModel) -> bool:
    return bool(((idx < 0) | (idx > m.n - 1)).any())


# ---------------------------------------------------------------------------------------
# facet 1: index -> world


@st.composite
def i2w_cases(draw):
    D = draw(gen.dims())
    g = draw(geometries(D))
    return {"D": D, "grid": g, "route": draw(st.sampled_from(ROUTES)), "idx": index_lists(draw, g["size"]),
            "dtype": draw(gen.dtypes()), "form": draw(st.sampled_from(["single", "list", "batch"])),
            "api": draw(st.sampled_from(["index_to_world", "index_to_world", "transform_points", "matrix"]))}


def run_index_to_world(case):
    from deepali.core import Axes
    from deepali.core.linalg import homogeneous_transform

    g = case["grid"]
    m = ref.GridModel.from_desc(g)
    grid = build_grid(g, m, case["route"])
    img = itk_image(m)
    dt = tdtype(case["dtype"])
    idx_t = torch.tensor(shaped(np.asarray(case["idx"], dtype=np.float64), case["form"]), dtype=dt)
    idx = idx_t.double().numpy().reshape(-1, m.D)  # the values deepali actually receives
    expect = itk_index_to_world(img, idx)
    keep = idx_t.clone()
    if case["api"] == "index_to_world":
        out = grid.index_to_world(idx_t)
    elif case["api"] == "transform_points":
        out = grid.transform_points(idx_t, Axes.GRID, Axes.WORLD)
    else:
        out = homogeneous_transform(grid.transform(Axes.GRID, Axes.WORLD).to(dt), idx_t)
    if not torch.equal(idx_t, keep):
        raise Violation("input_modified", f"{case['api']} modified its input")
    if tuple(out.shape) != tuple(idx_t.shape):
        raise Violation("result_shape", f"{case['api']}: shape {tuple(out.shape)} for input {tuple(idx_t.shape)}")
    bound = K_MAP * EPS32 * world_scale(m, expect)
    r = check_close(out.reshape(-1, m.D), expect, bound, "index_to_world_vs_itk",
                    f"{case['api']} route={case['route']} vs TransformContinuousIndexToPhysicalPoint")
    return {"ratio": r, "nontrivial": nontrivial_geometry(g) and outside(idx, m),
            "labels": labels_of(case) + [case["dtype"], f"api={case['api']}", "outside" if outside(idx, m) else "inside"]}


# ---------------------------------------------------------------------------------------
# facet 2: world -> index


@st.composite
def w2i_cases(draw):
    D = draw(gen.dims())
    g = draw(geometries(D))
    case = {"D": D, "grid": g, "route": draw(st.sampled_from(ROUTES)), "dtype": draw(gen.dtypes()),
            "form": draw(st.sampled_from(["single", "list", "batch"])),
            "decimals": draw(st.sampled_from(["none", "none", "default"])),
            "mode": draw(st.sampled_from(["near", "near", "near", "far"]))}
    if case["mode"] == "near":
        case["idx"] = index_lists(draw, g["size"])
    else:
        case["pts"] = draw(gen.point_lists(D, -1000.0, 1000.0, 1, 4, 0.01))
    return case


def run_world_to_index(case):
    g = case["grid"]
    m = ref.GridModel.from_desc(g)
    grid = build_grid(g, m, case["route"])
    img = itk_image(m)
    dt = tdtype(case["dtype"])
    if case["mode"] == "near":
        idx0 = np.asarray(case["idx"], dtype=np.float64)
        pts = itk_index_to_world(img, idx0)
    else:
        pts = np.asarray(case["pts"], dtype=np.float64)
    p_t = torch.tensor(shaped(pts, case["form"]), dtype=dt)
    p = p_t.double().numpy().reshape(-1, m.D)  # values deepali receives (float32 rounding of the input is not charged)
    expect = itk_world_to_index(img, p)
    keep = p_t.clone()
    out = grid.world_to_index(p_t, decimals=None) if case["decimals"] == "none" else grid.world_to_index(p_t)
    if not torch.equal(p_t, keep):
        raise Violation("input_modified", "world_to_index modified its input")
    if tuple(out.shape) != tuple(p_t.shape):
        raise Violation("result_shape", f"world_to_index: shape {tuple(out.shape)} for input {tuple(p_t.shape)}")
    c = index_scale(m, p)
    bound = K_MAP * EPS32 * c
    kind = "world_to_index_vs_itk"
    if case["decimals"] == "default":
        # default rounding to 6 decimals may move the result by half a unit of the 6th decimal (+ float error of the rounding)
        bound += 0.5e-6 + 4 * EPS32 * c
        kind = "world_to_index_default_rounding_vs_itk"
    r = check_close(out.reshape(-1, m.D), expect, bound, kind,
                    f"route={case['route']} decimals={case['decimals']} vs TransformPhysicalPointToContinuousIndex")
    out_idx = outside(expect, m)
    return {"ratio": r, "nontrivial": nontrivial_geometry(g) and out_idx,
            "labels": labels_of(case) + [case["dtype"], f"dec={case['decimals']}", case["mode"], "outside" if out_idx else "inside"]}


# ---------------------------------------------------------------------------------------
# facet 3a: header + pixel conversion  SimpleITK image <-> Grid / Image


PIXEL_TYPES = ["uint8", "int16", "int32", "float32", "float64"]


def check_header(grid, m: ref.GridModel, what: str, prefix: str = "") -> float:
    """Grid attributes vs the geometry of model m (= the header given to / read by SimpleITK)."""
    size = tuple(int(v) for v in m.n)
    if tuple(grid.size()) != size:
        raise Violation(prefix + "size", f"{what}: size {tuple(grid.size())} != {size}")
    if tuple(grid.shape) != size[::-1]:
        raise Violation(prefix + "shape", f"{what}: shape {tuple(grid.shape)} != {size[::-1]}")
    scale = float(np.abs(m.o).max()) + extent_of(m)
    r = check_close(grid.spacing().double().numpy() / m.s, np.ones(m.D), K_HDR * EPS32, prefix + "spacing", f"{what}: relative spacing")
    r = max(r, check_close(grid.direction(), m.R, K_HDR * EPS32, prefix + "direction", f"{what}: direction cosines"))
    r = max(r, check_close(grid.origin(), m.o, K_HDR * EPS32 * scale, prefix + "origin", f"{what}: origin()"))
    r = max(r, check_close(grid.center(), m.c, K_HDR * EPS32 * scale, prefix + "center", f"{what}: center() vs origin + A (n-1)/2"))
    return r


def check_itk_header(img, m: ref.GridModel, what: str, prefix: str = "") -> float:
    """Header of a SimpleITK image produced by deepali vs the geometry of model m."""
    size = tuple(int(v) for v in m.n)
    if tuple(img.GetSize()) != size:
        raise Violation(prefix + "size", f"{what}: size {tuple(img.GetSize())} != {size}")
    scale = float(np.abs(m.o).max()) + extent_of(m)
    r = check_close(np.array(img.GetSpacing()) / m.s, np.ones(m.D), K_HDR * EPS32, prefix + "spacing", f"{what}: relative spacing")
    r = max(r, check_close(np.array(img.GetDirection()).reshape(m.D, m.D), m.R, K_HDR * EPS32, prefix + "direction",
                           f"{what}: direction (row-major)"))
    r = max(r, check_close(np.array(img.GetOrigin()), m.o, K_HDR * EPS32 * scale, prefix + "origin", f"{what}: origin"))
    return r


def model_of_itk(img) -> ref.GridModel:
    D = img.GetDimension()
    return ref.GridModel(img.GetSize(), img.GetSpacing(), origin=img.GetOrigin(), direction=np.array(img.GetDirection()).reshape(D, D))


def pixel_array(case) -> np.ndarray:
    """Deterministic pixel content, layout (C, ..., X) like a deepali image tensor."""
    shape = (case["C"],) + tuple(case["grid"]["size"][::-1])
    a = hash_noise(shape, case["key"], -100.0, 100.0)
    name = case["pix"]
    if name == "uint8":
        a = np.abs(a)
    if not name.startswith("float"):
        a = np.round(a)
    return a.astype(name)


def itk_pixels(img, positions) -> np.ndarray:
    """Pixel values read one by one through SimpleITK's GetPixel(x, y[, z]); shape (k, C)."""
    vals = []
    for pos in positions:
        v = img.GetPixel(*[int(i) for i in pos])
        vals.append(list(v) if isinstance(v, (tuple, list)) else [v])
    return np.asarray(vals, dtype=np.float64)


def tensor_pixels(t: torch.Tensor, positions) -> np.ndarray:
    """Values of a (C, ..., X) tensor at index positions given in (x, y[, z]) order; shape (k, C)."""
    a = t.detach().double().numpy()
    return np.asarray([[a[(c,) + tuple(int(i) for i in pos[::-1])] for c in range(a.shape[0])] for pos in positions])


@st.composite
def header_cases(draw):
    D = draw(gen.dims())
    g = draw(geometries(D, max_size=8 if D == 2 else 6))
    n = g["size"]
    pos = st.lists(st.tuples(*[st.integers(0, k - 1) for k in n]).map(list), min_size=1, max_size=6)
    return {"D": D, "grid": g, "route": draw(st.sampled_from(["origin", "center"])), "C": draw(st.sampled_from([1, 1, 2, 3])),
            "pix": draw(st.sampled_from(PIXEL_TYPES)), "key": draw(st.integers(0, 10 ** 6)), "pos": draw(pos)}


def run_header_sitk(case):
    from deepali.core import Grid
    from deepali.data import Image

    sitk = _sitk()
    g = case["grid"]
    m = ref.GridModel.from_desc(g)
    D, C, ac = m.D, case["C"], bool(g["ac"])
    size = tuple(int(v) for v in m.n)
    data = pixel_array(case)  # (C, ..., X)
    arr = data[0] if C == 1 else np.moveaxis(data, 0, -1)  # SimpleITK layout (..., X[, C])
    src = itk_image(m, np.ascontiguousarray(arr), vector=C > 1)
    corners = [[0] * D, [k - 1 for k in size]]
    positions = corners + [list(p) for p in case["pos"]]

    # (a) SimpleITK header -> Grid
    grid = Grid.from_sitk(src, align_corners=ac)
    r = check_header(grid, m, "Grid.from_sitk", "from_sitk_")
    if grid.align_corners() != ac:
        raise Violation("from_sitk_align_corners", f"Grid.from_sitk(align_corners={ac}).align_corners() == {grid.align_corners()}")

    # (b) SimpleITK image -> Image
    image = Image.from_sitk(src, align_corners=ac)
    if tuple(image.shape) != (C,) + size[::-1]:
        raise Violation("image_from_sitk_shape", f"Image.from_sitk: shape {tuple(image.shape)} != {(C,) + size[::-1]}")
    r = max(r, check_header(image.grid(), m, "Image.from_sitk(...).grid()", "image_from_sitk_"))
    check_close(tensor_pixels(image.tensor(), positions), itk_pixels(src, positions), 0.0, "image_from_sitk_pixels",
                "Image.from_sitk pixel values vs SimpleITK GetPixel")
    check_close(image.tensor(), data, 0.0, "image_from_sitk_data", "Image.from_sitk data vs source array")
    if str(image.dtype) != "torch." + case["pix"]:
        raise Violation("image_from_sitk_dtype", f"Image.from_sitk: dtype {image.dtype} for {case['pix']} pixels")

    # (c) Image on a grid built from the descriptor -> SimpleITK image
    own = build_grid(g, m, case["route"])
    t = torch.tensor(data)
    out = Image(t, own).sitk()
    r = max(r, check_itk_header(out, m, f"Image(data, Grid({case['route']}=...)).sitk()", "image_sitk_"))
    if out.GetDimension() != D:
        raise Violation("image_sitk_dimension", f"Image.sitk(): dimension {out.GetDimension()} != {D}")
    if out.GetNumberOfComponentsPerPixel() != C:
        raise Violation("image_sitk_components", f"Image.sitk(): {out.GetNumberOfComponentsPerPixel()} components for C={C}")
    check_close(itk_pixels(out, positions), tensor_pixels(t, positions), 0.0, "image_sitk_pixels",
                "Image.sitk() pixel values (GetPixel) vs tensor")
    got = sitk.GetArrayFromImage(out)
    check_close(got, arr, 0.0, "image_sitk_data", "Image.sitk() pixel array vs tensor")
    # ITK agrees with the grid about where the samples are
    idx = np.asarray(positions, dtype=np.float64)
    check_close(own.index_to_world(torch.tensor(idx)), itk_index_to_world(out, idx), K_MAP * EPS32 * world_scale(m),
                "image_sitk_sample_positions", "world position of samples: grid vs Image.sitk() via ITK")

    # (d) and back
    back = Image.from_sitk(out, align_corners=ac)
    if tuple(back.shape) != tuple(t.shape):
        raise Violation("roundtrip_shape", f"Image.from_sitk(Image.sitk()): shape {tuple(back.shape)} != {tuple(t.shape)}")
    if back.dtype != t.dtype:
        raise Violation("roundtrip_dtype", f"Image.from_sitk(Image.sitk()): dtype {back.dtype} != {t.dtype}")
    check_close(back.tensor(), t, 0.0, "roundtrip_data", "Image.from_sitk(Image.sitk()) data")
    r = max(r, check_header(back.grid(), m, "Image.from_sitk(Image.sitk()).grid()", "roundtrip_"))
    # SimpleITK -> deepali -> SimpleITK
    again = image.sitk()
    r = max(r, check_itk_header(again, m, "Image.from_sitk(img).sitk()", "itk_roundtrip_"))
    check_close(sitk.GetArrayFromImage(again), sitk.GetArrayFromImage(src), 0.0, "itk_roundtrip_data", "Image.from_sitk(img).sitk() pixels")
    return {"ratio": r, "nontrivial": nontrivial_geometry(g) and gen.grid_is_anisotropic(g),
            "labels": labels_of(case) + [f"C={C}", case["pix"], f"ac={ac}", "cubic" if len(set(size)) == 1 else "non-cubic"]}


# ---------------------------------------------------------------------------------------
# facet 3b: header read from a file written by SimpleITK


FORMATS = ["mha", "nrrd", "nii.gz"]
LOSSLESS = ("mha", "nrrd")


def scratch_dir() -> str:
    """Fresh per-case directory under <cwd>/.scratch (the check runs with cwd = /verif; .scratch is git-ignored)."""
    base = os.path.join(os.getcwd(), ".scratch")
    os.makedirs(base, exist_ok=True)
    return tempfile.mkdtemp(prefix="c02_", dir=base)


@st.composite
def file_cases(draw):
    D = draw(gen.dims())
    g = draw(geometries(D, max_size=8))
    return {"D": D, "grid": g, "fmt": draw(st.sampled_from(FORMATS)), "api": draw(st.sampled_from(["from_file", "from_reader"])),
            "idx": index_lists(draw, g["size"], 1, 3)}


def run_header_file(case):
    from deepali.core import Grid

    sitk = _sitk()
    g = case["grid"]
    m = ref.GridModel.from_desc(g)
    ac = bool(g["ac"])
    tmp = scratch_dir()
    try:
        path = os.path.join(tmp, "header." + case["fmt"])
        sitk.WriteImage(itk_image(m), path)
        truth = sitk.ReadImage(path)  # what ITK says this file contains
        if truth.GetDimension() != m.D:
            raise Skip("file format changed the image dimension")
        if case["api"] == "from_file":
            grid = Grid.from_file(path, align_corners=ac)
        else:
            reader = sitk.ImageFileReader()
            reader.SetFileName(path)
            reader.ReadImageInformation()
            grid = Grid.from_reader(reader, align_corners=ac)
    finally:
        shutil.rmtree(tmp, ignore_errors=True)
    api = "Grid." + case["api"]
    mt = model_of_itk(truth)
    r = check_header(grid, mt, f"{api}(.{case['fmt']}) vs header re-read by SimpleITK", case["api"] + "_")
    if case["fmt"] in LOSSLESS:
        r = max(r, check_header(grid, m, f"{api}(.{case['fmt']}) vs header written", case["api"] + "_written_"))
    if grid.align_corners() != ac:
        raise Violation(case["api"] + "_align_corners", f"{api}(align_corners={ac}).align_corners() == {grid.align_corners()}")
    idx = np.asarray(case["idx"], dtype=np.float64)
    expect = itk_index_to_world(truth, idx)
    r = max(r, check_close(grid.index_to_world(torch.tensor(idx)), expect, K_MAP * EPS32 * world_scale(mt, expect),
                           case["api"] + "_index_to_world", f"{api}(.{case['fmt']}).index_to_world vs ITK on the image read from the file"))
    return {"ratio": r, "nontrivial": nontrivial_geometry(g) and gen.grid_is_anisotropic(g),
            "labels": labels_of(case) + [case["fmt"], case["api"], f"ac={ac}"]}


# ---------------------------------------------------------------------------------------
# facet 4: origin = sample 0, direction columns = unit steps, stored center consistent


@st.composite
def anchor_cases(draw):
    D = draw(gen.dims())
    g = draw(geometries(D))
    return {"D": D, "grid": g, "route": draw(st.sampled_from(ROUTES)), "dtype": draw(gen.dtypes()),
            "origin2": draw(gen.centers(D)), "setter": draw(st.sampled_from(["origin", "origin_", "center", "center_"]))}


def run_anchors(case):
    g = case["grid"]
    m = ref.GridModel.from_desc(g)
    D = m.D
    grid = build_grid(g, m, case["route"])
    img = itk_image(m)
    dt = tdtype(case["dtype"])
    bw = K_MAP * EPS32 * world_scale(m)
    bh = K_HDR * EPS32 * (float(np.abs(m.o).max()) + extent_of(m))
    zero = torch.zeros(1, D, dtype=dt)
    itk_o = np.array(img.TransformIndexToPhysicalPoint([0] * D))
    itk_c = itk_index_to_world(img, (m.n - 1) / 2)[0]
    p0 = grid.index_to_world(zero)[0]
    r = check_close(p0, itk_o, bw, "sample0_vs_itk_origin", f"index_to_world(0) route={case['route']}")
    r = max(r, check_close(grid.origin(), itk_o, bh, "origin_accessor_vs_itk", f"Grid.origin() route={case['route']}"))
    r = max(r, check_close(grid.center(), itk_c, bh, "stored_center_vs_itk", f"Grid.center() vs ITK position of index (n-1)/2, route={case['route']}"))
    mid = torch.tensor(((m.n - 1) / 2)[None], dtype=dt)
    r = max(r, check_close(grid.index_to_world(mid)[0], grid.center().double().numpy(), bw, "mid_index_is_stored_center",
                           "index_to_world((n-1)/2) vs Grid.center()"))
    r = max(r, check_close(p0, grid.origin().double().numpy(), bw, "sample0_is_origin_accessor", "index_to_world(0) vs Grid.origin()"))
    for k in range(D):
        e = torch.zeros(1, D, dtype=dt)
        e[0, k] = 1
        step = (grid.index_to_world(e) - grid.index_to_world(zero))[0]
        ek = [1.0 if j == k else 0.0 for j in range(D)]
        itk_step = np.array(img.TransformContinuousIndexToPhysicalPoint(ek)) - itk_o
        r = max(r, check_close(step, itk_step, bw, "unit_step_vs_itk", f"index_to_world(e_{k}) - index_to_world(0) vs ITK"))
        check_close(step, m.s[k] * m.R[:, k], bw, "unit_step_vs_direction_column", f"axis {k}: spacing_k * direction[:, k]")
        a = grid.affine().double().numpy()
        check_close(a[:, k], m.s[k] * m.R[:, k], K_HDR * EPS32 * float(m.s[k]), "affine_column", f"Grid.affine()[:, {k}]")
    # moving the grid: origin(new) / origin_(new) / center(new) / center_(new) keep ITK's convention
    new = np.asarray(case["origin2"], dtype=np.float64)
    if case["setter"].startswith("origin"):
        m2 = ref.GridModel(m.n, m.s, origin=new, direction=m.R)
        g2 = grid.origin(new.tolist()) if case["setter"] == "origin" else build_grid(g, m, case["route"]).origin_(new.tolist())
    else:
        m2 = ref.GridModel(m.n, m.s, center=new, direction=m.R)
        g2 = grid.center(new.tolist()) if case["setter"] == "center" else build_grid(g, m, case["route"]).center_(new.tolist())
    img2 = itk_image(m2)
    idx = np.stack([np.zeros(D), m.n - 1, (m.n - 1) / 2, -np.ones(D) * 2.5])
    expect = itk_index_to_world(img2, idx)
    r = max(r, check_close(g2.index_to_world(torch.tensor(idx, dtype=dt)), expect, K_MAP * EPS32 * world_scale(m2, expect),
                           "moved_grid_vs_itk", f"Grid.{case['setter']}(new).index_to_world vs ITK image with that origin/center"))
    if not case["setter"].endswith("_"):
        check_close(grid.index_to_world(zero)[0], p0.double().numpy(), 0.0, "out_of_place_setter_modified_grid",
                    f"Grid.{case['setter']}(new) changed the original grid")
    return {"ratio": r, "nontrivial": nontrivial_geometry(g) and gen.grid_is_anisotropic(g),
            "labels": labels_of(case) + [case["dtype"], f"setter={case['setter']}"]}

# ---------------------------------------------------------------------------------------
# facet 5: Grid(origin=..., center=...) with both given (class docstring: "an error is raised if these are inconsistent")


@st.composite
def both_cases(draw):
    D = draw(gen.dims())
    g = draw(geometries(D))
    # origin components that are exactly 0 while the center is not: the class where an absolute tolerance matters
    for k, z in enumerate(draw(st.lists(st.booleans(), min_size=D, max_size=D))):
        if z:
            g["origin"][k] = 0.0
    return {"D": D, "grid": g, "variant": draw(st.sampled_from(["consistent", "consistent", "inconsistent"])),
            "idx": index_lists(draw, g["size"], 1, 3)}


def run_both_given(case):
    from deepali.core import Grid

    g = case["grid"]
    m = ref.GridModel.from_desc(g)
    kw = dict(size=[int(v) for v in m.n], spacing=[float(v) for v in m.s], direction=torch.tensor(m.R, dtype=torch.float64),
              origin=[float(v) for v in m.o])
    labels = labels_of(case) + [case["variant"]]
    if case["variant"] == "inconsistent":
        # center moved by the whole grid extent along every axis: >= extent/D in some component, which is >= 10x any
        # tolerance proportional to 1e-5 * (|origin| + |center| + extent) for the generated ranges
        wrong = m.c + m.A @ m.n
        try:
            Grid(center=[float(v) for v in wrong], **kw)
        except ValueError:
            return {"ratio": 0.0, "nontrivial": nontrivial_geometry(g), "labels": labels}
        raise Violation("inconsistent_origin_and_center_accepted",
                        f"Grid(origin={kw['origin']}, center={wrong.tolist()}) did not raise although center - origin is off by A n")
    try:
        grid = Grid(center=[float(v) for v in m.c], **kw)
    except ValueError as e:
        raise Violation("consistent_origin_and_center_rejected",
                        f"Grid(size={kw['size']}, spacing={kw['spacing']}, origin={kw['origin']}, center={m.c.tolist()}) raised "
                        f"ValueError({e}) although center == origin + A (n-1)/2 in float64")
    img = itk_image(m)
    idx = np.asarray(case["idx"], dtype=np.float64)
    expect = itk_index_to_world(img, idx)
    r = check_close(grid.index_to_world(torch.tensor(idx)), expect, K_MAP * EPS32 * world_scale(m, expect),
                    "both_given_index_to_world_vs_itk", "Grid(origin=, center=).index_to_world vs ITK")
    return {"ratio": r, "nontrivial": nontrivial_geometry(g), "labels": labels}


# ---------------------------------------------------------------------------------------
# facet 6: deepali.utils.simpleitk.grid.GridAttrs (the float64 numpy grid used by the SimpleITK helpers)


@st.composite
def attrs_cases(draw):
    D = draw(gen.dims())
    g = draw(geometries(D))
    return {"D": D, "grid": g, "op": draw(st.sampled_from(["maps", "maps", "center_property", "center_route"])),
            "idx": index_lists(draw, g["size"], 1, 4)}


def run_grid_attrs(case):
    from deepali.utils.simpleitk.grid import GridAttrs, image_grid_attributes

    g = case["grid"]
    m = ref.GridModel.from_desc(g)
    D = m.D
    img = itk_image(m)
    size = tuple(int(v) for v in m.n)
    idx = np.asarray(case["idx"], dtype=np.float64)
    world = itk_index_to_world(img, idx)
    bw = K_MAP * EPS64 * world_scale(m, world)
    op = case["op"]
    r = 0.0
    if op == "maps":
        ga = image_grid_attributes(img)
        if tuple(ga.size) != size or tuple(ga.shape) != size[::-1]:
            raise Violation("grid_attrs_size", f"image_grid_attributes: size {ga.size} shape {ga.shape} for image size {size}")
        for name, got, want in (("origin", ga.origin, img.GetOrigin()), ("spacing", ga.spacing, img.GetSpacing()),
                                ("direction", ga.direction, img.GetDirection())):
            check_close(np.asarray(got, dtype=np.float64), np.asarray(want), 0.0, "grid_attrs_" + name, f"image_grid_attributes(img).{name}")
        r = check_close(ga.index_to_physical_space(idx), world, bw, "grid_attrs_index_to_world_vs_itk",
                        "GridAttrs.index_to_physical_space vs TransformContinuousIndexToPhysicalPoint")
        back = itk_world_to_index(img, world)
        bi = K_MAP * EPS64 * index_scale(m, world) + 0.5e-12  # documented rounding to 12 decimals
        r = max(r, check_close(ga.physical_space_to_continuous_index(world), back, bi, "grid_attrs_world_to_index_vs_itk",
                               "GridAttrs.physical_space_to_continuous_index vs TransformPhysicalPointToContinuousIndex"))
    elif op == "center_property":
        ga = image_grid_attributes(img)
        want = itk_index_to_world(img, (m.n - 1) / 2)[0]
        r = check_close(np.asarray(ga.center, dtype=np.float64), want, bw, "grid_attrs_center_vs_itk",
                        "GridAttrs.center vs ITK position of index (n-1)/2")
    else:
        ga = GridAttrs(size=size, center=[float(v) for v in m.c], spacing=[float(v) for v in m.s],
                       direction=[float(v) for v in m.R.flatten()])
        r = check_close(np.asarray(ga.origin, dtype=np.float64), m.o, bw, "grid_attrs_center_route_origin",
                        "GridAttrs(center=c).origin vs c - A (n-1)/2")
        r = max(r, check_close(ga.index_to_physical_space(idx), world, bw, "grid_attrs_center_route_index_to_world_vs_itk",
                               "GridAttrs(center=c).index_to_physical_space vs ITK image with the equivalent origin"))
    return {"ratio": r, "nontrivial": nontrivial_geometry(g) and gen.grid_is_anisotropic(g), "labels": labels_of(case) + [f"op={op}"]}



# ---------------------------------------------------------------------------------------
# facet 8: grids with a history - derived from a *used* parent by deepali's own methods


@st.composite
def derived_cases(draw):
    D = draw(gen.dims())
    g = draw(geometries(D, max_size=24))
    return {"D": D, "grid": g, "route": draw(st.sampled_from(ROUTES)), "derive": draw(gen.derivation_steps(D)),
            "rel": draw(st.lists(st.lists(gen.qfloat(-0.5, 1.5, 0.001), min_size=D, max_size=D), min_size=1, max_size=4)),
            "dtype": draw(gen.dtypes()), "fractional": draw(st.booleans())}


def run_derived(case):
    """The index <-> world maps of a Grid obtained from another Grid object (after that one was used) must agree
    with ITK for the header the derived grid itself reports and writes (size, spacing, direction, origin)."""
    from deepali.data import Image
    from vlib.case import derive_grid, model_of_grid

    g = case["grid"]
    m0 = ref.GridModel.from_desc(g)
    grid, ops = derive_grid(build_grid(g, m0, case["route"]), case["derive"], 1, bool(case.get("fractional")))
    frac = not bool(torch.equal(grid._size, grid._size.round()))  # e.g. 2.5 stored for the 3 samples of downsample() of 5
    m = model_of_grid(grid)  # float64 geometry from the attributes the derived grid reports (center form)
    img = itk_image(m)
    dt = tdtype(case["dtype"])
    idx = np.asarray(case["rel"], dtype=np.float64) * (m.n - 1)
    idx_t = torch.tensor(idx, dtype=dt)
    idx = idx_t.double().numpy()
    world = itk_index_to_world(img, idx)
    bw = K_MAP * EPS32 * world_scale(m, world)
    r = check_close(grid.index_to_world(idx_t), world, bw, "derived_index_to_world_vs_itk",
                    f"grid derived via {ops}: index_to_world vs ITK image with the header the grid reports")
    p_t = torch.tensor(world, dtype=dt)
    back = itk_world_to_index(img, p_t.double().numpy())
    r = max(r, check_close(grid.world_to_index(p_t, decimals=None), back, K_MAP * EPS32 * index_scale(m, world), "derived_world_to_index_vs_itk",
                           f"grid derived via {ops}: world_to_index vs ITK"))
    scale = float(np.abs(m.o).max()) + extent_of(m)
    r = max(r, check_close(grid.origin(), np.array(img.GetOrigin()), K_HDR * EPS32 * max(scale, 1e-30), "derived_origin_vs_itk",
                           f"grid derived via {ops}: origin() vs ITK position of index 0"))
    if int(np.prod(m.n)) <= 4096 and not frac:  # (images on grids with a fractional internal size: C04, K3 / K4)
        # the header deepali writes for an image on the derived grid, read by ITK
        out = Image(torch.zeros((1,) + tuple(int(v) for v in m.n[::-1])), grid).sitk()
        r = max(r, check_itk_header(out, m, f"Image(zeros, grid derived via {ops}).sitk()", "derived_image_sitk_"))
        w2 = itk_index_to_world(out, idx)
        r = max(r, check_close(grid.index_to_world(idx_t), w2, bw, "derived_index_to_world_vs_written_header",
                               f"grid derived via {ops}: index_to_world vs ITK on the header written by Image.sitk()"))
    return {"ratio": r, "nontrivial": nontrivial_geometry(g) and len(ops) > 0,
            "labels": labels_of(case) + [case["dtype"], f"fractional_size={frac}"] + [f"via={o}" for o in sorted(set(ops))]}


FACETS = [
    Facet("index_to_world", run_index_to_world, strategy=i2w_cases,
          rule="geometry x route (origin= / center= from the float64 model / from_sitk) x continuous indices in [-10, n+9] x dtype x API "
               "spelling; non-trivial = direction != I, origin != 0 and at least one index outside [0, n-1]",
          quick=800, thorough=20000, shards=16, quick_shards=4),
    Facet("world_to_index", run_world_to_index, strategy=w2i_cases,
          rule="geometry x route x world points (ITK images of continuous indices in [-10, n+9], or far points |p| <= 1000) x dtype x "
               "decimals (None, default); non-trivial = direction != I, origin != 0 and at least one index outside [0, n-1]",
          quick=800, thorough=20000, shards=16, quick_shards=4),
    Facet("header_sitk", run_header_sitk, strategy=header_cases,
          rule="geometry (sizes <= 8 / 6) x channels {1,2,3} x pixel type x route; Grid.from_sitk, Image.from_sitk, Image.sitk and both "
               "round trips, header field by field and pixels via GetPixel; non-trivial = direction != I, origin != 0, anisotropic spacing",
          quick=300, thorough=6000, shards=16, quick_shards=2),
    Facet("header_file", run_header_file, strategy=file_cases,
          rule="geometry (sizes <= 8) x format {mha, nrrd, nii.gz} x {from_file, from_reader}; header written by SimpleITK into a "
               "per-case temporary directory under .scratch/; non-trivial = direction != I, origin != 0, anisotropic spacing",
          quick=240, thorough=5000, shards=16, quick_shards=2),
    Facet("anchors", run_anchors, strategy=anchor_cases,
          rule="geometry x route x dtype x setter; sample 0, unit steps, stored center, moved grids vs ITK; "
               "non-trivial = direction != I, origin != 0, anisotropic spacing",
          quick=300, thorough=8000, shards=16, quick_shards=2),
    Facet("both_given", run_both_given, strategy=both_cases,
          rule="geometry x {origin and the float64-equivalent center, origin and a center displaced by the grid extent}: the first must "
               "construct and map like ITK, the second must raise ValueError; non-trivial = direction != I, origin != 0",
          quick=200, thorough=5000, shards=8, quick_shards=1),
    Facet("grid_attrs", run_grid_attrs, strategy=attrs_cases,
          rule="geometry x {maps and header of image_grid_attributes, center property, center= constructor route} of "
               "utils.simpleitk.grid.GridAttrs vs ITK (float64 bounds); non-trivial = direction != I, origin != 0, anisotropic spacing",
          quick=200, thorough=5000, shards=8, quick_shards=1),
    Facet("derived_grids", run_derived, strategy=derived_cases,
          rule="geometry (sizes <= 24) x route x 1-2 derivation steps with deepali's own Grid methods (spacing/direction/center/origin/"
               "align_corners with-ers, resize, reshape, resample, down/upsample, crop, pad, center_crop/pad, narrow, clone, copy, "
               "deepcopy, pickle), each applied after a generated set of read-only calls on the parent; index<->world maps, origin() and "
               "the header written by Image.sitk() vs ITK for the geometry the derived grid reports; non-trivial = direction != I and origin != 0",
          quick=500, thorough=8000, shards=16, quick_shards=2),
]
