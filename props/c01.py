"""C01 - Grid coordinate systems (index, cube, cube-corners, world) map consistently."""
from __future__ import annotations

import itertools
import math

import numpy as np
import torch
from hypothesis import strategies as st

from vlib import gen, ref
from vlib.case import assert_grid_intact, derive_grid, grid_state, hash_noise, make_grid, model_of_grid, tdtype
from vlib.core import EPS32, EPS64, Facet, Skip, Violation, check_close, eps_of

PROPERTY = "C01"
MANIFEST = {
    "text": "Generated oriented anisotropic grids (D in {2,3}, sizes 1..64, rotations/permutations/reflections, both "
            "align_corners, both construction routes), all 16 ordered axes pairs, second grids, point/vector tensors of "
            "several leading shapes and dtypes are mapped by every public conversion API and compared with an independent "
            "float64 model of the four coordinate systems; metamorphic inverse/composition laws with and without the default "
            "rounding; documented anchors; the 1-D sample lattice for n in [1,4096] (exhaustive in the thorough tier); "
            "identity sampling; Cube maps; tensor-level helpers. A third of the grids (first and second) have a history: they are "
            "obtained by 1-2 derivation steps with deepali's own Grid methods from a Grid object that was already used, and the "
            "model is then built from the attributes the derived object reports. Read-only calls must leave every Grid object "
            "bit-identical. Exploration, not proof.",
    "note": "Trusted: the float64 numpy grid model in vlib/ref.py (written from the README/docstrings; self-tested against "
            "SimpleITK in C02). Tolerance 64*eps32*condition because deepali stores grid attributes in float32.",
    "technique": "property-based testing (Hypothesis) against a float64 reference model, metamorphic round-trip/composition "
                 "laws, exhaustive enumeration of the 1-D lattice sizes",
}
ASSUMPTIONS = [
    "grids: size 1..64 per axis (cube axes need n >= 2), spacing in [0.05, 20], |center| <= 500, |det direction| = 1",
    "grids with a history: the float64 model uses the attributes (size, spacing, center, direction, flag) the derived Grid object "
    "reports - the maps must be consistent with those; whether the derived attributes are the right ones is property C03's subject; "
    "half of them have a fractional internal size (downsample() of an odd size, resample() to a non-dividing spacing; size() is its "
    "ceiling and is what the model uses); steps that resize an axis with a single sample or leave too few samples are skipped",
    "normalize_grid/denormalize_grid with align_corners=False are only checked as an inverse pair: their docstrings do not "
    "define the 'unnormalized' coordinate for that convention (they map index i to 2i/n-1, not the grid's (2i+1)/n-1)",
]

AX = ["grid", "cube", "cube_corners", "world"]
K = 64.0


def _axes(name):
    from deepali.core import Axes

    return Axes(name)


def selftest():
    g = {"size": [5, 4], "spacing": [2.0, 0.5], "center": [10.0, -3.0], "rot": [0.3], "perm": [0, 1], "flip": [1, 1], "ac": True}
    m = ref.GridModel.from_desc(g)
    p = np.array([[0.0, 0.0], [4.0, 3.0], [2.0, 1.5]])
    assert np.allclose(m.points(p[:1], "grid", "world"), m.o)
    assert np.allclose(m.points(p[2:], "grid", "world"), m.c)
    assert np.allclose(m.points(p[:2], "grid", "cube_corners"), [[-1, -1], [1, 1]])
    assert np.allclose(m.points(np.array([[-0.5, -0.5], [4.5, 3.5]]), "grid", "cube"), [[-1, -1], [1, 1]])
    for a, b in itertools.product(AX, AX):
        assert np.allclose(m.points(m.points(p, a, b), b, a), p)


# ---------------------------------------------------------------------------------------
# generators


def rel_points(D, min_n=1, max_n=5):
    """Points given as fractions of the index range (u=0 first sample, u=1 last sample)."""
    return st.lists(st.lists(gen.qfloat(-0.5, 1.5, 0.001), min_size=D, max_size=D), min_size=min_n, max_size=max_n)


def model_points(m: ref.GridModel, rel, axes: str) -> np.ndarray:
    idx = np.asarray(rel, dtype=np.float64) * np.maximum(m.n - 1, 1)
    return m.points(idx, "grid", axes)


def shape_points(p: np.ndarray, form: str) -> np.ndarray:
    """Arrange k points into the requested leading shape."""
    k, D = p.shape
    if form == "single":
        return p[0]
    if form == "list":
        return p
    if form == "batch":
        return p[None]
    # "nd": (1, k, 1, D)
    return p[None, :, None, :]


@st.composite
def map_cases(draw, two=False):
    D = draw(gen.dims())
    a, b = draw(st.sampled_from(AX)), draw(st.sampled_from(AX))
    need2 = any(x in ("cube", "cube_corners") for x in (a, b))
    g = draw(gen.grids(D, min_size=2 if need2 else 1))
    case = {
        "D": D, "grid": g, "a": a, "b": b, "rel": draw(rel_points(D)),
        "dtype": draw(gen.dtypes()), "form": draw(st.sampled_from(["single", "list", "batch", "nd"])),
        "decimals": draw(st.sampled_from(["default", "none"])),
        "api": draw(st.sampled_from(["transform_points", "matrix", "helper", "function"])),
        "route": draw(st.sampled_from(["center", "origin", "derived"])),
    }
    if case["route"] == "derived":
        case["derive"] = draw(gen.derivation_steps(D))
        case["fractional"] = draw(st.booleans())
    if two:
        case["grid2"] = draw(second_grid(g, D, 2 if need2 else 1))
    return case


@st.composite
def second_grid(draw, g, D, min_size):
    """Second grid: independent, or related to the first (same domain / other size, only align_corners
    flipped, equal copy, translated copy) - relations under which a shortcut such as 'same grid' or
    'same domain' could wrongly be taken."""
    rel = draw(st.sampled_from(["independent", "independent", "resized_extent", "resized_corners", "acflip", "equal", "translated",
                                "derived", "derived"]))
    if rel == "derived":  # obtained from the first Grid object itself by deepali's own methods (see build())
        return {"rel": rel, "derive": draw(gen.derivation_steps(D)), "swap": draw(st.booleans()), "kind": "derived",
                "fractional": draw(st.booleans())}
    if rel == "independent":
        g2 = draw(gen.grids(D, min_size=min_size))
    else:
        g2 = {k: (list(v) if isinstance(v, list) else v) for k, v in g.items()}
        if rel in ("resized_extent", "resized_corners"):
            n2 = draw(st.lists(st.integers(max(2, min_size), 64), min_size=D, max_size=D))
            n1 = g["size"]
            if rel == "resized_extent":
                g2["spacing"] = [float(s * a / b) for s, a, b in zip(g["spacing"], n1, n2)]
            else:
                g2["spacing"] = [float(s * max(a - 1, 1) / max(b - 1, 1)) for s, a, b in zip(g["spacing"], n1, n2)]
            g2["size"] = n2
        elif rel == "acflip":
            g2["ac"] = not g["ac"]
        elif rel == "translated":
            off = draw(st.lists(gen.qfloat(-5.0, 5.0, 0.01), min_size=D, max_size=D))
            g2["center"] = [float(c + o) for c, o in zip(g["center"], off)]
    g2["rel"] = rel
    return g2


def _bound(m_to: ref.GridModel, m_from: ref.GridModel, a: str, b: str, p: np.ndarray, dtype, decimals: str) -> float:
    """K * eps * condition of the map a (on m_from) -> b (on m_to) at the points p (given w.r.t. a).

    Maps that pass through world space subtract world positions of magnitude W, so the absolute
    error is eps*W world units, i.e. eps*W/min(spacing) index units; same-grid maps between index
    and cube axes only scale by n/2."""
    eps = max(EPS32, eps_of(dtype))
    p = np.asarray(p, dtype=np.float64).reshape(-1, m_from.D)
    out = m_from.points(p, a, b, m_to)
    if m_from is m_to and a != "world" and b != "world":
        c = max(1.0, float(np.abs(out).max()), float(np.abs(p).max()), float(m_to.n.max()) if b == "grid" else 1.0)
    else:
        pw = m_from.points(p, a, "world")
        W = max(float(np.abs(pw).max()), float(np.abs(m_from.c).max() + np.abs(m_from.s * m_from.n).sum()),
                float(np.abs(m_to.c).max() + np.abs(m_to.s * m_to.n).sum()), 1.0)
        if b == "world":
            c = W
        else:
            c = W / float(m_to.s.min()) + float(m_to.n.max())
            if b != "grid":
                c *= 2.0 / max(1.0, float(np.where(m_to.n > 1, m_to.n - 1, 1).min()))
            c = max(c, 1.0)
    bound = K * eps * c
    if decimals == "default":
        if b == "grid":
            bound += 0.5e-6 + 4 * eps * c
        elif b in ("cube", "cube_corners"):
            bound += 0.5e-12 + 4 * eps * c
    return bound


def build(g: dict, route: str = "center", derive=None, min_size: int = 1, fractional: bool = False):
    """Grid under test and its float64 model.  route 'derived': the grid is obtained from the constructed one by
    deepali's own derivation methods after the parent was used (state carried by Grid objects); the model is
    then built from the attributes the derived grid reports - the maps must be consistent with those."""
    if route != "derived":
        return make_grid(g, route), ref.GridModel.from_desc(g), []
    grid, ops = derive_grid(make_grid(g), derive, min_size, fractional)
    return grid, model_of_grid(grid), ops + (["fractional"] if not bool(torch.equal(grid._size, grid._size.round())) else [])


def nontrivial_grid(case) -> bool:
    g = case["grid"]
    return gen.grid_is_oblique(g) and gen.grid_is_anisotropic(g) and case.get("a") != case.get("b")


def _call_map(grid, p: torch.Tensor, a: str, b: str, api: str, decimals: str, to_grid=None):
    from deepali.core import functional as U
    from deepali.core.grid import grid_transform_points
    from deepali.core.linalg import homogeneous_transform

    A, B = _axes(a), _axes(b)
    kw = {} if decimals == "default" else {"decimals": None}
    if api == "matrix":
        M = grid.transform(A, B, to_grid=to_grid)
        # note: cube <-> cube_corners returns a (D, D) matrix although the docstring says (D, D + 1);
        # homogeneous_transform accepts both, and the property is about the map, so this is not asserted
        return homogeneous_transform(M.to(p.dtype), p), "none"
    if api == "function":
        return grid_transform_points(p, grid, A, to_grid if to_grid is not None else grid, B, **kw), decimals
    if api == "helper" and to_grid is None:
        ac_of = {"cube": False, "cube_corners": True}
        name = None
        if a == "grid" and b == "world":
            return grid.index_to_world(p, **kw), decimals
        if a == "world" and b == "grid":
            return grid.world_to_index(p, **kw), decimals
        if a == "grid" and b in ac_of:
            return grid.index_to_cube(p, align_corners=ac_of[b], **kw), decimals
        if a in ac_of and b == "grid":
            return grid.cube_to_index(p, align_corners=ac_of[a], **kw), decimals
        if a in ac_of and b == "world":
            return grid.cube_to_world(p, align_corners=ac_of[a], **kw), decimals
        if a == "world" and b in ac_of:
            return grid.world_to_cube(p, align_corners=ac_of[b], **kw), decimals
    return grid.transform_points(p, A, B, to_grid=to_grid, **kw), decimals


def build_second(grid, m, g2: dict, min_size: int = 1, fractional: bool = False):
    """Second grid of a two-grid case: from its own descriptor, or derived from the first Grid object (either
    one may then play the role of the source grid)."""
    if g2.get("rel") != "derived":
        return grid, m, make_grid(g2), ref.GridModel.from_desc(g2), []
    other, ops = derive_grid(grid, g2["derive"], min_size, fractional or bool(g2.get("fractional")))
    mo = model_of_grid(other)
    if not bool(torch.equal(other._size, other._size.round())):
        ops = ops + ["fractional"]
    if g2.get("swap"):
        return other, mo, grid, m, ops
    return grid, m, other, mo, ops


def run_ref_model(case):
    g = case["grid"]
    a, b = case["a"], case["b"]
    min_size = 2 if any(x in ("cube", "cube_corners") for x in (a, b)) else 1
    grid, m, ops = build(g, case["route"], case.get("derive"), min_size, bool(case.get("fractional")))
    m2, grid2 = m, None
    if "grid2" in case:
        grid, m, grid2, m2, ops2 = build_second(grid, m, case["grid2"], min_size)
        ops = ops + ops2
    state = grid_state(grid)
    pa = model_points(m, case["rel"], a)
    expect = m.points(pa, a, b, m2)
    dt = tdtype(case["dtype"])
    p = torch.tensor(shape_points(pa, case["form"]), dtype=dt)
    p0 = p.clone()
    out, dec = _call_map(grid, p, a, b, case["api"], case["decimals"], grid2)
    if not torch.equal(p, p0):
        raise Violation("input_modified", f"{case['api']} modified its input points")
    exp_shaped = shape_points(expect, case["form"])
    if tuple(out.shape) != exp_shaped.shape:
        raise Violation("result_shape", f"{case['api']} {a}->{b}: shape {tuple(out.shape)} for input {tuple(p.shape)}")
    if out.dtype != dt:
        raise Violation("result_dtype", f"{case['api']} {a}->{b}: dtype {out.dtype} for input {dt}")
    bound = _bound(m2, m, a, b, pa, dt, dec)
    r = check_close(out, exp_shaped, bound, "map_vs_model" if grid2 is None else "two_grid_map_vs_model",
                    f"{case['api']} {a}->{b} decimals={case['decimals']} route={case['route']}")
    assert_grid_intact(grid, state, "after " + case["api"])
    # default-align_corners helper spelling
    if grid2 is None and case["api"] == "helper":
        dflt = "cube_corners" if m.ac else "cube"
        if a == "grid" and b == dflt:
            check_close(grid.index_to_cube(p, decimals=None), exp_shaped, bound, "helper_default_align_corners", "index_to_cube()")
        if b == "grid" and a == dflt:
            check_close(grid.cube_to_index(p, decimals=None), exp_shaped, bound, "helper_default_align_corners", "cube_to_index()")
        if a == "world" and b == dflt:
            check_close(grid.world_to_cube(p, decimals=None), exp_shaped, bound, "helper_default_align_corners", "world_to_cube()")
        if b == "world" and a == dflt:
            check_close(grid.cube_to_world(p, decimals=None), exp_shaped, bound, "helper_default_align_corners", "cube_to_world()")
    return {"ratio": r, "nontrivial": nontrivial_grid(case) and (grid2 is None or case["grid2"].get("rel") == "derived" or gen.grid_is_oblique(case["grid2"])),
            "labels": [f"{a}->{b}", f"api={case['api']}", f"dec={case['decimals']}", g["kind"], f"ac={g['ac']}", case["dtype"],
                       f"form={case['form']}", f"D={case['D']}", f"route={case['route']}"]
            + ([f"rel={case['grid2'].get('rel')}"] if "grid2" in case else []) + [f"via={o}" for o in sorted(set(ops))]}


# ---------------------------------------------------------------------------------------
# metamorphic: inverse and composition


@st.composite
def law_cases(draw):
    D = draw(gen.dims())
    g = draw(gen.grids(D, min_size=2))
    case = {"D": D, "grid": g, "a": draw(st.sampled_from(AX)), "b": draw(st.sampled_from(AX)), "c": draw(st.sampled_from(AX)),
            "rel": draw(rel_points(D)), "dtype": draw(gen.dtypes()), "decimals": draw(st.sampled_from(["default", "none"])),
            "two": draw(st.booleans())}
    if case["two"]:
        case["grid2"] = draw(second_grid(g, D, 2))
        case["grid3"] = draw(second_grid(g, D, 2))
    return case


def run_laws(case):
    g = case["grid"]
    grid = make_grid(g)
    state = grid_state(grid)
    m = ref.GridModel.from_desc(g)
    a, b, c = case["a"], case["b"], case["c"]
    A, B, C = _axes(a), _axes(b), _axes(c)
    dt = tdtype(case["dtype"])
    kw = {} if case["decimals"] == "default" else {"decimals": None}
    pa_np = model_points(m, case["rel"], a)
    pa = torch.tensor(pa_np, dtype=dt)
    if case["two"]:
        # (derived second / third grids come from the first Grid object itself; no role swap here)
        _, _, gB, mB, _ = build_second(grid, m, dict(case["grid2"], swap=False), 2)
        _, _, gC, mC, _ = build_second(grid, m, dict(case["grid3"], swap=False), 2)
    else:
        gB = gC = grid
        mB = mC = m
    pb = grid.transform_points(pa, A, B, to_grid=gB, **kw)
    back = gB.transform_points(pb, B, A, to_grid=grid, **kw)
    bA = _bound(m, mB, b, a, m.points(pa_np, a, b, mB), dt, case["decimals"])
    # error made in b-space propagates to a-space with the b->a scale: use the model to convert
    bB = _bound(mB, m, a, b, pa_np, dt, case["decimals"])
    Lba = np.abs(mB.matrix(b, a, m)[:, : m.D]).sum(1).max()
    r1 = check_close(back, pa_np, bA + Lba * bB, "roundtrip", f"{a}->{b}->{a} decimals={case['decimals']} two={case['two']}")
    pc_direct = grid.transform_points(pa, A, C, to_grid=gC, **kw)
    pc_via = gB.transform_points(pb, B, C, to_grid=gC, **kw)
    bC = _bound(mC, m, a, c, pa_np, dt, case["decimals"])
    bC2 = _bound(mC, mB, b, c, m.points(pa_np, a, b, mB), dt, case["decimals"])
    Lbc = np.abs(mB.matrix(b, c, mC)[:, : m.D]).sum(1).max()
    r2 = check_close(pc_via, pc_direct.double().numpy(), bC + bC2 + Lbc * bB, "composition",
                     f"{a}->{c} vs {a}->{b}->{c} decimals={case['decimals']} two={case['two']}")
    assert_grid_intact(grid, state, "after point maps")
    nt = gen.grid_is_oblique(g) and gen.grid_is_anisotropic(g) and len({a, b, c}) == 3
    return {"ratio": max(r1, r2), "nontrivial": nt,
            "labels": [f"{a}->{b}->{c}", f"two={case['two']}", f"dec={case['decimals']}", case["dtype"]]}


# ---------------------------------------------------------------------------------------
# vectors


@st.composite
def vector_cases(draw):
    D = draw(gen.dims())
    g = draw(gen.grids(D, min_size=2))
    case = {"D": D, "grid": g, "a": draw(st.sampled_from(AX)), "b": draw(st.sampled_from(AX)),
            "rel": draw(rel_points(D, 2, 4)), "dtype": draw(gen.dtypes()), "two": draw(st.booleans()),
            "form": draw(st.sampled_from(["single", "list", "batch", "nd"])),
            "api": draw(st.sampled_from(["method", "function", "matrix"]))}
    n = len(case["rel"])
    case["vec"] = draw(st.lists(st.lists(gen.qfloat(-2.0, 2.0, 0.001), min_size=D, max_size=D), min_size=n, max_size=n))
    if draw(st.integers(0, 2)) == 0:
        case["derive"] = draw(gen.derivation_steps(D))
        case["fractional"] = draw(st.booleans())
    if case["two"]:
        case["grid2"] = draw(second_grid(g, D, 2))
    return case


def run_vectors(case):
    from deepali.core.grid import grid_transform_vectors
    from deepali.core.linalg import homogeneous_transform

    g = case["grid"]
    grid, m, ops = build(g, "derived" if "derive" in case else "center", case.get("derive"), 2, bool(case.get("fractional")))
    a, b = case["a"], case["b"]
    A, B = _axes(a), _axes(b)
    dt = tdtype(case["dtype"])
    eps = max(EPS32, eps_of(dt))
    grid2, m2 = None, m
    if case["two"]:
        grid, m, grid2, m2, ops2 = build_second(grid, m, case["grid2"], 2)
        ops = ops + ops2
    state = grid_state(grid)
    # vector magnitudes: 'vec' is in index units of the source grid; convert to axes a with the model
    v_idx = np.asarray(case["vec"], dtype=np.float64)
    va = m.vectors(v_idx, "grid", a)
    expect = m.vectors(va, a, b, m2)
    v = torch.tensor(shape_points(va, case["form"]), dtype=dt)
    v0 = v.clone()
    if case["api"] == "method":
        out = grid.transform_vectors(v, A, B, to_grid=grid2)
    elif case["api"] == "function":
        out = grid_transform_vectors(v, grid, A, grid2 if grid2 is not None else grid, B)
    else:
        L = grid.transform(A, B, to_grid=grid2, vectors=True)
        if tuple(L.shape) != (grid.ndim, grid.ndim):
            raise Violation("vector_matrix_shape", f"transform(vectors=True) has shape {tuple(L.shape)}")
        H = grid.transform(A, B, to_grid=grid2)
        # both matrices are float32 products (world -> b) @ (a -> world) evaluated along different code paths:
        # their rounding errors are bounded component-wise by eps * |B| |A|
        prod = np.abs(m2.matrix("world", b)[:, : m.D]) @ np.abs(m.matrix(a, "world")[:, : m.D])
        check_close(L, H[:, : grid.ndim], 0.0 if grid2 is None else K * EPS32 * max(1.0, float(prod.max())),
                    "vector_matrix_vs_point_matrix", f"transform({a},{b},vectors=True) != linear block of point transform")
        out = homogeneous_transform(L.to(dt), v, vectors=True)
    if not torch.equal(v, v0):
        raise Violation("input_modified", "vector API modified its input")
    # deepali forms (world -> b) @ (a -> world) in float32: the rounding error of that product is bounded
    # component-wise by eps * |B| |A| |v| (not by the magnitude of the possibly cancelling result)
    Aw = np.abs(m.matrix(a, "world")[:, : m.D])
    Bw = np.abs(m2.matrix("world", b)[:, : m.D])
    scale = max(1e-30, float(np.abs(expect).max()), float((np.abs(va) @ Aw.T @ Bw.T).max()))
    bound = K * eps * scale
    exp_shaped = shape_points(expect, case["form"])
    if tuple(out.shape) != exp_shaped.shape:
        raise Violation("result_shape", f"vectors {a}->{b}: shape {tuple(out.shape)}")
    r = check_close(out, exp_shaped, bound, "vectors_vs_model", f"{case['api']} {a}->{b} two={case['two']}")
    # linear part of the point map: T(p+v) - T(p)   (float64 points, rounding off)
    pa = model_points(m, case["rel"], a)
    P = torch.tensor(pa, dtype=torch.float64)
    V = torch.tensor(va, dtype=torch.float64)
    d = grid.transform_points(P + V, A, B, to_grid=grid2, decimals=None) - grid.transform_points(P, A, B, to_grid=grid2, decimals=None)
    cond = _bound(m2, m, a, b, pa, torch.float64, "none")
    check_close(grid.transform_vectors(V, A, B, to_grid=grid2), d.numpy(), 2 * cond + bound, "vectors_vs_point_difference",
                f"transform_vectors != T(p+v)-T(p) for {a}->{b}")
    if a == "world" and b == "world":
        if not torch.equal(grid.transform_vectors(v, A, B), v):
            raise Violation("world_vectors_changed", "world->world vector map is not the identity")
    # vector conversions to every axes are read-only: the grid must be unchanged and a repeated call must agree
    for ax in AX:
        grid.transform_vectors(V, A, _axes(ax))
    assert_grid_intact(grid, state, "after transform_vectors")
    check_close(grid.transform_vectors(v, A, B, to_grid=grid2), exp_shaped, bound, "vectors_repeat_call", f"second call {a}->{b}")
    nt = gen.grid_is_oblique(g) and gen.grid_is_anisotropic(g) and a != b
    return {"ratio": r, "nontrivial": nt, "labels": [f"{a}->{b}", f"api={case['api']}", f"two={case['two']}", case["dtype"]]
            + ([f"rel={case['grid2'].get('rel')}"] if case["two"] else []) + [f"via={o}" for o in sorted(set(ops))]}


# ---------------------------------------------------------------------------------------
# anchors


@st.composite
def anchor_cases(draw):
    D = draw(gen.dims())
    case = {"D": D, "grid": draw(gen.grids(D, min_size=2)), "route": draw(st.sampled_from(["center", "origin", "derived"]))}
    if case["route"] == "derived":
        case["derive"] = draw(gen.derivation_steps(D))
        case["fractional"] = draw(st.booleans())
    return case


def run_anchors(case):
    from deepali.core import Axes

    g = case["grid"]
    grid, m, ops = build(g, case["route"], case.get("derive"), 2, bool(case.get("fractional")))
    state = grid_state(grid)
    D = case["D"]
    n = m.n
    w = m.cond("grid", "world")
    bw = K * EPS32 * w
    zero = torch.zeros(1, D, dtype=torch.float64)
    r = check_close(grid.index_to_world(zero)[0], m.o, bw, "index0_is_origin", "index_to_world(0) vs model origin")
    check_close(grid.origin(), m.o, bw, "origin_accessor", "Grid.origin() vs model origin")
    check_close(grid.index_to_world(zero)[0], grid.origin().double().numpy(), bw, "index0_is_origin_accessor", "index_to_world(0) vs Grid.origin()")
    mid = torch.tensor((n - 1) / 2, dtype=torch.float64)[None]
    check_close(grid.index_to_world(mid)[0], m.c, bw, "mid_index_is_center", "index (n-1)/2 vs center")
    check_close(grid.center(), m.c, bw, "center_accessor", "Grid.center() vs descriptor center")
    first = m.points(np.zeros((1, D)), "grid", "world")[0]
    last = m.points((n - 1)[None], "grid", "world")[0]
    ones = torch.ones(1, D, dtype=torch.float64)
    check_close(grid.transform_points(-ones, Axes.CUBE_CORNERS, Axes.WORLD)[0], first, bw, "cube_corners_minus1_first_sample", "")
    check_close(grid.transform_points(ones, Axes.CUBE_CORNERS, Axes.WORLD)[0], last, bw, "cube_corners_plus1_last_sample", "")
    before = m.points(np.full((1, D), -0.5), "grid", "world")[0]
    after = m.points((n - 0.5)[None], "grid", "world")[0]
    check_close(grid.transform_points(-ones, Axes.CUBE, Axes.WORLD)[0], before, bw, "cube_minus1_half_sample_before", "")
    check_close(grid.transform_points(ones, Axes.CUBE, Axes.WORLD)[0], after, bw, "cube_plus1_half_sample_after", "")
    bi = K * EPS32 * float(n.max())
    check_close(grid.transform_points(-ones, Axes.CUBE, Axes.GRID, decimals=None)[0], np.full(D, -0.5), bi, "cube_minus1_index", "")
    check_close(grid.transform_points(ones, Axes.CUBE, Axes.GRID, decimals=None)[0], n - 0.5, bi, "cube_plus1_index", "")
    check_close(grid.transform_points(-ones, Axes.CUBE_CORNERS, Axes.GRID, decimals=None)[0], np.zeros(D), bi, "cube_corners_minus1_index", "")
    check_close(grid.transform_points(ones, Axes.CUBE_CORNERS, Axes.GRID, decimals=None)[0], n - 1, bi, "cube_corners_plus1_index", "")
    # direction columns are unit steps scaled by the spacing
    for k in range(D):
        e = torch.zeros(1, D, dtype=torch.float64)
        e[0, k] = 1
        step = (grid.index_to_world(e) - grid.index_to_world(zero))[0]
        check_close(step, m.s[k] * m.R[:, k], bw, "unit_step_direction", f"axis {k}")
    assert_grid_intact(grid, state, "after anchor queries")
    return {"ratio": r, "nontrivial": gen.grid_is_oblique(g) and gen.grid_is_anisotropic(g),
            "labels": [g["kind"], f"ac={g['ac']}", f"route={case['route']}", f"D={D}"] + [f"via={o}" for o in sorted(set(ops))]}


# ---------------------------------------------------------------------------------------
# lattice


def lattice_enum(tier):
    if tier == "thorough":
        ns = range(1, 4097)
    else:
        ns = sorted(set(list(range(1, 65)) + [2 ** k + d for k in range(6, 13) for d in (-1, 0, 1) if 2 ** k + d <= 4096]
                        + [97, 100, 127, 255, 333, 515, 1000, 1023, 2049, 3000, 4095, 4096]))
    for n in ns:
        for ac in (True, False):
            for dt in ("float32", "float64"):
                yield {"n": n, "ac": ac, "dtype": dt}


def run_lattice(case):
    from deepali.core import Axes, Grid

    n, ac, dt = case["n"], case["ac"], tdtype(case["dtype"])
    eps = eps_of(dt)
    grid = Grid(size=(n, 2), align_corners=ac)
    x = grid.coords(dim=0, align_corners=ac, dtype=dt).reshape(-1).double().numpy()
    if x.shape[0] != n:
        raise Violation("lattice_count", f"coords(dim=0) has {x.shape[0]} samples for n={n} ac={ac} {case['dtype']}")
    if n > 1 and not np.all(np.diff(x) > 0):
        raise Violation("lattice_not_increasing", f"n={n} ac={ac}")
    i = np.arange(n, dtype=np.float64)
    expect = np.zeros(1) if n == 1 else (2 * i / (n - 1) - 1 if ac else (2 * i + 1) / n - 1)
    r = check_close(x, expect, 4 * eps * max(n, 8), "lattice_vs_model", f"n={n} ac={ac} {case['dtype']}")
    if x.min() < -1.0 or x.max() > 1.0:
        raise Violation("lattice_outside_unit_interval:" + case["dtype"] + (":ac" if ac else ":noac"),
                        f"n={n}: min {x.min()!r} max {x.max()!r}")
    if n > 1:
        idx = torch.stack([torch.arange(n, dtype=dt), torch.zeros(n, dtype=dt)], 1)
        via = grid.index_to_cube(idx, align_corners=ac, decimals=None)[:, 0]
        check_close(via, expect, 4 * max(eps, EPS32) * max(n, 8) if dt == torch.float32 else 8 * EPS32, "lattice_vs_index_to_cube", f"n={n}")
    # full coords tensor: shape (..., X, D), (x, y) order
    c = grid.coords(align_corners=ac, dtype=dt)
    if tuple(c.shape) != (2, n, 2):
        raise Violation("coords_shape", f"coords() shape {tuple(c.shape)} for size ({n},2)")
    check_close(c[0, :, 0], expect, 4 * eps * max(n, 8), "coords_x_channel", f"n={n}")
    cf = grid.coords(align_corners=ac, dtype=dt, channels_last=False, flip=True)
    if tuple(cf.shape) != (2, 2, n):
        raise Violation("coords_shape", f"coords(channels_last=False) shape {tuple(cf.shape)}")
    check_close(cf[1], c[..., 0], 0.0, "coords_flip_channels", "flip/channels_last variants disagree")
    return {"ratio": r, "nontrivial": n >= 3, "labels": [f"ac={ac}", case["dtype"]]}


@st.composite
def points_cases(draw):
    D = draw(gen.dims())
    return {"D": D, "grid": draw(gen.grids(D, min_size=2, max_size=9)), "axes": draw(st.sampled_from(AX))}


def run_points(case):
    g = case["grid"]
    grid = make_grid(g)
    m = ref.GridModel.from_desc(g)
    a = case["axes"]
    out = grid.points(_axes(a))
    expect = m.points(m.index_points(), "grid", a)
    if tuple(out.shape) != expect.shape:
        raise Violation("points_shape", f"Grid.points({a}) shape {tuple(out.shape)} expected {expect.shape}")
    bound = K * EPS32 * m.cond("grid", a, m.index_points().reshape(-1, m.D)) + (0.5e-12 if a.startswith("cube") else 0)
    r = check_close(out, expect, bound, "grid_points_vs_model", f"Grid.points({a})")
    return {"ratio": r, "nontrivial": gen.grid_is_oblique(g) and a != "grid", "labels": [a, f"D={case['D']}", f"ac={g['ac']}"]}


# ---------------------------------------------------------------------------------------
# identity sampling


@st.composite
def sampling_cases(draw):
    D = draw(gen.dims())
    shape = draw(st.lists(st.integers(1, 9 if D == 2 else 6), min_size=D, max_size=D))
    return {"D": D, "shape": shape, "ac": draw(st.booleans()), "mode": draw(st.sampled_from(["bilinear", "nearest"])),
            "C": draw(st.integers(1, 2)), "key": draw(st.integers(0, 10 ** 6)),
            "via": draw(st.sampled_from(["torch", "grid_sample", "Image.sample"]))}


def run_sampling(case):
    import torch.nn.functional as F

    from deepali.core import Grid
    from deepali.core import functional as U
    from deepali.data import Image

    shape, ac = case["shape"], case["ac"]
    data = torch.tensor(hash_noise((1, case["C"]) + tuple(shape), case["key"], 0.0, 100.0), dtype=torch.float32)
    grid = Grid(shape=shape, align_corners=ac)
    coords = grid.coords(align_corners=ac)
    mode = case["mode"]
    if case["via"] == "torch":
        out = F.grid_sample(data, coords.unsqueeze(0), mode=mode, padding_mode="border", align_corners=ac)
    elif case["via"] == "grid_sample":
        out = U.grid_sample(data, coords.unsqueeze(0), mode="linear" if mode == "bilinear" else "nearest", padding="border", align_corners=ac)
    else:
        img = Image(data[0], grid)
        out = img.sample(coords, mode="linear" if mode == "bilinear" else "nearest")
        out = torch.as_tensor(out).as_subclass(torch.Tensor).unsqueeze(0)
    if out.shape != data.shape:
        raise Violation("identity_sampling_shape", f"{tuple(out.shape)} != {tuple(data.shape)}")
    # coordinates are accurate to a few ulp -> linear interpolation error <= range * n * ulp
    bound = 0.0 if mode == "nearest" else 100.0 * 16 * EPS32 * max(shape)
    r = check_close(out, data, bound if bound else 1e-12, "identity_sampling", f"via {case['via']} mode={mode} ac={ac} shape={shape}")
    return {"ratio": r, "nontrivial": min(shape) >= 2, "labels": [f"via={case['via']}", mode, f"ac={ac}", f"D={case['D']}"]}


# ---------------------------------------------------------------------------------------
# Cube


@st.composite
def cube_cases(draw):
    D = draw(gen.dims())
    return {"D": D, "grid": draw(gen.grids(D, min_size=2)), "rel": draw(rel_points(D)),
            "vec": draw(st.lists(gen.qfloat(-1.0, 1.0, 0.001), min_size=D, max_size=D)),
            "grid2": draw(gen.grids(D, min_size=2)), "dtype": draw(gen.dtypes())}


def run_cube(case):
    from deepali.core import Axes, Cube, Grid

    g = case["grid"]
    grid = make_grid(g)
    m = ref.GridModel.from_desc(g)
    D = case["D"]
    dflt = "cube_corners" if g["ac"] else "cube"
    cube = grid.cube()
    dt = tdtype(case["dtype"])
    x_np = model_points(m, case["rel"], dflt)
    x = torch.tensor(x_np, dtype=dt)
    w_np = m.points(x_np, dflt, "world")
    bw = K * EPS32 * m.cond(dflt, "world", x_np)
    r = check_close(cube.cube_to_world(x), w_np, bw, "cube_to_world", f"Cube of grid(ac={g['ac']})")
    bc = K * EPS32 * m.cond("world", dflt, w_np)
    check_close(cube.world_to_cube(torch.tensor(w_np, dtype=dt)), x_np, bc, "world_to_cube", "")
    check_close(cube.transform_points(x, Axes.CUBE, Axes.WORLD), w_np, bw, "cube_transform_points", "")
    H = cube.transform()
    check_close(H, m.matrix(dflt, "world"), bw, "cube_transform_matrix", "Cube.transform() vs model cube->world")
    Hi = cube.inverse_transform()
    check_close(Hi, m.matrix("world", dflt), bc, "cube_inverse_transform_matrix", "")
    v = np.asarray(case["vec"])[None]
    L = m.matrix(dflt, "world")[:, :D]
    check_close(cube.transform_vectors(torch.tensor(v, dtype=dt), Axes.CUBE, Axes.WORLD), v @ L.T,
                K * EPS32 * max(1e-30, float(np.abs(L).max())), "cube_vectors", "")
    # documented equivalence: Cube == Grid with three points and align_corners=True
    g3 = Grid(size=(3,) * D, spacing=cube.extent() / 2, center=cube.center(), direction=cube.direction(), align_corners=True)
    check_close(g3.transform(Axes.CUBE_CORNERS, Axes.WORLD), H, 8 * EPS32 * max(1.0, float(H.abs().max())), "cube_is_3point_grid", "")
    # cube to cube of another grid
    g2 = case["grid2"]
    m2 = ref.GridModel.from_desc(g2)
    cube2 = make_grid(g2).cube()
    d2 = "cube_corners" if g2["ac"] else "cube"
    expect = m.points(x_np, dflt, d2, m2)
    b2 = K * EPS32 * max(m.cond(dflt, "world", x_np) / float(m2.s.min()) * 2 / max(1.0, float((m2.n - 1).min())), m2.cond("world", d2))
    check_close(cube.transform_points(x, Axes.CUBE, Axes.CUBE, to_cube=cube2), expect, b2, "cube_to_other_cube", "")
    return {"ratio": r, "nontrivial": gen.grid_is_oblique(g) and gen.grid_is_anisotropic(g),
            "labels": [f"ac={g['ac']}", f"D={D}", case["dtype"]]}


# ---------------------------------------------------------------------------------------
# tensor-level helpers taking a size


@st.composite
def helper_cases(draw):
    D = draw(gen.dims())
    size = draw(st.lists(st.integers(2, 40), min_size=D, max_size=D))
    return {"D": D, "size": size, "ac": draw(st.booleans()), "channels_last": draw(st.booleans()),
            "idx": draw(st.lists(st.lists(gen.qfloat(-3.0, 43.0, 0.01), min_size=D, max_size=D), min_size=1, max_size=4)),
            "dtype": draw(gen.dtypes())}


def run_helpers(case):
    from deepali.core import Axes, Grid
    from deepali.core import functional as U

    D, size, ac = case["D"], case["size"], case["ac"]
    dt = tdtype(case["dtype"])
    eps = max(EPS32, eps_of(dt))
    grid = Grid(size=size, align_corners=ac)
    n = np.asarray(size, dtype=np.float64)
    idx = np.asarray(case["idx"], dtype=np.float64)
    k = idx.shape[0]
    cl = case["channels_last"]
    # vectors: (N, D, ..., X) or channels last (N, ..., X, D); use a (1, D, k, 1[,1]) layout
    sp = (k,) + (1,) * (D - 1)
    v = torch.tensor(idx.T.reshape((1, D) + sp), dtype=dt)
    vin = v.movedim(1, -1) if cl else v
    out = U.normalize_flow(vin, size=torch.Size(size), align_corners=ac, channels_last=cl)
    out = out.movedim(-1, 1) if cl else out
    unit = 2 / (n - 1) if ac else 2 / n
    expect = (idx * unit).T.reshape((1, D) + sp)
    r = check_close(out, expect, K * eps * float(np.abs(expect).max() + 1), "normalize_flow", f"ac={ac} channels_last={cl}")
    back = U.denormalize_flow(out.movedim(1, -1) if cl else out, size=torch.Size(size), align_corners=ac, channels_last=cl)
    back = back.movedim(-1, 1) if cl else back
    check_close(back, v, K * eps * float(np.abs(idx).max() + 1), "denormalize_flow_roundtrip", "")
    tv = grid.transform_vectors(torch.tensor(idx, dtype=dt), Axes.GRID, Axes.from_align_corners(ac))
    check_close(tv, idx * unit, K * eps * float(np.abs(expect).max() + 1), "transform_vectors_unit", "")
    # points
    p = torch.tensor(idx.reshape((1,) + sp + (D,)), dtype=dt)
    pin = p if cl else p.movedim(-1, 1)
    q = U.normalize_grid(pin, size=torch.Size(size), align_corners=ac, channels_last=cl)
    qb = U.denormalize_grid(q, size=torch.Size(size), align_corners=ac, channels_last=cl)
    check_close(qb, pin, K * eps * float(np.abs(idx).max() + 1), "denormalize_grid_roundtrip", f"ac={ac} channels_last={cl}")
    if ac:
        qq = q if cl else q.movedim(1, -1)
        exp_pts = (2 * idx / (n - 1) - 1).reshape((1,) + sp + (D,))
        check_close(qq, exp_pts, K * eps * float(np.abs(exp_pts).max() + 1), "normalize_grid_align_corners", "")
    return {"ratio": r, "nontrivial": len(set(size)) > 1, "labels": [f"ac={ac}", f"cl={cl}", f"D={D}", case["dtype"]]}


FACETS = [
    Facet("ref_model", run_ref_model, strategy=lambda: map_cases(False),
          rule="grid x ordered axes pair x points x API x rounding; non-trivial = oblique direction, anisotropic spacing, a != b",
          quick=1500, thorough=40000, shards=16, quick_shards=2),
    Facet("two_grids", run_ref_model, strategy=lambda: map_cases(True),
          rule="two independent grids; non-trivial = both oblique, first anisotropic, a != b",
          quick=800, thorough=20000, shards=16, quick_shards=2),
    Facet("inverse_and_compose", run_laws, strategy=law_cases,
          rule="ordered triples of axes on one or three grids, default rounding and none; non-trivial = oblique anisotropic grid, 3 distinct axes",
          quick=800, thorough=20000, shards=16, quick_shards=2),
    Facet("vectors", run_vectors, strategy=vector_cases,
          rule="vector maps vs model linear part and vs point-map differences; non-trivial = oblique anisotropic, a != b",
          quick=800, thorough=20000, shards=16, quick_shards=2),
    Facet("anchors", run_anchors, strategy=anchor_cases,
          rule="documented anchors on generated grids; non-trivial = oblique anisotropic", quick=300, thorough=6000, shards=8),
    Facet("lattice", run_lattice, enumerate=lattice_enum, exhaustive_tiers=("thorough",), quick=0, thorough=0, shards=16, quick_shards=4,
          rule="1-D sample lattice: n x align_corners x dtype enumerated (thorough: all n in [1,4096]); non-trivial = n >= 3"),
    Facet("grid_points", run_points, strategy=points_cases,
          rule="Grid.points(axes) vs model maps of integer indices; non-trivial = oblique and axes != grid", quick=200, thorough=4000, shards=8),
    Facet("identity_sampling", run_sampling, strategy=sampling_cases,
          rule="hash-noise image sampled at its own normalised coordinates; non-trivial = every axis >= 2 samples",
          quick=300, thorough=6000, shards=8),
    Facet("cube", run_cube, strategy=cube_cases,
          rule="Cube maps of generated grids vs model; non-trivial = oblique anisotropic", quick=300, thorough=6000, shards=8),
    Facet("functional_helpers", run_helpers, strategy=helper_cases,
          rule="normalize/denormalize flow and grid helpers vs unit 2/(n-1) or 2/n; non-trivial = non-cubic size",
          quick=300, thorough=6000, shards=8),
]
