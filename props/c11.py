"""C11 - Scaling-and-squaring equals the closed form for affine velocity fields."""
from __future__ import annotations

import inspect
import math

import numpy as np
import torch
from hypothesis import strategies as st

from vlib import gen, ref
from vlib.case import hash_noise, smooth_field, tdtype
from vlib.core import Facet, Skip, Violation, check_close, eps_of

PROPERTY = "C11"
MANIFEST = {
    "text": "Generated-input search (Hypothesis) over dimensions, shapes, conventions, constructed invariant affine generators, steps, scales, dtypes and batch sizes against the closed form (I+sH/2^k)^(2^k) computed in float64 numpy, plus metamorphic equivalences (inverse flag / negated field / negated scale, ExpFlow and SVF-transform forms), a convergence bound to expm and a derived second-order bound for smooth fields. Every call of expv / ExpFlow / ExpFlow.forward is made in a generated argument form (keywords, positional in the documented order, documented defaults omitted) and the documented positional order is compared with the live signature; calls are preceded (generated) by in-place modification of Grid.coords() tensors of a grid of the same shape and of the result of an earlier identical call, which must not change the result. Exploration: no absence proof; the closed form pins every grid point to ~1e-14 (f64) so discrete convention/scaling errors are orders of magnitude above the bound.",
    "note": "Trusted: numpy/scipy matrix_power and expm, the reference construction of normalised sample coordinates in props/c11.py; CPU only; float32/float64; shapes <= 12 (2-D) / 9 (3-D) per axis for the closed form.",
    "technique": "property-based testing (Hypothesis) with a closed-form reference model and metamorphic relations",
}
ASSUMPTIONS = [
    "affine generators are constructed (not filtered) so that the hull of the sample coordinates is invariant",
    "smooth-field inverse bound err <= 3 a^2 D (pi w/(n-1))^2 + floor is derived from the linear-interpolation error "
    "of each squaring step (see run_smooth); measured values on the pinned tree are <= 0.4 of it",
    "documented positional order = order of the 'Args:' sections of the docstrings = the literal lists in SIGNATURES "
    "(identical to the signatures of the pinned tree); positional calls are built from these lists, and a live signature "
    "that no longer starts with them (or makes one of them keyword-only) is reported as signature_changed:<function>; "
    "additional trailing parameters with defaults are accepted",
    "documented defaults (literal DEFAULTS): an argument equal to its default may be omitted; steps=None means 5 "
    "squaring steps and scale=None means 1 (ExpFlow docstring 'Default is 1'; expv / ExpFlow code), so steps=5 and "
    "scale=1 may be omitted as well; 'linear' / 'border' are the string forms of the default sampling / padding",
    "tensors returned by Grid.coords(), expv() and ExpFlow belong to the caller, who may modify them in place (the idiom "
    "x = grid.coords(...); x.unsqueeze_(0).add_(flow) of the repository's example scripts); the only documented alias is "
    "expv(steps=0), which may return its argument; inverse=True is generated in closed_form only together with the "
    "negated scale, because the constructed generator is invariant only for a non-negative effective factor",
]


# ---------------------------------------------------------------------------------------
# helpers

# ---------------------------------------------------------------------------------------
# argument forms: documented positional order and defaults of the functions of C11 / C13 (shared with props/c13.py)

# Order of the parameters as documented (the "Args:" sections of the docstrings list them in exactly this order on
# the pinned tree).  A positional call is built from THIS list, never from the live signature.
SIGNATURES = {
    "expv": ["flow", "scale", "steps", "sampling", "padding", "align_corners", "inverse"],
    "compose_flows": ["u", "v", "align_corners"],
    "compose_svfs": ["u", "v", "mode", "sigma", "spacing", "stride", "bch_terms"],
    "lie_bracket": ["v", "u", "mode", "sigma", "spacing", "stride"],
    "logv": ["flow", "num_iters", "bch_terms", "sigma", "spacing", "exp_steps", "sampling", "padding", "align_corners"],
    "ExpFlow": ["scale", "steps", "align_corners"],
    "ExpFlow.forward": ["x", "inverse"],
}
# Documented defaults of the optional parameters (an argument equal to its default may be omitted: form "omit").
DEFAULTS = {
    "expv": {"scale": None, "steps": None, "sampling": "linear", "padding": "border", "align_corners": True, "inverse": False},
    "compose_flows": {"align_corners": True},
    "compose_svfs": {"mode": None, "sigma": None, "spacing": None, "stride": None, "bch_terms": 3},
    "lie_bracket": {"mode": None, "sigma": None, "spacing": None, "stride": None},
    "logv": {"num_iters": 5, "bch_terms": 1, "sigma": 1.0, "spacing": None, "exp_steps": None, "sampling": "linear",
             "padding": "border", "align_corners": True},
    "ExpFlow": {"scale": None, "steps": None, "align_corners": True},
    "ExpFlow.forward": {"inverse": False},
}
# values that mean the same as the default (expv / ExpFlow / logv: steps=None is 5 squaring steps, scale=None is 1)
DEFAULT_ALIASES = {
    ("expv", "steps"): 5, ("ExpFlow", "steps"): 5, ("logv", "exp_steps"): 5,
    ("expv", "scale"): 1, ("ExpFlow", "scale"): 1,
}
FORMS = ["kw", "pos", "omit"]
_SIGNATURE_OK = {}


def forms():
    """Strategy: how the optional arguments are passed: by keyword, positionally in documented order, or omitted
    wherever they equal the documented default."""
    return st.sampled_from(FORMS)


def check_signature(name: str, fn) -> None:
    """The documented parameters must still come first, in the documented order, and be passable positionally;
    additional trailing parameters need defaults."""
    if _SIGNATURE_OK.get(name) is fn:
        return
    pinned = SIGNATURES[name]
    params = list(inspect.signature(fn).parameters.values())
    live = [p.name for p in params]
    ok = live[:len(pinned)] == pinned
    ok = ok and all(p.kind in (p.POSITIONAL_ONLY, p.POSITIONAL_OR_KEYWORD) for p in params[:len(pinned)])
    ok = ok and all(p.default is not p.empty or p.kind in (p.VAR_POSITIONAL, p.VAR_KEYWORD) for p in params[len(pinned):])
    if not ok:
        raise Violation(f"signature_changed:{name}", f"parameters of {name} are {live}, documented positional order is {pinned}")
    _SIGNATURE_OK[name] = fn


def _is_default(name: str, key: str, value) -> bool:
    d = DEFAULTS[name][key]
    if isinstance(value, (torch.Tensor, list, tuple)):
        return False
    if value is d or (type(value) is type(d) and value == d):
        return True
    alias = DEFAULT_ALIASES.get((name, key))
    return alias is not None and isinstance(value, (int, float)) and not isinstance(value, bool) and value == alias


def invoke(name: str, fn, form: str, args, given: dict, sig_of=None):
    """Call fn(*args, <given>) in the generated argument form.

    kw: fn(*args, **given).  omit: as kw, arguments equal to the documented default left out.  pos: all arguments
    positional in the documented order up to the last one given; documented defaults for those in between."""
    check_signature(name, fn if sig_of is None else sig_of)
    if form == "kw":
        return fn(*args, **given)
    if form == "omit":
        return fn(*args, **{k: v for k, v in given.items() if not _is_default(name, k, v)})
    if form != "pos":
        raise ValueError(form)
    opt = SIGNATURES[name][len(args):]
    unknown = [k for k in given if k not in opt]
    if unknown:
        raise ValueError(f"{name}: not documented parameters {unknown}")
    last = max((opt.index(k) for k in given), default=-1)
    pos = [given[k] if k in given else DEFAULTS[name][k] for k in opt[:last + 1]]
    return fn(*args, *pos)


# ---------------------------------------------------------------------------------------
# shared state: callers may do anything with tensors they were handed


def pollute_coords(shape, ac: bool, dt, mode) -> None:
    """Before the call under test: take Grid.coords() of a grid of the same shape and modify the returned tensor in
    place (the idiom `x = grid.coords(...); x.unsqueeze_(0).add_(flow)`).  A function of the properties builds its
    sampling points from Grid.coords() of a grid of that shape; its result must not depend on what other callers did
    with *their* coordinates.  mode: None (nothing), 'cl' / 'cf' (only the variant with the convention and dtype of the
    call under test, channels last / first), 'axes' (the 1-D per-axis forms), 'sweep' (every variant; the matching
    ones last)."""
    if not mode:
        return
    from deepali.core import Grid

    D = len(shape)

    def spoil(x):
        if x.is_floating_point():
            x.unsqueeze_(0).mul_(-0.5).add_(0.375)
        else:
            x.unsqueeze_(0).mul_(-3).add_(7)

    def matched(which):
        g = Grid(shape=shape, align_corners=ac)
        for cl in which:
            spoil(g.coords(channels_last=cl, dtype=dt))
            spoil(Grid(shape=shape, align_corners=not ac).coords(align_corners=ac, channels_last=cl, dtype=dt))

    if mode == "cl":
        matched([True])
    elif mode == "cf":
        matched([False])
    elif mode == "axes":
        for a in (ac, not ac):
            g = Grid(shape=shape, align_corners=a)
            for d in range(D):
                for t in (dt, torch.float32):
                    spoil(g.coords(dim=d, dtype=t))
                spoil(g.coords(dim=d, normalize=False, center=True))
    else:
        for a in (not ac, ac):
            g = Grid(shape=shape, align_corners=a)
            spoil(g.coords())
            spoil(g.coords(normalize=False))
            spoil(g.coords(normalize=False, center=True, dtype=dt))
            for t in (torch.float64, torch.float32):
                for cl in (False, True):
                    for flip in (True, False):
                        spoil(g.coords(channels_last=cl, flip=flip, dtype=t))
            for d in range(D):
                spoil(g.coords(dim=d, dtype=dt))
        matched([False, True])


def pollutions():
    return st.sampled_from([None, None, "cl", "cf", "axes", "sweep"])


def spoil_result(t: torch.Tensor) -> None:
    """In-place modification of a tensor returned by an earlier call (its owner may do that)."""
    t.mul_(-3.0).add_(0.625)



def cube_axis(n: int, ac: bool) -> np.ndarray:
    i = np.arange(n, dtype=np.float64)
    if n == 1:
        return np.zeros(1)
    return 2 * i / (n - 1) - 1 if ac else (2 * i + 1) / n - 1


def cube_coords(shape, ac: bool) -> np.ndarray:
    """Normalised sample coordinates, array (..., X, D) with (x, ...) component order."""
    axes = [cube_axis(n, ac) for n in shape]  # order (..., X)
    mesh = np.meshgrid(*axes, indexing="ij")
    return np.stack(mesh[::-1], axis=-1)


def build_generator(case) -> np.ndarray:
    """Construct H = [M | t] such that the sample hull is invariant (see DESIGN section 5)."""
    D = case["D"]
    shape = case["shape"]
    ac = case["ac"]
    h = np.array([np.abs(cube_axis(n, ac)).max() for n in shape[::-1]])  # (x, ...) order
    M = np.array(case["M"], dtype=np.float64).reshape(D, D)
    t = np.array(case["t"], dtype=np.float64)
    for i in range(D):
        off = sum(abs(M[i, j]) * h[j] for j in range(D) if j != i) + abs(t[i])
        M[i, i] = -(off / h[i]) * (1.0 + case["m1"][i]) - case["m2"][i]
    return np.concatenate([M, t[:, None]], axis=1)


def min_steps(H: np.ndarray, scale: float, steps: int) -> int:
    D = H.shape[0]
    k = steps
    while any(1.0 + scale * H[i, i] / 2 ** k < 0 for i in range(D)):
        k += 1
    return k


def affine_field(H: np.ndarray, x: np.ndarray) -> np.ndarray:
    """v(x) = M x + t at the points x (..., D) -> array (D, ..., X) channels first."""
    D = H.shape[0]
    v = x @ H[:, :D].T + H[:, D]
    return np.moveaxis(v, -1, 0)


def affine_case(draw, max_n=12):
    D = draw(gen.dims())
    shape = draw(st.lists(st.integers(2, max_n if D == 2 else min(max_n, 9)), min_size=D, max_size=D))
    return D, shape


@st.composite
def closed_form_cases(draw):
    D, shape = affine_case(draw)
    case = {
        "D": D, "shape": shape, "ac": draw(st.booleans()),
        "M": draw(st.lists(gen.qfloat(-0.5, 0.5, 0.01), min_size=D * D, max_size=D * D)),
        "t": draw(st.lists(gen.qfloat(-0.3, 0.3, 0.01), min_size=D, max_size=D)),
        "m1": draw(st.lists(gen.qfloat(0.0, 1.0, 0.05), min_size=D, max_size=D)),
        "m2": draw(st.lists(gen.qfloat(0.0, 0.3, 0.05), min_size=D, max_size=D)),
        "steps": draw(st.integers(0, 8)),
        "scale": draw(st.one_of(st.sampled_from([1.0, 0.5, 2.0, None, 0.0, 0]), gen.qfloat(0.1, 2.0, 0.01))),
        "dtype": draw(gen.dtypes()),
        "N": draw(st.integers(1, 3)),
        "via": draw(st.sampled_from(["expv", "expv", "ExpFlow", "svf"])),
        "form": draw(forms()), "pollute": draw(pollutions()),
        # inverse=True together with the negated scale (the generator is only invariant for the effective factor >= 0)
        "inverse": draw(st.booleans()), "repeat": draw(st.sampled_from([False, False, True])),
    }
    return case


def run_closed_form(case):
    from deepali.core import functional as U
    from deepali.modules import ExpFlow

    D, shape, ac = case["D"], case["shape"], case["ac"]
    dt = tdtype(case["dtype"])
    eps = eps_of(dt)
    scale = case["scale"]
    s = 1.0 if scale is None else float(scale)
    x = cube_coords(shape, ac)
    N = case["N"]
    fields, gens = [], []
    steps = case["steps"]
    for b in range(N):
        # batch items: generator scaled by 1/(b+1) stays invariant
        H = build_generator(case) / (b + 1)
        gens.append(H)
        steps = min_steps(H, s, steps)
        fields.append(affine_field(H, x))
    v = torch.tensor(np.stack(fields, 0), dtype=dt)
    v0 = v.clone()
    via = case["via"]
    form = case.get("form", "kw")
    inverse = bool(case.get("inverse")) and scale is not None and via != "svf"
    arg_scale = -scale if inverse else scale
    if via == "svf":
        eps = eps_of(torch.float32)
    pollute_coords(shape, ac, torch.float32 if via == "svf" else dt, case.get("pollute"))

    def compute(vin):
        if via == "expv":
            given = {"steps": steps, "align_corners": ac}
            if scale is not None:
                given["scale"] = arg_scale
            if inverse:
                given["inverse"] = True
            return invoke("expv", U.expv, form, [vin], given)
        if via == "ExpFlow":
            m = invoke("ExpFlow", ExpFlow, form, [], {"scale": arg_scale, "steps": steps, "align_corners": ac})
            return invoke("ExpFlow.forward", m, form, [vin], {"inverse": True} if inverse else {}, sig_of=m.forward)
        from deepali.core import Grid
        from deepali.spatial import StationaryVelocityFieldTransform

        grid = Grid(shape=shape, align_corners=ac)
        t = StationaryVelocityFieldTransform(grid, groups=N, params=vin.float(), scale=scale, steps=steps)
        t.update()
        check_close(t.v, vin.float(), 0.0, "svf_v_buffer", "buffer v of SVF transform != its parameters")
        if t.u.shape != vin.shape:
            raise Violation("svf_u_shape", f"u buffer shape {tuple(t.u.shape)} != {tuple(vin.shape)}")
        return t.u

    snap = None
    if case.get("repeat"):
        # a caller of an earlier, identical call modifies *its* result in place; the call under test must not notice
        first = compute(v.clone())
        snap = first.detach().clone()
        spoil_result(first.detach())
    out = compute(v)
    if not torch.equal(v, v0):
        raise Violation("input_modified", f"expv via {via} modified its input")
    if snap is not None:
        check_close(out, snap, 2 * eps * max(1.0, float(snap.abs().max())), "result_depends_on_earlier_result",
                    f"expv via {via}: same input, different result after the result of the first call was modified in place")
    if out.shape != v.shape or (via != "svf" and out.dtype != v.dtype):
        raise Violation("shape_dtype", f"result {tuple(out.shape)} {out.dtype} for input {tuple(v.shape)} {v.dtype}")
    worst = 0.0
    for b in range(N):
        P = ref.sas_power(gens[b], steps, s)
        expect = np.moveaxis(x @ (P[:D, :D] - np.eye(D)).T + P[:D, D], -1, 0)
        mag = max(1.0, float(np.abs(gens[b]).sum(1).max()) * abs(s))
        bound = 64 * eps * (steps + 1) * mag
        worst = max(worst, check_close(out[b], expect, bound, "closed_form",
                                       f"expv via {via} steps={steps} scale={scale} ac={ac} item {b}"))
    if steps == 0:
        check_close(out, v.double() * s, 4 * eps * max(1.0, float(v.abs().max())), "steps0", "steps=0 must return scale*v")
    offd = any(abs(case["M"][i * D + j]) > 0.02 for i in range(D) for j in range(D) if i != j)
    return {"ratio": worst, "nontrivial": offd and steps >= 2 and len(set(shape)) > 1,
            "labels": [f"via={via}", f"ac={ac}", case["dtype"], f"steps={steps}", f"N={N}", f"D={D}",
                       "scale=default" if scale is None else "scale=given", f"form={form}", f"inverse={inverse}",
                       f"pollute={case.get('pollute')}", f"repeat={bool(case.get('repeat'))}"]}


# ---------------------------------------------------------------------------------------
# inverse flag == negated field == negated scale; module forms


@st.composite
def equiv_cases(draw):
    D = draw(gen.dims())
    shape = draw(st.lists(st.integers(2, 10 if D == 2 else 7), min_size=D, max_size=D))
    return {
        "D": D, "shape": shape, "ac": draw(st.booleans()), "N": draw(st.integers(1, 3)),
        "steps": draw(st.integers(0, 6)), "scale": draw(st.one_of(st.none(), st.sampled_from([0.0, 0, 1, -1]), gen.qfloat(0.05, 2.0, 0.01), gen.qfloat(-2.0, -0.05, 0.01))),
        "amp": draw(gen.qfloat(0.0, 0.6, 0.01)), "key": draw(st.integers(0, 10 ** 6)),
        "dtype": draw(gen.dtypes()),
        "content": draw(st.sampled_from(["noise", "smooth"])),
        "form": draw(forms()), "pollute": draw(pollutions()),
    }


def make_field(case, amp=None):
    D, shape, N = case["D"], case["shape"], case["N"]
    amp = case["amp"] if amp is None else amp
    if case["content"] == "noise":
        f = hash_noise((N, D) + tuple(shape), case["key"], -amp, amp)
    else:
        f = np.stack([np.stack([smooth_field(shape, [1 + (c + b) % 2] * D, amp * (1 - 0.3 * c)) for c in range(D)]) for b in range(N)])
    return torch.tensor(f, dtype=tdtype(case["dtype"]))


def run_equiv(case):
    from deepali.core import functional as U
    from deepali.modules import ExpFlow

    v = make_field(case)
    ac, steps, scale = case["ac"], case["steps"], case["scale"]
    s = 1.0 if scale is None else scale
    form = case.get("form", "kw")
    kw = {"steps": steps, "align_corners": ac}
    if scale is not None:
        kw["scale"] = scale
    tol = 8 * eps_of(v.dtype) * max(1.0, float(v.abs().max()) * abs(s))
    v0 = v.clone()
    pollute_coords(case["shape"], ac, v.dtype, case.get("pollute"))

    def expv(f, **given):
        return invoke("expv", U.expv, form, [f], given)

    def module():
        return invoke("ExpFlow", ExpFlow, form, [], {"scale": scale, "steps": steps, "align_corners": ac})

    def fw(mod, f, **given):
        return invoke("ExpFlow.forward", mod, form, [f], given, sig_of=mod.forward)

    fwd = expv(v, **kw)
    inv = expv(v, inverse=True, **kw)
    inv_neg = expv(-v, **kw)
    inv_scale = expv(v, **dict(kw, scale=-s))
    fwd_false = expv(v, inverse=False, **kw)
    check_close(inv, inv_neg, tol, "inverse_vs_negated_field", "expv(v, inverse=True) != expv(-v)")
    check_close(inv, inv_scale, tol, "inverse_vs_negated_scale", "expv(v, inverse=True) != expv(v, scale=-scale)")
    check_close(fwd_false, fwd, tol, "inverse_false_vs_omitted", "expv(v, inverse=False) != expv(v)")
    if steps == 0:
        check_close(fwd, v0.double() * s, tol, "steps0", "steps=0 must return scale*v")
        check_close(inv, -v0.double() * s, tol, "steps0_inverse", "steps=0, inverse must return -scale*v")
    if not torch.equal(v, v0):
        raise Violation("input_modified", "expv modified its input")
    m = module()
    check_close(fw(m, v), fwd, tol, "module_forward", "ExpFlow()(v) != expv(v)")
    check_close(fw(m, v, inverse=True), inv, tol, "module_forward_inverse", "ExpFlow()(v, inverse=True) != expv(v, inverse=True)")
    check_close(fw(m, v, inverse=False), fwd, tol, "module_forward", "ExpFlow()(v, inverse=False) != expv(v)")
    check_close(m.inverse()(v), inv, tol, "module_inverse", "ExpFlow().inverse()(v) != expv(v, inverse=True)")
    check_close(m.inv(v), inv, tol, "module_inv", "ExpFlow().inv(v) != expv(v, inverse=True)")
    check_close(m.inverse().inverse()(v), fwd, tol, "module_inverse_twice", "inverse of inverse != forward")
    check_close(m(v), fwd, tol, "module_mutated_by_inverse", "ExpFlow changed by taking its inverse")
    if not torch.equal(v, v0):
        raise Violation("input_modified", "ExpFlow modified its input")
    # results handed out earlier belong to the caller: modifying them in place must not change later results
    # (steps=0 with scale 1 documents that the input itself is returned, hence the fresh copies)
    fwd_snap, inv_snap = fwd.clone(), inv.clone()
    for r in (fwd, inv, inv_neg, inv_scale, fwd_false):
        if r.data_ptr() != v.data_ptr():
            spoil_result(r)
    check_close(expv(v.clone(), **kw), fwd_snap, tol / 4, "result_depends_on_earlier_result",
                "expv(v): same input, different result after earlier results were modified in place")
    check_close(fw(m, v.clone(), inverse=True), inv_snap, tol, "result_depends_on_earlier_result",
                "ExpFlow()(v, inverse=True): same input, different result after earlier results were modified in place")
    if not torch.equal(v, v0):
        raise Violation("input_modified", "input shares memory with a returned tensor that is not documented to be the input")
    nz = bool(v.abs().max() > 1e-3)
    return {"nontrivial": nz and steps >= 1, "labels": [f"steps={steps}", f"ac={ac}", case["content"], case["dtype"], f"form={form}",
                                                         f"pollute={case.get('pollute')}"]}


# ---------------------------------------------------------------------------------------
# convergence to the matrix exponential


@st.composite
def convergence_cases(draw):
    D, shape = affine_case(draw, max_n=8)
    return {
        "D": D, "shape": shape, "ac": draw(st.booleans()),
        "M": draw(st.lists(gen.qfloat(-0.5, 0.5, 0.01), min_size=D * D, max_size=D * D)),
        "t": draw(st.lists(gen.qfloat(-0.3, 0.3, 0.01), min_size=D, max_size=D)),
        "m1": draw(st.lists(gen.qfloat(0.0, 1.0, 0.05), min_size=D, max_size=D)),
        "m2": draw(st.lists(gen.qfloat(0.0, 0.3, 0.05), min_size=D, max_size=D)),
        "scale": draw(gen.qfloat(0.1, 1.0, 0.01)),
    }


def run_convergence(case):
    from deepali.core import functional as U

    D, shape, ac = case["D"], case["shape"], case["ac"]
    s = case["scale"]
    H = build_generator(case)
    k0 = min_steps(H, s, 0)
    x = cube_coords(shape, ac)
    v = torch.tensor(affine_field(H, x)[None], dtype=torch.float64)
    E = ref.expm_h(H, s)
    target = np.moveaxis(x @ (E[:D, :D] - np.eye(D)).T + E[:D, D], -1, 0)
    G = np.zeros((D + 1, D + 1))
    G[:D] = s * H
    g = float(np.linalg.norm(G, np.inf))
    xmax = 1.0  # |x|_inf <= 1 incl. homogeneous coordinate
    dist = []
    worst = 0.0
    for k in range(k0, 9):
        out = U.expv(v, scale=s, steps=k, align_corners=ac)
        d = float(np.abs(out[0].numpy() - target).max())
        dist.append(d)
        bound = g * g * math.exp(g) / 2 ** (k + 1) * xmax + 1e-12
        if d > bound:
            raise Violation("convergence_bound", f"steps={k}: distance to expm {d:.3e} > ||G||^2 e^||G|| / 2^(k+1) = {bound:.3e}")
        worst = max(worst, d / bound)
    for a, b in zip(dist, dist[1:]):
        if b > a * 1.0000001 + 1e-12:
            raise Violation("convergence_monotone", f"distance to expm increased with steps: {dist}")
    return {"ratio": worst, "nontrivial": g > 0.3 and len(dist) >= 5, "labels": [f"k0={k0}", f"D={D}"]}


# ---------------------------------------------------------------------------------------
# smooth non-affine fields: exp(v) o exp(-v) = id up to interpolation error (second order)


@st.composite
def smooth_cases(draw):
    D = draw(gen.dims())
    lo, hi = (12, 40) if D == 2 else (12, 16)
    shape = draw(st.lists(st.integers(lo, hi), min_size=D, max_size=D))
    return {
        "D": D, "shape": shape, "ac": draw(st.booleans()), "N": 1, "content": "smooth",
        "amp_samples": draw(gen.qfloat(0.05, 2.0, 0.05)), "waves": draw(st.lists(st.integers(1, 2), min_size=D, max_size=D)),
        "steps": draw(st.integers(5, 7)), "dtype": draw(gen.dtypes()),
        "via": draw(st.sampled_from(["expv", "svf"])),
    }


def smooth_velocity(case, amp_samples):
    """Velocity in normalised units whose amplitude is `amp_samples` samples along each axis."""
    D, shape, ac = case["D"], case["shape"], case["ac"]
    comps = []
    for c in range(D):  # component c = x, y, z ; axis size shape[D-1-c]
        n = shape[D - 1 - c]
        unit = 2.0 / (n - 1) if ac else 2.0 / n
        w = [case["waves"][(c + k) % D] for k in range(D)]
        comps.append(smooth_field(shape, w, amp_samples * unit))
    return torch.tensor(np.stack(comps)[None], dtype=tdtype(case["dtype"]))


def inverse_error_samples(case, amp):
    from deepali.core import functional as U

    D, shape, ac, steps = case["D"], case["shape"], case["ac"], case["steps"]
    v = smooth_velocity(case, amp)
    if case["via"] == "expv":
        u = U.expv(v, steps=steps, align_corners=ac)
        w = U.expv(v, steps=steps, align_corners=ac, inverse=True)
    else:
        from deepali.core import Grid
        from deepali.spatial import StationaryVelocityFieldTransform

        t = StationaryVelocityFieldTransform(Grid(shape=shape, align_corners=ac), params=v.float(), steps=steps)
        t.update()
        ti = t.inverse(update_buffers=True)
        u, w = t.u.to(v.dtype), ti.u.to(v.dtype)
    comp = U.compose_flows(u, w, align_corners=ac)[0].double().numpy()
    err = 0.0
    for c in range(D):
        n = shape[D - 1 - c]
        unit = 2.0 / (n - 1) if ac else 2.0 / n
        err = max(err, float(np.abs(comp[c]).max()) / unit)
    return err


def run_smooth(case):
    """Derived bound (DESIGN 6/C11): one squaring step samples a field of amplitude a_j samples and
    curvature a_j*kappa (index units) at fractional offset <= a_j, so its linear-interpolation
    error is <= min(a_j/2, 1/8) a_j kappa; errors at step j are doubled by each later step.  Summing
    the geometric series gives <= a^2 kappa per exponential; two exponentials plus the final
    composition give err <= 3 a^2 kappa, kappa = D (pi w_max / (n_min - 1))^2.  A first-order
    error c*a violates this for small a, which is why a is generated down to 0.05 samples."""
    a = case["amp_samples"]
    D = case["D"]
    kappa = D * (math.pi * max(case["waves"]) / (min(case["shape"]) - 1)) ** 2
    floor = 1e-9 if case["dtype"] == "float64" and case["via"] == "expv" else 2e-4
    worst = 0.0
    for amp in (a, a / 2):
        e = inverse_error_samples(case, amp)
        bound = 3 * amp * amp * kappa + floor
        if e > bound:
            raise Violation("inverse_second_order_bound",
                            f"|exp(v) o exp(-v)| = {e:.4g} samples > 3 a^2 kappa + floor = {bound:.4g} (a={amp}, kappa={kappa:.4g})")
        worst = max(worst, e / bound)
    return {"ratio": worst, "nontrivial": a >= 0.2, "labels": [f"via={case['via']}", f"D={case['D']}", case["dtype"]]}


FACETS = [
    Facet("closed_form", run_closed_form, strategy=closed_form_cases,
          rule="invariant affine generator constructed from free off-diagonals + dominance margins; "
               "non-trivial = some |off-diagonal| > 0.02, steps >= 2, non-cubic shape",
          quick=2000, thorough=30000, shards=16, quick_shards=4),
    Facet("equivalences", run_equiv, strategy=equiv_cases,
          rule="noise/smooth fields; inverse flag vs negated field vs negated scale; ExpFlow forms; "
               "non-trivial = non-zero field and steps >= 1",
          quick=800, thorough=8000, shards=8, quick_shards=2),
    Facet("convergence", run_convergence, strategy=convergence_cases,
          rule="invariant affine generator, float64, all steps k0..8; non-trivial = ||G||_inf > 0.3 and >= 5 step counts",
          quick=200, thorough=3000, shards=8),
    Facet("smooth_inverse", run_smooth, strategy=smooth_cases,
          rule="band-limited fields vanishing at the boundary, amplitude a in [0.05, 2] samples, checked at a and a/2; non-trivial = a >= 0.2",
          quick=150, thorough=2000, shards=8),
]
