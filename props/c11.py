"""C11 - Scaling-and-squaring equals the closed form for affine velocity fields."""
from __future__ import annotations

import math

import numpy as np
import torch
from hypothesis import strategies as st

from vlib import gen, ref
from vlib.case import hash_noise, smooth_field, tdtype
from vlib.core import Facet, Skip, Violation, check_close, eps_of

PROPERTY = "C11"
MANIFEST = {
    "text": "Generated-input search (Hypothesis) over dimensions, shapes, conventions, constructed invariant affine generators, steps, scales, dtypes and batch sizes against the closed form (I+sH/2^k)^(2^k) computed in float64 numpy, plus metamorphic equivalences (inverse flag / negated field / negated scale, ExpFlow and SVF-transform forms), a convergence bound to expm and a derived second-order bound for smooth fields. Exploration: no absence proof; the closed form pins every grid point to ~1e-14 (f64) so discrete convention/scaling errors are orders of magnitude above the bound.",
    "note": "Trusted: numpy/scipy matrix_power and expm, the reference construction of normalised sample coordinates in props/c11.py; CPU only; float32/float64; shapes <= 12 (2-D) / 9 (3-D) per axis for the closed form.",
    "technique": "property-based testing (Hypothesis) with a closed-form reference model and metamorphic relations",
}
ASSUMPTIONS = [
    "affine generators are constructed (not filtered) so that the hull of the sample coordinates is invariant",
    "smooth-field inverse bound err <= 3 a^2 D (pi w/(n-1))^2 + floor is derived from the linear-interpolation error "
    "of each squaring step (see run_smooth); measured values on the pinned tree are <= 0.4 of it",
]


# ---------------------------------------------------------------------------------------
# helpers


def cube_axis(n: int, ac: bool) -> np.ndarray:
    i = np.arange(n, dtype=np.float64)
    if n == 1:
        return np.zeros(1)
    return 2 * i / (n - 1) - 1 if ac else (2 * i + 1) / n - 1


def cube_coords(shape, ac: bool) -> np.ndarray:
    """Normalised sample coordinates, array (..., X, D) with (x, ...) component order."""
    axes = [cube_axis(n, ac) for n in shape]  # order (..., X)
    mesh = np.meshgrid(*axes, indexing="ij")
    return np.stack(mesh[::-1], axis=-1)


def build_generator(case) -> np.ndarray:
    """Construct H = [M | t] such that the sample hull is invariant (see DESIGN section 5)."""
    D = case["D"]
    shape = case["shape"]
    ac = case["ac"]
    h = np.array([np.abs(cube_axis(n, ac)).max() for n in shape[::-1]])  # (x, ...) order
    M = np.array(case["M"], dtype=np.float64).reshape(D, D)
    t = np.array(case["t"], dtype=np.float64)
    for i in range(D):
        off = sum(abs(M[i, j]) * h[j] for j in range(D) if j != i) + abs(t[i])
        M[i, i] = -(off / h[i]) * (1.0 + case["m1"][i]) - case["m2"][i]
    return np.concatenate([M, t[:, None]], axis=1)


def min_steps(H: np.ndarray, scale: float, steps: int) -> int:
    D = H.shape[0]
    k = steps
    while any(1.0 + scale * H[i, i] / 2 ** k < 0 for i in range(D)):
        k += 1
    return k


def affine_field(H: np.ndarray, x: np.ndarray) -> np.ndarray:
    """v(x) = M x + t at the points x (..., D) -> array (D, ..., X) channels first."""
    D = H.shape[0]
    v = x @ H[:, :D].T + H[:, D]
    return np.moveaxis(v, -1, 0)


def affine_case(draw, max_n=12):
    D = draw(gen.dims())
    shape = draw(st.lists(st.integers(2, max_n if D == 2 else min(max_n, 9)), min_size=D, max_size=D))
    return D, shape


@st.composite
def closed_form_cases(draw):
    D, shape = affine_case(draw)
    case = {
        "D": D, "shape": shape, "ac": draw(st.booleans()),
        "M": draw(st.lists(gen.qfloat(-0.5, 0.5, 0.01), min_size=D * D, max_size=D * D)),
        "t": draw(st.lists(gen.qfloat(-0.3, 0.3, 0.01), min_size=D, max_size=D)),
        "m1": draw(st.lists(gen.qfloat(0.0, 1.0, 0.05), min_size=D, max_size=D)),
        "m2": draw(st.lists(gen.qfloat(0.0, 0.3, 0.05), min_size=D, max_size=D)),
        "steps": draw(st.integers(0, 8)),
        "scale": draw(st.one_of(st.sampled_from([1.0, 0.5, 2.0, None, 0.0, 0]), gen.qfloat(0.1, 2.0, 0.01))),
        "dtype": draw(gen.dtypes()),
        "N": draw(st.integers(1, 3)),
        "via": draw(st.sampled_from(["expv", "expv", "ExpFlow", "svf"])),
    }
    return case


def run_closed_form(case):
    from deepali.core import functional as U
    from deepali.modules import ExpFlow

    D, shape, ac = case["D"], case["shape"], case["ac"]
    dt = tdtype(case["dtype"])
    eps = eps_of(dt)
    scale = case["scale"]
    s = 1.0 if scale is None else float(scale)
    x = cube_coords(shape, ac)
    N = case["N"]
    fields, gens = [], []
    steps = case["steps"]
    for b in range(N):
        # batch items: generator scaled by 1/(b+1) stays invariant
        H = build_generator(case) / (b + 1)
        gens.append(H)
        steps = min_steps(H, s, steps)
        fields.append(affine_field(H, x))
    v = torch.tensor(np.stack(fields, 0), dtype=dt)
    via = case["via"]
    if via == "expv":
        kw = {} if scale is None else {"scale": scale}
        out = U.expv(v, steps=steps, align_corners=ac, **kw)
    elif via == "ExpFlow":
        out = ExpFlow(scale=scale, steps=steps, align_corners=ac)(v)
    else:
        from deepali.core import Grid
        from deepali.spatial import StationaryVelocityFieldTransform

        grid = Grid(shape=shape, align_corners=ac)
        t = StationaryVelocityFieldTransform(grid, groups=N, params=v.float(), scale=scale, steps=steps)
        t.update()
        out = t.u
        check_close(t.v, v.float(), 0.0, "svf_v_buffer", "buffer v of SVF transform != its parameters")
        eps = eps_of(torch.float32)
        if out.shape != v.shape:
            raise Violation("svf_u_shape", f"u buffer shape {tuple(out.shape)} != {tuple(v.shape)}")
    if out.shape != v.shape or (via != "svf" and out.dtype != v.dtype):
        raise Violation("shape_dtype", f"result {tuple(out.shape)} {out.dtype} for input {tuple(v.shape)} {v.dtype}")
    worst = 0.0
    for b in range(N):
        P = ref.sas_power(gens[b], steps, s)
        expect = np.moveaxis(x @ (P[:D, :D] - np.eye(D)).T + P[:D, D], -1, 0)
        mag = max(1.0, float(np.abs(gens[b]).sum(1).max()) * abs(s))
        bound = 64 * eps * (steps + 1) * mag
        worst = max(worst, check_close(out[b], expect, bound, "closed_form",
                                       f"expv via {via} steps={steps} scale={scale} ac={ac} item {b}"))
    if steps == 0:
        check_close(out, v.double() * s, 4 * eps * max(1.0, float(v.abs().max())), "steps0", "steps=0 must return scale*v")
    offd = any(abs(case["M"][i * D + j]) > 0.02 for i in range(D) for j in range(D) if i != j)
    return {"ratio": worst, "nontrivial": offd and steps >= 2 and len(set(shape)) > 1,
            "labels": [f"via={via}", f"ac={ac}", case["dtype"], f"steps={steps}", f"N={N}", f"D={D}",
                       "scale=default" if scale is None else "scale=given"]}


# ---------------------------------------------------------------------------------------
# inverse flag == negated field == negated scale; module forms


@st.composite
def equiv_cases(draw):
    D = draw(gen.dims())
    shape = draw(st.lists(st.integers(2, 10 if D == 2 else 7), min_size=D, max_size=D))
    return {
        "D": D, "shape": shape, "ac": draw(st.booleans()), "N": draw(st.integers(1, 3)),
        "steps": draw(st.integers(0, 6)), "scale": draw(st.one_of(st.none(), st.sampled_from([0.0, 0, 1, -1]), gen.qfloat(0.05, 2.0, 0.01), gen.qfloat(-2.0, -0.05, 0.01))),
        "amp": draw(gen.qfloat(0.0, 0.6, 0.01)), "key": draw(st.integers(0, 10 ** 6)),
        "dtype": draw(gen.dtypes()),
        "content": draw(st.sampled_from(["noise", "smooth"])),
    }


def make_field(case, amp=None):
    D, shape, N = case["D"], case["shape"], case["N"]
    amp = case["amp"] if amp is None else amp
    if case["content"] == "noise":
        f = hash_noise((N, D) + tuple(shape), case["key"], -amp, amp)
    else:
        f = np.stack([np.stack([smooth_field(shape, [1 + (c + b) % 2] * D, amp * (1 - 0.3 * c)) for c in range(D)]) for b in range(N)])
    return torch.tensor(f, dtype=tdtype(case["dtype"]))


def run_equiv(case):
    from deepali.core import functional as U
    from deepali.modules import ExpFlow

    v = make_field(case)
    ac, steps, scale = case["ac"], case["steps"], case["scale"]
    s = 1.0 if scale is None else scale
    kw = {} if scale is None else {"scale": scale}
    tol = 8 * eps_of(v.dtype) * max(1.0, float(v.abs().max()) * abs(s))
    v0 = v.clone()
    fwd = U.expv(v, steps=steps, align_corners=ac, **kw)
    inv = U.expv(v, steps=steps, align_corners=ac, inverse=True, **kw)
    inv_neg = U.expv(-v, steps=steps, align_corners=ac, **kw)
    inv_scale = U.expv(v, scale=-s, steps=steps, align_corners=ac)
    check_close(inv, inv_neg, tol, "inverse_vs_negated_field", "expv(v, inverse=True) != expv(-v)")
    check_close(inv, inv_scale, tol, "inverse_vs_negated_scale", "expv(v, inverse=True) != expv(v, scale=-scale)")
    if steps == 0:
        check_close(fwd, v0.double() * s, tol, "steps0", "steps=0 must return scale*v")
        check_close(inv, -v0.double() * s, tol, "steps0_inverse", "steps=0, inverse must return -scale*v")
    if not torch.equal(v, v0):
        raise Violation("input_modified", "expv modified its input")
    m = ExpFlow(scale=scale, steps=steps, align_corners=ac)
    check_close(m(v), fwd, tol, "module_forward", "ExpFlow()(v) != expv(v)")
    check_close(m(v, inverse=True), inv, tol, "module_forward_inverse", "ExpFlow()(v, inverse=True) != expv(v, inverse=True)")
    check_close(m.inverse()(v), inv, tol, "module_inverse", "ExpFlow().inverse()(v) != expv(v, inverse=True)")
    check_close(m.inv(v), inv, tol, "module_inv", "ExpFlow().inv(v) != expv(v, inverse=True)")
    check_close(m.inverse().inverse()(v), fwd, tol, "module_inverse_twice", "inverse of inverse != forward")
    check_close(m(v), fwd, tol, "module_mutated_by_inverse", "ExpFlow changed by taking its inverse")
    nz = bool(v.abs().max() > 1e-3)
    return {"nontrivial": nz and steps >= 1, "labels": [f"steps={steps}", f"ac={ac}", case["content"], case["dtype"]]}


# ---------------------------------------------------------------------------------------
# convergence to the matrix exponential


@st.composite
def convergence_cases(draw):
    D, shape = affine_case(draw, max_n=8)
    return {
        "D": D, "shape": shape, "ac": draw(st.booleans()),
        "M": draw(st.lists(gen.qfloat(-0.5, 0.5, 0.01), min_size=D * D, max_size=D * D)),
        "t": draw(st.lists(gen.qfloat(-0.3, 0.3, 0.01), min_size=D, max_size=D)),
        "m1": draw(st.lists(gen.qfloat(0.0, 1.0, 0.05), min_size=D, max_size=D)),
        "m2": draw(st.lists(gen.qfloat(0.0, 0.3, 0.05), min_size=D, max_size=D)),
        "scale": draw(gen.qfloat(0.1, 1.0, 0.01)),
    }


def run_convergence(case):
    from deepali.core import functional as U

    D, shape, ac = case["D"], case["shape"], case["ac"]
    s = case["scale"]
    H = build_generator(case)
    k0 = min_steps(H, s, 0)
    x = cube_coords(shape, ac)
    v = torch.tensor(affine_field(H, x)[None], dtype=torch.float64)
    E = ref.expm_h(H, s)
    target = np.moveaxis(x @ (E[:D, :D] - np.eye(D)).T + E[:D, D], -1, 0)
    G = np.zeros((D + 1, D + 1))
    G[:D] = s * H
    g = float(np.linalg.norm(G, np.inf))
    xmax = 1.0  # |x|_inf <= 1 incl. homogeneous coordinate
    dist = []
    worst = 0.0
    for k in range(k0, 9):
        out = U.expv(v, scale=s, steps=k, align_corners=ac)
        d = float(np.abs(out[0].numpy() - target).max())
        dist.append(d)
        bound = g * g * math.exp(g) / 2 ** (k + 1) * xmax + 1e-12
        if d > bound:
            raise Violation("convergence_bound", f"steps={k}: distance to expm {d:.3e} > ||G||^2 e^||G|| / 2^(k+1) = {bound:.3e}")
        worst = max(worst, d / bound)
    for a, b in zip(dist, dist[1:]):
        if b > a * 1.0000001 + 1e-12:
            raise Violation("convergence_monotone", f"distance to expm increased with steps: {dist}")
    return {"ratio": worst, "nontrivial": g > 0.3 and len(dist) >= 5, "labels": [f"k0={k0}", f"D={D}"]}


# ---------------------------------------------------------------------------------------
# smooth non-affine fields: exp(v) o exp(-v) = id up to interpolation error (second order)


@st.composite
def smooth_cases(draw):
    D = draw(gen.dims())
    lo, hi = (12, 40) if D == 2 else (12, 16)
    shape = draw(st.lists(st.integers(lo, hi), min_size=D, max_size=D))
    return {
        "D": D, "shape": shape, "ac": draw(st.booleans()), "N": 1, "content": "smooth",
        "amp_samples": draw(gen.qfloat(0.05, 2.0, 0.05)), "waves": draw(st.lists(st.integers(1, 2), min_size=D, max_size=D)),
        "steps": draw(st.integers(5, 7)), "dtype": draw(gen.dtypes()),
        "via": draw(st.sampled_from(["expv", "svf"])),
    }


def smooth_velocity(case, amp_samples):
    """Velocity in normalised units whose amplitude is `amp_samples` samples along each axis."""
    D, shape, ac = case["D"], case["shape"], case["ac"]
    comps = []
    for c in range(D):  # component c = x, y, z ; axis size shape[D-1-c]
        n = shape[D - 1 - c]
        unit = 2.0 / (n - 1) if ac else 2.0 / n
        w = [case["waves"][(c + k) % D] for k in range(D)]
        comps.append(smooth_field(shape, w, amp_samples * unit))
    return torch.tensor(np.stack(comps)[None], dtype=tdtype(case["dtype"]))


def inverse_error_samples(case, amp):
    from deepali.core import functional as U

    D, shape, ac, steps = case["D"], case["shape"], case["ac"], case["steps"]
    v = smooth_velocity(case, amp)
    if case["via"] == "expv":
        u = U.expv(v, steps=steps, align_corners=ac)
        w = U.expv(v, steps=steps, align_corners=ac, inverse=True)
    else:
        from deepali.core import Grid
        from deepali.spatial import StationaryVelocityFieldTransform

        t = StationaryVelocityFieldTransform(Grid(shape=shape, align_corners=ac), params=v.float(), steps=steps)
        t.update()
        ti = t.inverse(update_buffers=True)
        u, w = t.u.to(v.dtype), ti.u.to(v.dtype)
    comp = U.compose_flows(u, w, align_corners=ac)[0].double().numpy()
    err = 0.0
    for c in range(D):
        n = shape[D - 1 - c]
        unit = 2.0 / (n - 1) if ac else 2.0 / n
        err = max(err, float(np.abs(comp[c]).max()) / unit)
    return err


def run_smooth(case):
    """Derived bound (DESIGN 6/C11): one squaring step samples a field of amplitude a_j samples and
    curvature a_j*kappa (index units) at fractional offset <= a_j, so its linear-interpolation
    error is <= min(a_j/2, 1/8) a_j kappa; errors at step j are doubled by each later step.  Summing
    the geometric series gives <= a^2 kappa per exponential; two exponentials plus the final
    composition give err <= 3 a^2 kappa, kappa = D (pi w_max / (n_min - 1))^2.  A first-order
    error c*a violates this for small a, which is why a is generated down to 0.05 samples."""
    a = case["amp_samples"]
    D = case["D"]
    kappa = D * (math.pi * max(case["waves"]) / (min(case["shape"]) - 1)) ** 2
    floor = 1e-9 if case["dtype"] == "float64" and case["via"] == "expv" else 2e-4
    worst = 0.0
    for amp in (a, a / 2):
        e = inverse_error_samples(case, amp)
        bound = 3 * amp * amp * kappa + floor
        if e > bound:
            raise Violation("inverse_second_order_bound",
                            f"|exp(v) o exp(-v)| = {e:.4g} samples > 3 a^2 kappa + floor = {bound:.4g} (a={amp}, kappa={kappa:.4g})")
        worst = max(worst, e / bound)
    return {"ratio": worst, "nontrivial": a >= 0.2, "labels": [f"via={case['via']}", f"D={case['D']}", case["dtype"]]}


FACETS = [
    Facet("closed_form", run_closed_form, strategy=closed_form_cases,
          rule="invariant affine generator constructed from free off-diagonals + dominance margins; "
               "non-trivial = some |off-diagonal| > 0.02, steps >= 2, non-cubic shape",
          quick=2000, thorough=30000, shards=16, quick_shards=4),
    Facet("equivalences", run_equiv, strategy=equiv_cases,
          rule="noise/smooth fields; inverse flag vs negated field vs negated scale; ExpFlow forms; "
               "non-trivial = non-zero field and steps >= 1",
          quick=800, thorough=8000, shards=8, quick_shards=2),
    Facet("convergence", run_convergence, strategy=convergence_cases,
          rule="invariant affine generator, float64, all steps k0..8; non-trivial = ||G||_inf > 0.3 and >= 5 step counts",
          quick=200, thorough=3000, shards=8),
    Facet("smooth_inverse", run_smooth, strategy=smooth_cases,
          rule="band-limited fields vanishing at the boundary, amplitude a in [0.05, 2] samples, checked at a and a/2; non-trivial = a >= 0.2",
          quick=150, thorough=2000, shards=8),
]
