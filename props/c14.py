"""C14 - Cubic B-spline evaluation, derivatives and subdivision are exact."""
from __future__ import annotations

import itertools
import math

import numpy as np
import torch
from hypothesis import strategies as st

from vlib import gen, ref
from vlib.case import hash_noise, make_grid, tdtype
from vlib.core import EPS32, Facet, Skip, Violation, check_close, eps_of
from vlib.findings import Known

PROPERTY = "C14"
MANIFEST = {
    "text": "Generated-input search (Hypothesis) plus complete enumeration of the finite parts of the domain: the weight "
            "tables for every stride 1..16 x derivative order 0..3 x dtype are compared entry by entry with the analytic "
            "cubic B-spline basis (float64 closed form, moments), and every 1-D (size 1..24) x (stride 1..16) pair is "
            "evaluated with both algorithms on coefficients that are linear in the lattice position (closed-form "
            "expectation, exact output shape). Generated cases (D in 1..3, non-divisible size/stride pairs, N,C in 1..3, "
            "float32/float64, per-axis derivative orders 0..3, hash-noise coefficients) compare evaluate_cubic_bspline, "
            "spatial_derivatives(mode='bspline'), subdivide_cubic_bspline (also repeated, also per axis subsets) and "
            "FreeFormDeformation (update, grid_ refinement) with a separable float64 reference spline evaluator that "
            "shares no code with deepali, and the two deepali algorithms with each other. Exploration, not a proof: the "
            "enumerated sub-spaces are covered completely, the rest is sampled; bounds are 64 eps times the analytic "
            "condition number, discrete errors (wrong table entry, shifted crop, missing control point) are >= 1e4 bounds.",
    "note": "Trusted: numpy float64 arithmetic, vlib.ref.bspline_basis / bspline_eval_1d (self-tested: partition of unity, "
            "cubic reproduction, derivative consistency), vlib.ref.GridModel for control point placement. CPU only; float32 "
            "and float64; third derivatives at knots are compared with the right limit (half-open interval convention of "
            "the weight table); spatial_derivatives documents 'at least 4-dimensional' input and is exercised for D in {2,3}; "
            "cubic_bspline_control_point_grid is exercised for D in {2,3} (world maps of 1-D Grids are not supported by deepali); "
            "1-D FreeFormDeformation is observed through its buffer u only (SpatialTransform.disp() dispatches on tensor rank).",
    "technique": "property-based testing (Hypothesis) with closed-form and float64 reference-model oracles, exhaustive "
                 "enumeration of finite sub-domains, and differential/metamorphic relations between the two algorithms",
}
ASSUMPTIONS = [
    "derivatives are taken with respect to the control point lattice coordinate (unit control point spacing); "
    "spatial_derivatives(mode='bspline') divides by spacing**order where spacing is the control point spacing it is given",
    "coefficient k sits at lattice coordinate k; output sample j along an axis of stride s has lattice coordinate 1 + j/s",
    "the third derivative at a knot is the right limit",
    "the transposed-convolution algorithm uses a float32 kernel for every dtype (kernels.cubic_bspline1d), hence eps32 bounds on that path",
    "FreeFormDeformation coefficients/displacements are in normalised cube coordinates of an align_corners=True grid",
    "a subdivided axis has >= 2 coefficients; a spline domain exists only on axes with >= 4 coefficients",
    "control point k of cubic_bspline_control_point_grid sits at image index (k - 1) * stride (one point before the origin, stride samples apart)",
]

K = 64.0
# N14-2 (subdivide_cubic_bspline rejects (N, C, X) tensors): if it is listed as a known finding instead of being
# repaired, the subdivision generators leave out D = 1 so that the budget is spent behind it
MIN_D_SUBDIVIDE = 2 if Known("C14").active("N14-2") else 1
LIP = [1.0, 2.0, 4.0, 8.0]  # upper bounds of sum_m |w_m^(d)(t)| on [0,1) for derivative order d
MAX_STRIDE = 16
MAX_SIZE = 24


# ---------------------------------------------------------------------------------------
# reference helpers (float64 numpy, no deepali)


def lattice_coords(count: int, stride: int, start: float = 1.0) -> np.ndarray:
    """Lattice coordinate of output sample j = 0..count-1 (first sample at coefficient 1)."""
    return start + np.arange(count, dtype=np.float64) / float(stride)


def ref_eval(coef: np.ndarray, coords_t, derivs_t=None, axes=None) -> np.ndarray:
    """Separable float64 evaluation of the tensor-product spline with coefficients `coef`
    (array (..., spatial)) at the 1-D lattice coordinate vectors `coords_t` (tensor axis order),
    along the trailing len(coords_t) axes or the explicitly listed `axes`."""
    out = np.asarray(coef, dtype=np.float64)
    n = len(coords_t)
    if axes is None:
        axes = [out.ndim - n + i for i in range(n)]
    if derivs_t is None:
        derivs_t = [0] * n
    for axis, u, d in zip(axes, coords_t, derivs_t):
        u = np.asarray(u, dtype=np.float64)
        k = np.floor(u).astype(np.int64)
        n = out.shape[axis]
        if len(u):
            # support of a sample: coefficients k-1 .. k+2; at a knot (u == k) the weight of k+2 is exactly 0 for orders < 3
            need = np.where((u == k) & (int(d) < 3), k + 1, k + 2)
            if k.min() < 1 or need.max() > n - 1:
                raise Violation("control_grid_insufficient",
                                f"{n} coefficients do not support samples at lattice coordinates {u.min():g}..{u.max():g} (derivative order {d})")
            if k.max() + 2 > n - 1:
                pad = [(0, 0)] * out.ndim
                pad[axis] = (0, 1)
                out = np.pad(out, pad)
        out = ref.bspline_eval_1d(out, u, int(d), axis=axis)
    return out


def selftest():
    # reference model: partition of unity / derivative sums, cubic reproduction of a linear function,
    # derivative d is the numerical derivative of d-1 away from knots
    for t in (0.0, 0.125, 0.5, 0.9375):
        for d in range(4):
            w = ref.bspline_basis(t, d)
            assert abs(w.sum() - (1.0 if d == 0 else 0.0)) < 1e-14, (t, d)
        w0, w1 = ref.bspline_basis(t, 0), ref.bspline_basis(t, 1)
        assert abs((w0 * (np.arange(4) - 1)).sum() - t) < 1e-14
        assert abs((w1 * (np.arange(4) - 1)).sum() - 1.0) < 1e-14
    c = hash_noise((3, 7), 5, -1, 1)
    u = np.array([1.25, 2.5, 3.75])
    h = 1e-5
    for d in range(1, 4):
        num = (ref_eval(c, [u + h], [d - 1]) - ref_eval(c, [u - h], [d - 1])) / (2 * h)
        assert np.abs(num - ref_eval(c, [u], [d])).max() < 1e-8, d
    lin = 0.5 * np.arange(7) - 2.0
    assert np.abs(ref_eval(lin, [u]) - (0.5 * u - 2.0)).max() < 1e-14
    # refinement identity of the reference: two-scale relation with masks [1/8,3/4,1/8], [1/2,1/2]
    c1 = hash_noise((6,), 7, -1, 1)
    fine = np.zeros(11)
    fine[0::2][1:-1] = c1[:-2] / 8 + 0.75 * c1[1:-1] + c1[2:] / 8
    fine[1::2] = (c1[:-1] + c1[1:]) / 2
    uu = np.array([1.0, 1.3, 2.0, 3.99])
    assert np.abs(ref_eval(c1, [uu]) - ref_eval(fine, [2 * uu])).max() < 1e-14


def xlist(values, D):
    return list(values) if len(values) == D else list(values) * D


def stride_arg(case):
    s = list(case["stride"])
    if case.get("scalar_stride") and len(set(s)) == 1:
        return s[0]
    return s


def out_kwargs(case, size):
    arg = case.get("arg", "size")
    if arg == "size":
        return {"size": tuple(size)}
    if arg == "shape":
        return {"shape": tuple(reversed(size))}
    if arg == "torch_size":
        return {"shape": torch.Size(tuple(reversed(size)))}
    return {}


def noise_coef(case, shape_t):
    N, C = case["N"], case["C"]
    return hash_noise((N, C) + tuple(shape_t), case["key"], -1.0, 1.0) * case.get("amp", 1.0)


def divisibility_labels(size, stride):
    nd = any(n % s for n, s in zip(size, stride))
    return ["nondivisible" if nd else "divisible"]


# ---------------------------------------------------------------------------------------
# facet 1: weight tables


def weights_enumeration(tier):
    for s in range(1, MAX_STRIDE + 1):
        for d in range(4):
            for dt in ("float64", "float32", None):
                yield {"stride": [s], "deriv": [d], "dtype": dt, "form": "scalar"}


@st.composite
def weights_cases(draw):
    D = draw(st.integers(1, 3))
    form = draw(st.sampled_from(["scalar", "sequence", "scalar_stride", "scalar_deriv", "generic"]))
    if form in ("scalar", "generic"):
        D = 1
    return {
        "stride": draw(st.lists(st.integers(1, MAX_STRIDE), min_size=D, max_size=D)),
        # bspline_interpolation_weights(degree=3, ...) has no derivative argument
        "deriv": [0] if form == "generic" else draw(st.lists(st.integers(0, 3), min_size=D, max_size=D)),
        "dtype": draw(st.sampled_from(["float32", "float64", None])),
        "form": form,
    }


def check_weight_table(w, s, d, dtype_name, what):
    dt = torch.float32 if dtype_name is None else tdtype(dtype_name)
    if not isinstance(w, torch.Tensor) or tuple(w.shape) != (s, 4):
        raise Violation("weights_shape", f"{what}: got {getattr(w, 'shape', type(w))}, expected ({s}, 4)")
    if w.dtype != dt:
        raise Violation("weights_dtype", f"{what}: dtype {w.dtype}, expected {dt}")
    eps = eps_of(dt)
    bound = 32 * eps * LIP[d]
    expect = np.stack([ref.bspline_basis(j / s, d) for j in range(s)])
    worst = check_close(w, expect, bound, "weights_analytic", f"{what} vs analytic basis (derivative {d}) at offsets j/{s}")
    wn = w.double().numpy()
    rows = wn.sum(1)
    worst = max(worst, check_close(rows, np.full(s, 1.0 if d == 0 else 0.0), bound,
                                   "weights_partition_of_unity" if d == 0 else "weights_derivative_sum",
                                   f"{what}: row sums"))
    # first moment about the left-middle coefficient: sum_m w_m (m-1) = t, 1, 0, 0 (linear precision)
    t = np.arange(s) / s
    mom = (wn * (np.arange(4) - 1.0)).sum(1)
    expect_m = t if d == 0 else (np.ones(s) if d == 1 else np.zeros(s))
    worst = max(worst, check_close(mom, expect_m, 2 * bound, "weights_linear_precision", f"{what}: first moments"))
    return worst


def run_weights(case):
    from deepali.core import bspline as B

    strides, derivs, form, dn = case["stride"], case["deriv"], case["form"], case["dtype"]
    kw = {} if dn is None else {"dtype": tdtype(dn)}
    D = len(strides)
    if form == "scalar":
        res = [B.cubic_bspline_interpolation_weights(strides[0], derivs[0], **kw)]
    elif form == "generic":
        res = [B.bspline_interpolation_weights(3, strides[0], **kw)]
    elif form == "scalar_stride":
        strides = [strides[0]] * D
        res = B.cubic_bspline_interpolation_weights(strides[0], list(derivs), **kw)
    elif form == "scalar_deriv":
        derivs = [derivs[0]] * D
        res = B.cubic_bspline_interpolation_weights(list(strides), derivs[0], **kw)
    else:
        res = B.cubic_bspline_interpolation_weights(list(strides), list(derivs), **kw)
    if form not in ("scalar", "generic"):
        if not isinstance(res, tuple) or len(res) != D:
            raise Violation("weights_shape", f"sequence form returned {type(res).__name__} of length {len(res) if hasattr(res, '__len__') else '?'}, expected tuple of {D}")
    worst = 0.0
    for w, s, d in zip(res, strides, derivs):
        worst = max(worst, check_weight_table(w, s, d, dn, f"weights(stride={s}, derivative={d}, dtype={dn}, form={form})"))
    return {"ratio": worst, "nontrivial": max(strides) > 1,
            "labels": [f"form={form}", f"dtype={dn}"] + [f"d={d}" for d in sorted(set(derivs))]}


# ---------------------------------------------------------------------------------------
# facet 2: linear precision, output shape, coverage of the image grid


def linear_enumeration(tier):
    for n in range(1, MAX_SIZE + 1):
        for s in range(1, MAX_STRIDE + 1):
            for tr in (False, True):
                yield {"D": 1, "size": [n], "stride": [s], "scalar_stride": bool((n + s) % 2), "a": [0.37], "b": -1.25,
                       "N": 1, "C": 1, "dtype": "float64" if (n + s) % 3 else "float32", "transpose": tr,
                       "arg": "size" if n % 2 else "shape", "extra": [0]}


@st.composite
def linear_cases(draw):
    D = draw(st.integers(1, 3))
    hi = {1: MAX_SIZE, 2: MAX_SIZE, 3: 16}[D]
    size = draw(st.lists(st.one_of(st.integers(1, 3), st.integers(1, hi), st.integers(1, hi)), min_size=D, max_size=D))
    stride = draw(st.one_of(st.lists(st.integers(1, MAX_STRIDE), min_size=D, max_size=D),
                            st.integers(1, MAX_STRIDE).map(lambda s: [s] * D)))
    return {
        "D": D, "size": size, "stride": stride, "scalar_stride": draw(st.booleans()),
        "a": draw(st.lists(gen.qfloat(-2.0, 2.0, 0.01), min_size=D, max_size=D)), "b": draw(gen.qfloat(-5.0, 5.0, 0.01)),
        "N": draw(st.integers(1, 3)), "C": draw(st.integers(1, 3)), "dtype": draw(gen.dtypes()),
        "transpose": draw(st.booleans()), "arg": draw(st.sampled_from(["size", "shape", "torch_size", "none"])),
        "extra": draw(st.lists(st.integers(0, 2), min_size=D, max_size=D)),
    }


def run_linear(case):
    from deepali.core import bspline as B

    D, size, stride = case["D"], list(case["size"]), list(case["stride"])
    N, C, dt = case["N"], case["C"], tdtype(case["dtype"])
    transpose = case["transpose"]
    sarg = stride_arg(case)
    cps = B.cubic_bspline_control_point_grid_size(size if D > 1 or not case["scalar_stride"] else size[0],
                                                  sarg if D > 1 or not case["scalar_stride"] else stride[0])
    if D == 1 and case["scalar_stride"]:
        if not isinstance(cps, int):
            raise Violation("control_grid_size_type", f"int size and stride must give an int, got {type(cps).__name__}")
        cps = [cps]
    cps = [int(v) for v in cps]
    if len(cps) != D or any(v < 4 for v in cps):
        raise Violation("control_grid_size", f"control_point_grid_size({size}, {stride}) = {cps}")
    extra = xlist(case["extra"], D)
    arg = case["arg"]
    if arg == "none":
        extra = [0] * D
    ncp = [c + e for c, e in zip(cps, extra)]  # (x, ...) order
    shape_t = tuple(reversed(ncp))
    a = np.array(case["a"], dtype=np.float64)  # (x, ...) order
    b = float(case["b"])
    # coefficients: scale(n, c) * (sum_i a_i k_i + b) with k the control point index
    idx = np.meshgrid(*[np.arange(n, dtype=np.float64) for n in shape_t], indexing="ij")  # tensor order
    lin = sum(a[D - 1 - ax] * idx[ax] for ax in range(D)) + b
    scale = (1.0 + 0.5 * np.arange(N * C, dtype=np.float64)).reshape(N, C, *([1] * D))
    coef = torch.tensor(scale * lin, dtype=dt)
    coef0 = coef.clone()
    kw = out_kwargs(case, size)
    if transpose and arg == "none":
        # the uncropped transposed result has another origin (starts one control point earlier)
        kw = {"size": tuple(size)}
        arg = "size"
    out = B.evaluate_cubic_bspline(coef, stride=sarg, transpose=transpose, **kw)
    if not torch.equal(coef, coef0):
        raise Violation("input_modified", "evaluate_cubic_bspline modified its coefficient tensor")
    if arg == "none":
        want = [(n - 3) * s for n, s in zip(ncp, stride)]
        kind = "uncropped_shape"
    else:
        want = size
        kind = "output_shape"
    want_t = (N, C) + tuple(reversed(want))
    if tuple(out.shape) != want_t:
        raise Violation(kind, f"evaluate_cubic_bspline(coef{tuple(coef.shape)}, stride={sarg}, {kw}, transpose={transpose}) "
                              f"returned shape {tuple(out.shape)}, expected {want_t} (control grid {ncp})")
    if out.dtype != dt:
        raise Violation("output_dtype", f"result dtype {out.dtype} for coefficients of dtype {dt}")
    pos = np.meshgrid(*[lattice_coords(n, s) for n, s in zip(reversed(want), reversed(stride))], indexing="ij")
    expect = scale * (sum(a[D - 1 - ax] * pos[ax] for ax in range(D)) + b)
    mag = float(np.abs(scale * lin).max())
    eps = EPS32 if transpose else eps_of(dt)
    bound = K * eps * max(mag, 1e-3)
    r = check_close(out, expect, bound, "linear_precision_transposed" if transpose else "linear_precision",
                    f"linear coefficients a={case['a']} b={b} size={size} stride={stride} control grid {ncp} arg={arg}")
    nd = any(n % s for n, s in zip(size, stride))
    return {"ratio": r, "nontrivial": nd and any(abs(v) > 0.05 for v in a),
            "labels": [f"D={D}", f"transpose={transpose}", case["dtype"], f"arg={arg}", f"N={N}", f"C={C}"] + divisibility_labels(size, stride)}


# ---------------------------------------------------------------------------------------
# facet 3: the two algorithms agree on arbitrary coefficients


@st.composite
def agree_cases(draw):
    D = draw(st.integers(1, 3))
    hi = {1: MAX_SIZE, 2: MAX_SIZE, 3: 14}[D]
    return {
        "D": D,
        "size": draw(st.lists(st.one_of(st.integers(1, 3), st.integers(1, hi), st.integers(1, hi)), min_size=D, max_size=D)),
        "stride": draw(st.one_of(st.lists(st.integers(1, MAX_STRIDE), min_size=D, max_size=D),
                                 st.integers(1, MAX_STRIDE).map(lambda s: [s] * D))),
        "scalar_stride": draw(st.booleans()),
        "N": draw(st.integers(1, 3)), "C": draw(st.integers(1, 3)), "dtype": draw(gen.dtypes()),
        "key": draw(st.integers(0, 10 ** 6)), "amp": draw(st.sampled_from([1.0, 1.0, 0.01, 100.0])),
        "arg": draw(st.sampled_from(["size", "shape"])),
        "extra": draw(st.lists(st.integers(0, 2), min_size=D, max_size=D)),
        # precomputed per-axis kernels in the documented order (kx, ...), as BSplineTransform passes them
        "kernel": draw(st.sampled_from(["none", "none", "explicit"])),
    }


def run_agree(case):
    from deepali.core import bspline as B
    from deepali.core import kernels as KN

    D, size, stride = case["D"], list(case["size"]), list(case["stride"])
    dt = tdtype(case["dtype"])
    sarg = stride_arg(case)
    cps = [int(v) for v in B.cubic_bspline_control_point_grid_size(size, stride)]
    ncp = [c + e for c, e in zip(cps, xlist(case["extra"], D))]
    shape_t = tuple(reversed(ncp))
    cnp = noise_coef(case, shape_t)
    coef = torch.tensor(cnp, dtype=dt)
    cnp = coef.double().numpy()
    kw = out_kwargs(case, size)
    kw_a, kw_b = dict(kw), dict(kw)
    if case.get("kernel") == "explicit":
        kw_a["kernel"] = B.cubic_bspline_interpolation_weights(list(stride), dtype=dt)
        kw_b["kernel"] = [KN.cubic_bspline1d(s) for s in stride]
    out_a = B.evaluate_cubic_bspline(coef, stride=sarg, **kw_a)
    out_b = B.evaluate_cubic_bspline(coef, stride=sarg, transpose=True, **kw_b)
    want_t = (case["N"], case["C"]) + tuple(reversed(size))
    for name, o in (("default", out_a), ("transposed", out_b)):
        if tuple(o.shape) != want_t:
            raise Violation("output_shape", f"{name} algorithm returned shape {tuple(o.shape)}, expected {want_t} (stride {stride}, control grid {ncp})")
    mag = max(float(np.abs(cnp).max()), 1e-6)
    bound32 = K * EPS32 * mag
    r = check_close(out_b, out_a, bound32, "algorithms_disagree",
                    f"transpose=True vs default, size={size} stride={stride} control grid {ncp}")
    expect = ref_eval(cnp, [lattice_coords(n, s) for n, s in zip(reversed(size), reversed(stride))])
    r = max(r, check_close(out_b, expect, bound32, "transposed_vs_reference", f"transpose=True vs float64 reference, size={size} stride={stride}"))
    r = max(r, check_close(out_a, expect, K * eps_of(dt) * mag, "default_vs_reference", f"default algorithm vs float64 reference, size={size} stride={stride}"))
    nd = any(n % s for n, s in zip(size, stride))
    return {"ratio": r, "nontrivial": nd or D >= 2,
            "labels": [f"D={D}", case["dtype"], f"N={case['N']}", f"C={case['C']}", f"kernel={case.get('kernel', 'none')}"] + divisibility_labels(size, stride)}


# ---------------------------------------------------------------------------------------
# facet 4: derivative modes equal the analytic spline derivatives


@st.composite
def deriv_cases(draw):
    via = draw(st.sampled_from(["evaluate", "evaluate", "spatial_derivatives"]))
    D = draw(st.integers(1, 3)) if via == "evaluate" else draw(st.integers(2, 3))
    case = {"D": D, "via": via, "N": draw(st.integers(1, 3)), "C": draw(st.integers(1, 3)), "dtype": draw(gen.dtypes()),
            "key": draw(st.integers(0, 10 ** 6)), "scalar_stride": draw(st.booleans())}
    if via == "evaluate":
        ncp = draw(st.lists(st.integers(4, 8 if D < 3 else 6), min_size=D, max_size=D))
        stride = draw(st.one_of(st.lists(st.integers(1, MAX_STRIDE), min_size=D, max_size=D),
                                st.integers(1, MAX_STRIDE).map(lambda s: [s] * D)))
        deriv = draw(st.lists(st.integers(0, 3), min_size=D, max_size=D))
        full = [(n - 3) * s for n, s in zip(ncp, stride)]
        crop = draw(st.booleans()) or math.prod(full) > 20000
        if crop:
            size = [draw(st.integers(1, min(MAX_SIZE, f))) for f in full]
            case["arg"] = draw(st.sampled_from(["size", "shape"]))
        else:
            size = full
            case["arg"] = "none"
        case.update(ncp=ncp, stride=stride, deriv=deriv, size=size,
                    scalar_deriv=draw(st.booleans()))
    else:
        ncp = draw(st.lists(st.integers(4, 7 if D < 3 else 5), min_size=D, max_size=D))
        stride = draw(st.one_of(st.lists(st.integers(1, 6 if D < 3 else 4), min_size=D, max_size=D),
                                st.integers(1, MAX_STRIDE if D < 3 else 6).map(lambda s: [s] * D),
                                st.none()))
        letters = "xyz"[:D]
        keys = draw(st.lists(st.lists(st.sampled_from(list(letters)), min_size=1, max_size=4), min_size=1, max_size=3))
        which = []
        for k in keys:
            k = sorted(k)
            # at most third order per axis
            k = [c for i, c in enumerate(k) if k[:i].count(c) < 3]
            s = "".join(k)
            if s not in which:
                which.append(s)
        spacing = draw(st.one_of(st.none(), gen.logfloat(0.1, 10.0), st.lists(gen.logfloat(0.1, 10.0), min_size=D, max_size=D),
                                 st.lists(st.lists(gen.logfloat(0.1, 10.0), min_size=D, max_size=D), min_size=case["N"], max_size=case["N"])))
        case.update(ncp=ncp, stride=stride, which=which, spacing=spacing)
    return case


def run_deriv(case):
    from deepali.core import bspline as B
    from deepali.core import image as I

    D, ncp = case["D"], list(case["ncp"])
    N, C, dt = case["N"], case["C"], tdtype(case["dtype"])
    eps = eps_of(dt)
    shape_t = tuple(reversed(ncp))
    coef = torch.tensor(noise_coef(case, shape_t), dtype=dt)
    cnp = coef.double().numpy()
    coef0 = coef.clone()
    mag = max(float(np.abs(cnp).max()), 1e-6)
    worst = 0.0
    if case["via"] == "evaluate":
        stride, deriv, size = list(case["stride"]), list(case["deriv"]), list(case["size"])
        darg = deriv[0] if case["scalar_deriv"] and len(set(deriv)) == 1 else deriv
        kw = out_kwargs(case, size)
        out = B.evaluate_cubic_bspline(coef, stride=stride_arg(case), derivative=darg, **kw)
        want_t = (N, C) + tuple(reversed(size))
        if tuple(out.shape) != want_t:
            raise Violation("output_shape" if kw else "uncropped_shape",
                            f"evaluate_cubic_bspline(stride={stride}, derivative={deriv}, {kw}) returned {tuple(out.shape)}, expected {want_t}")
        coords = [lattice_coords(n, s) for n, s in zip(reversed(size), reversed(stride))]
        expect = ref_eval(cnp, coords, list(reversed(deriv)))
        bound = K * eps * mag * math.prod(LIP[d] for d in deriv)
        worst = check_close(out, expect, bound, "derivative_analytic" if any(deriv) else "default_vs_reference",
                            f"evaluate_cubic_bspline(stride={stride}, derivative={deriv}) vs analytic spline derivative")
        labels = [f"order={sum(deriv)}", f"maxd={max(deriv)}", "mixed" if sum(1 for d in deriv if d) > 1 else "unmixed"]
        nt = any(deriv) and max(stride) > 1
    else:
        stride = case["stride"]
        sl = [1] * D if stride is None else list(stride)
        sarg = None if stride is None else stride_arg(case)
        spacing = case["spacing"]
        which = list(case["which"])
        res = I.spatial_derivatives(coef, which=which, mode="bspline", spacing=spacing, stride=sarg)
        if sorted(res.keys()) != sorted(which):
            raise Violation("derivative_keys", f"requested {which}, got {sorted(res.keys())}")
        if spacing is None:
            sp = np.ones((N, D))
        else:
            sp = np.asarray(spacing, dtype=np.float64)
            sp = np.broadcast_to(sp if sp.ndim == 2 else sp.reshape(1, -1), (N, D))
        coords = [lattice_coords((n - 3) * s, s) for n, s in zip(reversed(ncp), reversed(sl))]
        for key in which:
            order = [key.count(c) for c in "xyz"[:D]]  # (x, ...) order
            expect = ref_eval(cnp, coords, list(reversed(order)))
            denom = np.prod(sp ** np.array(order), axis=1).reshape(N, 1, *([1] * D))
            expect = expect / denom
            e = eps + (EPS32 * (1 + sum(order)) if spacing is not None else 0.0)
            bound = K * e * mag * math.prod(LIP[d] for d in order) / float(denom.min())
            worst = max(worst, check_close(res[key], expect, bound, "spatial_derivatives_bspline",
                                           f"spatial_derivatives(which={key!r}, mode='bspline', stride={stride}, spacing={spacing})"))
        labels = [f"nkeys={len(which)}", "spacing=" + ("none" if spacing is None else "scalar" if not isinstance(spacing, list)
                                                        else "perbatch" if isinstance(spacing[0], list) else "vector")]
        nt = max(sl) > 1
    if not torch.equal(coef, coef0):
        raise Violation("input_modified", f"{case['via']} modified its coefficient tensor")
    return {"ratio": worst, "nontrivial": nt, "labels": [f"D={D}", f"via={case['via']}", case["dtype"]] + labels}


# ---------------------------------------------------------------------------------------
# facet 5a: subdivide_cubic_bspline leaves the function unchanged (also repeated, per axis subsets)


@st.composite
def subdivide_cases(draw):
    D = draw(st.integers(MIN_D_SUBDIVIDE, 3))
    rounds_n = draw(st.integers(1, 3))
    letters = ["x", "y", "z"][:D]
    rounds = []
    for _ in range(rounds_n):
        kind = draw(st.sampled_from(["all", "all", "subset"]))
        if kind == "all":
            rounds.append(None)
        else:
            sub = draw(st.lists(st.integers(0, D - 1), min_size=1, max_size=D, unique=True))
            form = draw(st.sampled_from(["int", "str"]))
            rounds.append([letters[i] if form == "str" else i for i in sub])
    hi = {1: 9, 2: 7, 3: 5}[rounds_n] if D <= 2 else {1: 7, 2: 5, 3: 4}[rounds_n]
    touched = set()
    for r in rounds:
        touched |= set(range(D)) if r is None else {letters.index(d) if isinstance(d, str) else d for d in r}
    # an axis that is subdivided needs >= 2 coefficients (one interval); untouched axes may be singletons;
    # the first subdivided axis always has a spline domain (>= 4 coefficients)
    first = min(touched)
    ncp = [draw(st.integers(4, hi)) if d == first else
           draw(st.one_of(st.integers(2 if d in touched else 1, 3), st.integers(4, hi), st.integers(4, hi))) for d in range(D)]
    return {"D": D, "ncp": ncp, "rounds": rounds, "N": draw(st.integers(1, 2)), "C": draw(st.integers(1, 3)),
            "dtype": draw(gen.dtypes()), "key": draw(st.integers(0, 10 ** 6)),
            "stride": draw(st.lists(st.integers(1, 8), min_size=D, max_size=D)),
            "content": draw(st.sampled_from(["noise", "noise", "linear"]))}


def run_subdivide(case):
    from deepali.core import bspline as B

    D, ncp = case["D"], list(case["ncp"])
    N, C, dt = case["N"], case["C"], tdtype(case["dtype"])
    eps = eps_of(dt)
    shape_t = tuple(reversed(ncp))
    if case["content"] == "noise":
        cnp = noise_coef(case, shape_t)
    else:
        idx = np.meshgrid(*[np.arange(n, dtype=np.float64) for n in shape_t], indexing="ij")
        cnp = (sum((0.3 + 0.2 * ax) * idx[ax] for ax in range(D)) - 1.0) * (1.0 + np.arange(N * C).reshape(N, C, *([1] * D)))
    coef = torch.tensor(cnp, dtype=dt)
    cnp = coef.double().numpy()
    coef0 = coef.clone()
    count = [0] * D  # subdivisions per spatial dim (x, ...) order
    cur = coef
    for r in case["rounds"]:
        if r is None:
            dims = list(range(D))
            cur = B.subdivide_cubic_bspline(cur) if len(case["rounds"]) % 2 else B.subdivide_cubic_bspline(cur, dims=None)
        else:
            dims = ["xyz".index(d) if isinstance(d, str) else d for d in r]
            cur = B.subdivide_cubic_bspline(cur, dims=r[0] if len(r) == 1 else r)
        for d in dims:
            count[d] += 1
    if not torch.equal(coef, coef0):
        raise Violation("input_modified", "subdivide_cubic_bspline modified its input")
    n_exp = list(ncp)
    for d in range(D):
        for _ in range(count[d]):
            n_exp[d] = 2 * n_exp[d] - 1
    want_t = (N, C) + tuple(reversed(n_exp))
    if tuple(cur.shape) != want_t:
        raise Violation("subdivided_shape", f"rounds {case['rounds']} on control grid {ncp}: shape {tuple(cur.shape)}, expected {want_t}")
    if cur.dtype != dt:
        raise Violation("output_dtype", f"subdivided dtype {cur.dtype} for input {dt}")
    mag = max(float(np.abs(cnp).max()), 1e-6)
    fine = cur.double().numpy()
    # (i) pure subdivision oracle: reference evaluation of refined vs original coefficients along the
    #     subdivided axes with >= 4 coefficients, at lattice coordinates 1 + j/(q 2^r) of the original lattice
    axes_t, u0, u1 = [], [], []
    for d in range(D):
        if count[d] and ncp[d] >= 4:
            f = 2 ** count[d]
            q = 1 + (case["stride"][d] - 1) % 3
            u = 1.0 + np.arange((ncp[d] - 3) * f * q, dtype=np.float64) / (f * q)
            axes_t.append(2 + (D - 1 - d))
            u0.append(u)
            u1.append(u * f)
    worst = 0.0
    bound = K * eps * mag * (1 + sum(count))
    if axes_t:
        # a subdivided axis with < 4 coefficients carries no spline domain and changes length, so the
        # two reference evaluations are only comparable when every subdivided axis is evaluated
        if all(ncp[d] >= 4 for d in range(D) if count[d]):
            a = ref_eval(cnp, u0, axes=axes_t)
            b = ref_eval(fine, u1, axes=axes_t)
            worst = check_close(b, a, bound, "subdivision_changes_function",
                                f"reference evaluation of subdivided ({case['rounds']}) vs original coefficients, control grid {ncp}")
    # (ii) the design's statement: refined lattice at stride s equals the original at stride s * 2^r (deepali evaluation,
    #      default algorithm on both sides but different weight tables/strides), compared on the original's domain
    evaluated = False
    if all(n >= 4 for n in ncp):
        s_ref = [max(1, min(case["stride"][d], MAX_STRIDE // (2 ** count[d]))) for d in range(D)]
        s_org = [s_ref[d] * 2 ** count[d] for d in range(D)]
        if math.prod((n - 3) * s for n, s in zip(ncp, s_org)) * N * C <= 300000:
            org = B.evaluate_cubic_bspline(coef, stride=s_org)
            ref_out = B.evaluate_cubic_bspline(cur, stride=s_ref)
            # refined output j has original lattice coordinate (1 + j/s)/2^r = 1 + (j - s(2^r - 1))/(s 2^r)
            sl = [slice(None), slice(None)]
            for d in reversed(range(D)):
                start = s_ref[d] * (2 ** count[d] - 1)
                sl.append(slice(start, start + (ncp[d] - 3) * s_org[d]))
            part = ref_out[tuple(sl)]
            if tuple(part.shape) != tuple(org.shape):
                raise Violation("subdivided_domain", f"refined evaluation {tuple(ref_out.shape)} does not cover the original domain {tuple(org.shape)} "
                                                     f"(control grid {ncp}, rounds {case['rounds']}, strides {s_ref}/{s_org})")
            worst = max(worst, check_close(part, org, bound, "subdivision_changes_evaluation",
                                           f"evaluate(subdivided, stride={s_ref}) vs evaluate(original, stride={s_org}), control grid {ncp}, rounds {case['rounds']}"))
            exp = ref_eval(cnp, [lattice_coords((n - 3) * s, s) for n, s in zip(reversed(ncp), reversed(s_org))])
            worst = max(worst, check_close(part, exp, bound, "subdivision_vs_reference",
                                           f"evaluate(subdivided, stride={s_ref}) vs float64 reference of the original spline"))
            evaluated = True
    if not axes_t and not evaluated:
        raise Skip("no axis with a spline domain")
    return {"ratio": worst, "nontrivial": len(case["rounds"]) >= 1 and case["content"] == "noise" and bool(axes_t),
            "labels": [f"D={D}", f"rounds={len(case['rounds'])}", case["dtype"], case["content"],
                       "subset" if any(r is not None for r in case["rounds"]) else "alldims", f"evaluated={evaluated}"]}


# ---------------------------------------------------------------------------------------
# grids for the FreeFormDeformation / control grid facets (D = 1 handled here; D = 2, 3 by vlib.gen.grids)


@st.composite
def ffd_grids(draw, min_size=2, max_size=12, min_D=1):
    D = draw(st.integers(min_D, 3))
    hi = max_size if D < 3 else min(max_size, 8)
    if D == 1:
        return {"size": [draw(st.integers(min_size, max_size))], "spacing": [draw(gen.logfloat(0.05, 20.0))],
                "center": [draw(st.one_of(st.just(0.0), gen.qfloat(-500, 500, 0.01)))], "ac": True, "kind": "1d"}
    return draw(gen.grids(D, min_size=min_size, max_size=hi, ac=True))


def build_grid(g):
    from deepali.core import Grid

    if len(g["size"]) == 1:
        return Grid(size=list(g["size"]), spacing=list(g["spacing"]), center=list(g["center"]), align_corners=True)
    return make_grid(g)


def field_of(t, D):
    """Displacement field of an updated FFD: disp() for D >= 2; for D = 1 the buffer u, because SpatialTransform.disp()
    dispatches on tensor rank and takes a (N, 1, X) field for an affine matrix (1-D transforms are outside its domain)."""
    if D == 1:
        return t.u
    d = t.disp()
    if not torch.equal(d, t.u):
        raise Violation("ffd_disp_not_u", "disp() on the own grid differs from the buffer u")
    return d


def grid_model(g):
    if len(g["size"]) == 1:
        return ref.GridModel(g["size"], g["spacing"], center=g["center"])
    return ref.GridModel.from_desc(g)


# ---------------------------------------------------------------------------------------
# facet 5c: cubic_bspline_control_point_grid places the lattice (one point before the origin, stride samples apart)


@st.composite
def control_grid_cases(draw):
    g = draw(ffd_grids(min_size=1, max_size=MAX_SIZE, min_D=2))  # 1-D Grid world maps are outside deepali's supported domain
    D = len(g["size"])
    return {"grid": g, "stride": draw(st.one_of(st.lists(st.integers(1, MAX_STRIDE), min_size=D, max_size=D),
                                                st.integers(1, MAX_STRIDE).map(lambda s: [s] * D))),
            "scalar_stride": draw(st.booleans())}


def run_control_grid(case):
    from deepali.core import bspline as B

    g = case["grid"]
    D = len(g["size"])
    stride = list(case["stride"])
    grid = build_grid(g)
    m = grid_model(g)
    cg = B.cubic_bspline_control_point_grid(grid, stride_arg(case))
    want = [int(v) for v in B.cubic_bspline_control_point_grid_size(list(g["size"]), stride)]
    if [int(v) for v in cg.size()] != want:
        raise Violation("control_grid_size", f"control point grid size {tuple(cg.size())} != cubic_bspline_control_point_grid_size = {want}")
    if not cg.align_corners():
        raise Violation("control_grid_align_corners", "control point grid must have align_corners=True")
    s = np.array(stride, dtype=np.float64)
    n = np.array(want, dtype=np.float64)
    corners = np.array(list(itertools.product(*[(0.0, float(v - 1)) for v in want])))  # control point indices
    img_idx = (corners - 1.0) * s  # image index of control point k is (k - 1) * stride
    expect = m.points(img_idx, "grid", "world")
    bound = K * EPS32 * m.cond("grid", "world", img_idx)
    worst = check_close(cg.origin(), expect[0], bound, "control_grid_origin",
                        f"origin of control point grid (stride {stride}) vs image index -stride")
    sp_bound = K * EPS32 * float(np.max(m.s * s))
    worst = max(worst, check_close(cg.spacing(), m.s * s, sp_bound, "control_grid_spacing",
                                   f"control point spacing for image spacing {[float(v) for v in m.s]} and stride {stride}"))
    worst = max(worst, check_close(cg.direction(), m.R, K * EPS32, "control_grid_direction", "direction cosines of control point grid"))
    got = cg.index_to_world(torch.tensor(corners, dtype=torch.float64))
    worst = max(worst, check_close(got, expect, bound, "control_grid_points",
                                   f"world positions of the corner control points (stride {stride}, size {g['size']})"))
    # two control points after the last image sample are inside the lattice, i.e. the lattice covers the image
    last = (np.array(g["size"], dtype=np.float64) - 1.0) / s + 1.0  # lattice coordinate of the last image sample
    if np.any(np.floor(last) + 2 > n - 1 + (last == np.floor(last))):
        raise Violation("control_grid_coverage", f"lattice of size {want} does not support the last image sample at lattice coordinate {[float(v) for v in last]}")
    return {"ratio": worst, "nontrivial": max(stride) > 1 and g.get("kind") not in ("identity",),
            "labels": [f"D={D}", f"kind={g.get('kind')}"] + divisibility_labels(g["size"], stride)}


# ---------------------------------------------------------------------------------------
# facet 5b: FreeFormDeformation.grid_(2n-1 grid) leaves disp() unchanged


@st.composite
def ffd_subdivide_cases(draw):
    g = draw(ffd_grids(min_size=2, max_size=10, min_D=MIN_D_SUBDIVIDE))
    D = len(g["size"])
    rounds = []
    for _ in range(draw(st.sampled_from([1, 1, 2]))):
        rounds.append(draw(st.one_of(st.just(list(range(D))), st.lists(st.integers(0, D - 1), min_size=1, max_size=D, unique=True).map(sorted))))
    return {"grid": g, "stride": draw(st.one_of(st.lists(st.integers(1, 8), min_size=D, max_size=D), st.integers(1, MAX_STRIDE).map(lambda s: [s] * D))),
            "scalar_stride": draw(st.booleans()), "N": draw(st.integers(1, 3)), "transpose": draw(st.booleans()),
            "rounds": rounds, "key": draw(st.integers(0, 10 ** 6)), "amp": draw(st.sampled_from([0.05, 0.3, 1.0]))}


def run_ffd_subdivide(case):
    from deepali.core import Grid
    from deepali.spatial import FreeFormDeformation

    g = case["grid"]
    D = len(g["size"])
    stride = list(case["stride"])
    N = case["N"]
    transpose = case["transpose"]
    grid = build_grid(g)
    t = FreeFormDeformation(grid, groups=N, params=True, stride=stride_arg(case), transpose=transpose)
    pshape = tuple(t.data().shape)
    if pshape[:2] != (N, D) or len(pshape) != D + 2:
        raise Violation("ffd_data_shape", f"FFD parameter shape {pshape} for N={N}, D={D}")
    cnp = hash_noise(pshape, case["key"], -1.0, 1.0) * case["amp"]
    params = torch.tensor(cnp, dtype=torch.float32)
    cnp = params.double().numpy()
    t.data_(params.clone())
    t.update()
    d0 = field_of(t, D).detach().clone()
    mag = max(float(np.abs(cnp).max()), 1e-6)
    size0 = list(g["size"])
    coords0 = [lattice_coords(n, s) for n, s in zip(reversed(size0), reversed(stride))]
    worst = check_close(d0, ref_eval(cnp, coords0), K * EPS32 * mag, "ffd_evaluation", f"FFD.disp() vs float64 reference, size {size0} stride {stride} transpose={transpose}")
    size, spacing = list(size0), [float(v) for v in g["spacing"]]
    count = [0] * D
    cur = t
    for r in case["rounds"]:
        for d in r:
            size[d] = 2 * size[d] - 1
            spacing[d] = spacing[d] / 2
            count[d] += 1
        new_grid = Grid(size=size, spacing=spacing, center=grid.center(), direction=grid.direction(), align_corners=True)
        if not new_grid.same_domain_as(cur.grid()):
            raise Skip("refined grid not accepted as same domain (float32 rounding)")
        cur = cur.grid_(new_grid)
        cur.update()
        if tuple(cur.grid().size()) != tuple(size):
            raise Violation("ffd_grid_not_set", f"grid size {tuple(cur.grid().size())} after grid_({size})")
    d1 = field_of(cur, D).detach()
    want_t = (N, D) + tuple(reversed(size))
    if tuple(d1.shape) != want_t:
        raise Violation("output_shape", f"disp() after refinement has shape {tuple(d1.shape)}, expected {want_t}")
    bound = K * EPS32 * mag * (1 + sum(count))
    sl = (slice(None), slice(None)) + tuple(slice(None, None, 2 ** count[d]) for d in reversed(range(D)))
    worst = max(worst, check_close(d1[sl], d0, bound, "ffd_subdivision_changes_disp",
                                   f"disp() at coincident samples after grid_ rounds {case['rounds']} (size {size0} -> {size}, stride {stride}, transpose={transpose})"))
    # every sample of the refined grid against the original spline: new sample j sits at old lattice coordinate 1 + j/(s 2^r)
    coords1 = [1.0 + np.arange(n, dtype=np.float64) / (s * 2 ** c) for n, s, c in zip(reversed(size), reversed(stride), reversed(count))]
    worst = max(worst, check_close(d1, ref_eval(cnp, coords1), bound, "ffd_subdivision_changes_function",
                                   f"disp() at all samples after grid_ rounds {case['rounds']} vs original spline (size {size0} -> {size}, stride {stride})"))
    return {"ratio": worst, "nontrivial": max(stride) > 1 and any(n % s for n, s in zip(size0, stride)) or D >= 2,
            "labels": [f"D={D}", f"transpose={transpose}", f"rounds={len(case['rounds'])}", f"N={N}"] + divisibility_labels(size0, stride)}


# ---------------------------------------------------------------------------------------
# facet 6: FreeFormDeformation with position-linear coefficients reproduces the linear map


@st.composite
def ffd_linear_cases(draw):
    g = draw(ffd_grids(min_size=2, max_size=MAX_SIZE))
    D = len(g["size"])
    return {"grid": g, "stride": draw(st.one_of(st.lists(st.integers(1, MAX_STRIDE), min_size=D, max_size=D), st.integers(1, MAX_STRIDE).map(lambda s: [s] * D))),
            "scalar_stride": draw(st.booleans()), "N": draw(st.integers(1, 3)), "transpose": draw(st.booleans()),
            "M": draw(st.lists(gen.qfloat(-1.0, 1.0, 0.01), min_size=D * D, max_size=D * D)),
            "b": draw(st.lists(gen.qfloat(-1.0, 1.0, 0.01), min_size=D, max_size=D)),
            "params": draw(st.sampled_from(["tensor", "data_", "parameter"]))}


def run_ffd_linear(case):
    from deepali.spatial import FreeFormDeformation

    g = case["grid"]
    D = len(g["size"])
    size, stride, N = list(g["size"]), list(case["stride"]), case["N"]
    transpose = case["transpose"]
    grid = build_grid(g)
    t = FreeFormDeformation(grid, groups=N, params=True, stride=stride_arg(case), transpose=transpose)
    pshape = tuple(t.data().shape)
    if pshape[:2] != (N, D) or len(pshape) != D + 2:
        raise Violation("ffd_data_shape", f"FFD parameter shape {pshape} for N={N}, D={D}")
    ncp_t = pshape[2:]
    M = np.array(case["M"], dtype=np.float64).reshape(D, D)
    b = np.array(case["b"], dtype=np.float64)
    # normalised (cube_corners) coordinate of control point k along spatial dim d: image index (k-1) s -> 2 i/(n-1) - 1
    def cube(idx, n):
        return 2.0 * idx / (n - 1.0) - 1.0

    xk = np.meshgrid(*[cube((np.arange(ncp_t[ax], dtype=np.float64) - 1.0) * stride[D - 1 - ax], size[D - 1 - ax]) for ax in range(D)], indexing="ij")
    xi = np.meshgrid(*[cube(np.arange(size[D - 1 - ax], dtype=np.float64), size[D - 1 - ax]) for ax in range(D)], indexing="ij")
    Xk = np.stack(xk[::-1], 0)  # (D, ...) components (x, ...)
    Xi = np.stack(xi[::-1], 0)
    scale = 1.0 / (1.0 + np.arange(N, dtype=np.float64))
    coef = np.stack([sc * (np.tensordot(M, Xk, axes=1) + b.reshape(D, *([1] * D))) for sc in scale])
    expect = np.stack([sc * (np.tensordot(M, Xi, axes=1) + b.reshape(D, *([1] * D))) for sc in scale])
    params = torch.tensor(coef, dtype=torch.float32)
    if case["params"] == "data_":
        t.data_(params)
    else:
        p = torch.nn.Parameter(params) if case["params"] == "parameter" else params
        t = FreeFormDeformation(grid, groups=N, params=p, stride=stride_arg(case), transpose=transpose)
    t.update()
    mag = max(float(np.abs(coef).max()), 1e-3)
    bound = K * EPS32 * mag
    want_t = (N, D) + tuple(reversed(size))
    u = t.u
    if tuple(u.shape) != want_t:
        raise Violation("output_shape", f"FFD.u has shape {tuple(u.shape)}, expected {want_t} (stride {stride}, control grid {ncp_t})")
    kind = "ffd_linear_map_transposed" if transpose else "ffd_linear_map"
    what = f"size {size} stride {stride} M={case['M']} b={case['b']}"
    worst = check_close(u, expect, bound, kind, "FFD.u vs linear map, " + what)
    if D >= 2:
        worst = max(worst, check_close(field_of(t, D), expect, bound, kind, "FFD.disp() vs linear map, " + what))
        # forward() at the grid points: x + u(x)
        x = grid.coords(dtype=torch.float32).unsqueeze(0).expand((N,) + tuple(reversed(size)) + (D,))
        y = t(x, grid=True)
        worst = max(worst, check_close(y, np.moveaxis(Xi[None] + expect, 1, -1), K * EPS32 * (mag + 1.0), kind, "FFD(x, grid=True) vs x + Mx + b, " + what))
    nd = any(n % s for n, s in zip(size, stride))
    offd = D == 1 or any(abs(M[i, j]) > 0.02 for i in range(D) for j in range(D) if i != j)
    return {"ratio": worst, "nontrivial": nd and offd and max(stride) > 1,
            "labels": [f"D={D}", f"transpose={transpose}", f"N={N}", f"params={case['params']}", f"kind={g.get('kind')}"] + divisibility_labels(size, stride)}


FACETS = [
    Facet("weights", run_weights, strategy=weights_cases,
          rule="exhaustive: stride 1..16 x derivative 0..3 x dtype {f64, f32, default}; generated: sequence/scalar argument forms and "
               "bspline_interpolation_weights(3, s); non-trivial = some stride > 1",
          quick=300, thorough=2000, shards=4, enumerate=weights_enumeration, exhaustive_tiers=("quick", "thorough")),
    Facet("linear_precision", run_linear, strategy=linear_cases,
          rule="exhaustive: every 1-D size 1..24 x stride 1..16 x transpose; generated: D 1..3, per-axis stride 1..16, size 1..24 (1..16 for D=3), "
               "N,C 1..3, f32/f64, size/shape/none, up to 2 surplus control points; non-trivial = size % stride != 0 on some axis and a != 0",
          quick=1200, thorough=20000, shards=16, quick_shards=2, enumerate=linear_enumeration, exhaustive_tiers=("quick", "thorough")),
    Facet("algorithms_agree", run_agree, strategy=agree_cases,
          rule="hash-noise coefficients (amplitude 0.01/1/100), D 1..3, N,C 1..3, f32/f64, kernels computed or passed explicitly; default vs transpose=True and both vs float64 reference; "
               "non-trivial = D >= 2 or non-divisible size/stride",
          quick=800, thorough=12000, shards=16, quick_shards=2),
    Facet("derivatives", run_deriv, strategy=deriv_cases,
          rule="hash-noise coefficients on 4..8 control points per axis, stride 1..16, per-axis derivative order 0..3 (evaluate_cubic_bspline) "
               "or 1..3 sorted keys of order <= 4 with spacing none/scalar/vector/per-batch (spatial_derivatives); non-trivial = derivative on some axis and stride > 1",
          quick=900, thorough=16000, shards=16, quick_shards=2),
    Facet("subdivide", run_subdivide, strategy=subdivide_cases,
          rule="D 2..3 (1-D through singleton axes), 1..3 rounds over all or a subset of dims (int/str form), noise/linear coefficients; "
               "reference evaluation of refined vs original coefficients and deepali evaluation at stride s vs s 2^r; non-trivial = noise content with a spline domain",
          quick=500, thorough=9000, shards=8, quick_shards=2),
    Facet("control_grid", run_control_grid, strategy=control_grid_cases,
          rule="image grids D 1..3 (rotated/anisotropic/reflected from vlib.gen.grids), size 1..24, stride 1..16; control point k must sit at image index (k-1) stride; "
               "non-trivial = stride > 1 and non-identity direction",
          quick=300, thorough=4000, shards=8),
    Facet("ffd_subdivide", run_ffd_subdivide, strategy=ffd_subdivide_cases,
          rule="FFD on grids D 1..3, size 2..10, stride 1..16, N 1..3, both algorithms, 1-2 refinements of all or some dims via grid_()/grid(); disp() compared at "
               "coincident samples and at every new sample against the float64 reference of the original spline; non-trivial = D >= 2 or non-divisible",
          quick=500, thorough=8000, shards=8, quick_shards=2),
    Facet("ffd_linear", run_ffd_linear, strategy=ffd_linear_cases,
          rule="FFD on grids D 1..3, size 2..24, stride 1..16, coefficients M x_k + b in normalised coordinates, N 1..3 (scaled copies), both algorithms; "
               "non-trivial = non-divisible, off-diagonal M, stride > 1",
          quick=600, thorough=10000, shards=8, quick_shards=2),
]
