"""Modules imported once in the fork server so that worker processes start quickly."""
import warnings

warnings.filterwarnings("ignore")
import os  # noqa: E402

os.environ.setdefault("OMP_NUM_THREADS", "1")
os.environ.setdefault("MKL_NUM_THREADS", "1")
try:
    import numpy  # noqa: F401,E402
    import torch  # noqa: F401,E402
    import hypothesis  # noqa: F401,E402
    import hypothesis.stateful  # noqa: F401,E402
    import scipy.linalg  # noqa: F401,E402

    torch.set_num_threads(1)
    import deepali.core  # noqa: F401,E402
    import deepali.data  # noqa: F401,E402
    import deepali.spatial  # noqa: F401,E402
    import deepali.losses  # noqa: F401,E402
    import deepali.modules  # noqa: F401,E402
except Exception:  # pragma: no cover - workers will report the import error themselves
    pass
