"""Facet runner: collect-mode Hypothesis execution, sharding, evidence, replay, exit codes.

Exit codes: 0 held on everything explored (possibly with KNOWN-FINDING lines),
            1 a line `VIOLATION property=<id> replay=<path>` was printed,
            2 harness error (never a VIOLATION).
"""
from __future__ import annotations

import argparse
import collections
import concurrent.futures as cf
import hashlib
import importlib
import json
import multiprocessing as mp
import os
import sys
import time
import traceback
import warnings
from typing import Any, Dict, List, Optional

ROOT = os.path.dirname(os.path.dirname(os.path.abspath(__file__)))
if ROOT not in sys.path:
    sys.path.insert(0, ROOT)

from vlib.core import Facet, HarnessError, Skip, Violation, canonical, case_hash  # noqa: E402
from vlib.findings import Known  # noqa: E402

MAX_SAMPLES = 3
QUICK_WALL_CAP = float(os.environ.get("VERIF_QUICK_CAP", "240"))
THOROUGH_WALL_CAP = float(os.environ.get("VERIF_THOROUGH_CAP", "2400"))


# --------------------------------------------------------------------------------------
# environment


def _setup_process():
    warnings.filterwarnings("ignore")
    os.environ.setdefault("OMP_NUM_THREADS", "1")
    os.environ.setdefault("MKL_NUM_THREADS", "1")
    import torch

    torch.set_num_threads(1)
    try:
        torch.set_num_interop_threads(1)
    except RuntimeError:
        pass
    torch.set_grad_enabled(True)


def deepali_root() -> str:
    import deepali.core

    return os.path.dirname(os.path.dirname(os.path.dirname(os.path.abspath(deepali.core.__file__))))


def load_property(prop: str):
    mod = importlib.import_module(f"props.{prop.lower()}")
    facets = {f.name: f for f in mod.FACETS}
    if len(facets) != len(mod.FACETS):
        raise HarnessError("duplicate facet names in " + prop)
    return mod, facets


def derive_seed(seed: int, prop: str, facet: str, shard: int) -> int:
    h = hashlib.sha1(f"{seed}|{prop}|{facet}|{shard}".encode()).hexdigest()
    return int(h[:12], 16)


# --------------------------------------------------------------------------------------
# classification of unexpected exceptions


def classify_exception(exc: BaseException) -> Optional[str]:
    """Return 'crash:<Type>@<module>.<function>' if the traceback passes through deepali.

    Returns None when no deepali frame is involved (then it is a harness error).
    """
    root = os.path.join(deepali_root(), "src", "deepali")
    alt = None
    try:
        import deepali.core

        alt = os.path.dirname(os.path.dirname(os.path.abspath(deepali.core.__file__)))
    except Exception:  # pragma: no cover
        pass
    tb = traceback.extract_tb(exc.__traceback__)
    inner = None
    for fr in tb:
        fn = os.path.abspath(fr.filename)
        if fn.startswith(root) or (alt and fn.startswith(alt)):
            inner = fr
    if inner is None:
        return None
    rel = os.path.abspath(inner.filename)
    base = alt or root
    rel = os.path.relpath(rel, base)
    return f"crash:{type(exc).__name__}@{rel}:{inner.name}"


# --------------------------------------------------------------------------------------
# per-unit statistics


class Stats:
    def __init__(self, prop: str, facet: Facet, known: Known, deadline: float):
        self.prop = prop
        self.facet = facet
        self.known = known
        self.deadline = deadline
        self.evaluations = 0
        self.skipped = 0
        self.skip_reasons = collections.Counter()
        self.nt_hashes = set()
        self.labels = collections.Counter()
        self.samples: List[Any] = []
        self.nt_samples: List[Any] = []
        self.buckets: Dict[str, dict] = {}
        self.known_hits = collections.Counter()
        self.max_ratio = 0.0
        self.inconclusive = False
        self.steps = 0
        self.enumerated = 0
        self.harness_error: Optional[str] = None

    # -- recording -------------------------------------------------------------------
    def record_ok(self, case, info: Optional[dict]):
        self.evaluations += 1
        nt = None
        if info:
            for lab in info.get("labels", ()):
                self.labels[lab] += 1
            r = info.get("ratio")
            if r is not None and r > self.max_ratio:
                self.max_ratio = float(r)
            nt = info.get("nontrivial")
            self.steps += int(info.get("steps", 0))
        if self.facet.labels is not None:
            for lab in self.facet.labels(case):
                self.labels[lab] += 1
        if nt is None:
            nt = bool(self.facet.nontrivial(case))
        if nt:
            self.nt_hashes.add(case_hash(case)[:16])
            if len(self.nt_samples) < MAX_SAMPLES:
                self.nt_samples.append(case)
        elif len(self.samples) < 1:
            self.samples.append(case)

    def record_violation(self, case, kind: str, detail: str):
        self.evaluations += 1
        kid = self.known.match(self.facet.name, kind)
        if kid is not None:
            self.known_hits[kid] += 1
            return
        size = len(canonical(case))
        b = self.buckets.get(kind)
        if b is None:
            self.buckets[kind] = {"count": 1, "case": case, "detail": detail, "size": size}
        else:
            b["count"] += 1
            if size < b["size"]:
                b.update(case=case, detail=detail, size=size)

    def result(self, wall: float, shard: int) -> dict:
        return {
            "facet": self.facet.name,
            "shard": shard,
            "evaluations": self.evaluations,
            "skipped": self.skipped,
            "skip_reasons": dict(self.skip_reasons),
            "nt_hashes": sorted(self.nt_hashes),
            "labels": dict(self.labels),
            "samples": (self.nt_samples + self.samples)[:MAX_SAMPLES],
            "buckets": self.buckets,
            "known_hits": dict(self.known_hits),
            "max_ratio": self.max_ratio,
            "inconclusive": self.inconclusive,
            "steps": self.steps,
            "enumerated": self.enumerated,
            "harness_error": self.harness_error,
            "wall_s": wall,
        }


def evaluate_case(stats: Stats, case) -> None:
    """Run one case in collect mode (never raises for violations)."""
    facet = stats.facet
    try:
        info = facet.run(case)
    except Skip as s:
        stats.skipped += 1
        stats.skip_reasons[s.reason] += 1
        return
    except Violation as v:
        stats.record_violation(case, v.kind, v.detail)
        return
    except (KeyboardInterrupt, SystemExit):
        raise
    except BaseException as e:  # noqa: BLE001
        if type(e).__module__.startswith("hypothesis"):
            raise
        kind = classify_exception(e)
        if kind is None:
            stats.harness_error = "".join(traceback.format_exception(type(e), e, e.__traceback__))[-4000:]
            raise HarnessError(stats.harness_error)
        stats.record_violation(case, kind, f"{type(e).__name__}: {str(e)[:300]}")
        return
    stats.record_ok(case, info)


def run_single(facet: Facet, case) -> Optional[Violation]:
    """Run one case directly (replay path, no Hypothesis). Returns the violation or None."""
    try:
        facet.run(case)
    except Skip:
        return None
    except Violation as v:
        return v
    except (KeyboardInterrupt, SystemExit):
        raise
    except BaseException as e:  # noqa: BLE001
        kind = classify_exception(e)
        if kind is None:
            raise
        return Violation(kind, f"{type(e).__name__}: {str(e)[:300]}")
    return None


# --------------------------------------------------------------------------------------
# unit of work (runs in a worker process)


def _hyp_settings(n: int, shrink: bool = False, steps: Optional[int] = None):
    from hypothesis import HealthCheck, Phase, Verbosity, settings

    kw = dict(
        max_examples=max(1, n),
        database=None,
        deadline=None,
        derandomize=False,
        report_multiple_bugs=False,
        verbosity=Verbosity.quiet,
        print_blob=False,
        phases=[Phase.generate, Phase.shrink] if shrink else [Phase.generate],
        suppress_health_check=[HealthCheck.too_slow, HealthCheck.data_too_large, HealthCheck.large_base_example],
    )
    if steps is not None:
        kw["stateful_step_count"] = steps
    return settings(**kw)


def run_unit(prop: str, facet_name: str, tier: str, seed: int, shard: int, nshards: int, n: int, deadline: float,
             only_kind: Optional[str] = None) -> dict:
    """Run one shard of one facet. With only_kind set: shrink pass for that bucket."""
    t0 = time.time()
    _setup_process()
    import hypothesis
    from hypothesis import given

    mod, facets = load_property(prop)
    facet = facets[facet_name]
    known = Known(prop)
    stats = Stats(prop, facet, known, deadline)
    dseed = derive_seed(seed, prop, facet_name, shard)

    try:
        # 1. enumerated finite sub-space (sharded by index)
        if facet.enumerate is not None and only_kind is None:
            for i, case in enumerate(facet.enumerate(tier)):
                if i % nshards != shard:
                    continue
                if time.time() > deadline:
                    stats.inconclusive = True
                    break
                evaluate_case(stats, case)
                stats.enumerated += 1

        # 2. generated cases
        if n > 0 and facet.machine is not None:
            _run_machine(facet, stats, n, dseed, tier, only_kind)
        elif n > 0 and facet.strategy is not None:
            strat = facet.strategy() if callable(facet.strategy) and not hasattr(facet.strategy, "example") else facet.strategy
            last = {}

            def body(case):
                if time.time() > stats.deadline:
                    stats.inconclusive = True
                    return
                if only_kind is None:
                    evaluate_case(stats, case)
                else:
                    v = run_single(facet, case)
                    if v is not None and v.kind == only_kind:
                        last["case"] = case
                        last["detail"] = v.detail
                        raise v

            test = hypothesis.seed(dseed)(_hyp_settings(n, shrink=only_kind is not None)(given(strat)(body)))
            try:
                test()
            except Violation:
                if only_kind is None:
                    raise
                stats.buckets[only_kind] = {"count": 1, "case": last["case"], "detail": last["detail"],
                                            "size": len(canonical(last["case"]))}
    except HarnessError as e:
        stats.harness_error = str(e)
    except (KeyboardInterrupt, SystemExit):
        raise
    except BaseException as e:  # noqa: BLE001  (hypothesis health checks, strategy errors, ...)
        stats.harness_error = "".join(traceback.format_exception(type(e), e, e.__traceback__))[-4000:]
    return stats.result(time.time() - t0, shard)


def _run_machine(facet: Facet, stats: Stats, n: int, dseed: int, tier: str, only_kind: Optional[str]):
    import hypothesis
    from hypothesis.stateful import run_state_machine_as_test

    steps = facet.quick_steps if tier == "quick" else facet.thorough_steps

    class Ctx:
        pass

    ctx = Ctx()
    ctx.stats = stats
    ctx.only_kind = only_kind
    ctx.last = {}
    machine_cls = facet.machine(ctx)
    try:
        run_state_machine_as_test(hypothesis.seed(dseed)(machine_cls),
                                  settings=_hyp_settings(n, shrink=only_kind is not None, steps=steps))
    except Violation:
        if only_kind is None:
            raise
        stats.buckets[only_kind] = {"count": 1, "case": ctx.last["case"], "detail": ctx.last["detail"],
                                    "size": len(canonical(ctx.last["case"]))}


# --------------------------------------------------------------------------------------
# orchestration


def _write_replay(prop: str, facet: str, case, kind: str, detail: str, seed: int, tier: str, subdir=None) -> str:
    subdir = subdir or os.environ.get("VERIF_REPLAY_SUBDIR", "replays")
    d = os.path.join(ROOT, subdir, prop)
    os.makedirs(d, exist_ok=True)
    h = case_hash({"facet": facet, "case": case})[:8]
    rel = os.path.join(subdir, prop, f"{facet}-{h}.json")
    with open(os.path.join(ROOT, rel), "w") as f:
        json.dump({"property": prop, "facet": facet, "seed": seed, "tier": tier,
                   "failure": {"kind": kind, "detail": detail}, "case": case}, f, indent=1, sort_keys=True,
                  default=_jd)
    return rel


def _jd(o):
    from vlib.core import _json_default

    return _json_default(o)


def replay_file(prop: str, path: str, facets: Dict[str, Facet]):
    with open(path if os.path.isabs(path) else os.path.join(ROOT, path)) as f:
        doc = json.load(f)
    if doc.get("property", prop) != prop:
        raise HarnessError(f"{path} belongs to {doc.get('property')}, not {prop}")
    facet = facets.get(doc["facet"])
    if facet is None:
        raise HarnessError(f"{path}: unknown facet {doc['facet']}")
    return doc, run_single(facet, doc["case"])


def run_regressions(prop: str, facets, known: Known, out: List[str]) -> dict:
    """Replay regressions/<prop>/*.json (fixed defects, seeded-mutant witnesses, old failures)
    and the witnesses of known findings."""
    res = {"replayed": 0, "violations": [], "known_reproduced": [], "known_gone": []}
    witness_of = {}
    for e in known.entries:
        w = e.get("witness")
        for p in ([w] if isinstance(w, str) else (w or [])):
            witness_of[os.path.normpath(p)] = e
    d = os.path.join(ROOT, "regressions", prop)
    files = sorted(os.path.join("regressions", prop, f) for f in os.listdir(d) if f.endswith(".json")) if os.path.isdir(d) else []
    for rel in files:
        if os.path.normpath(rel) in witness_of:
            continue
        doc, v = replay_file(prop, rel, facets)
        res["replayed"] += 1
        if v is not None:
            kid = known.match(doc["facet"], v.kind)
            if kid is None:
                res["violations"].append((rel, v))
    reproduced = set()
    for rel, e in witness_of.items():
        doc, v = replay_file(prop, rel, facets)
        res["replayed"] += 1
        if v is not None and known.match(doc["facet"], v.kind) == e["id"]:
            reproduced.add(e["id"])
        elif v is not None:
            res["violations"].append((rel, v))
    for e in known.entries:
        if e["id"] in reproduced:
            res["known_reproduced"].append(e["id"])
            out.append(f"KNOWN-FINDING: property={prop} {e['id']} {e['what']}")
        else:
            res["known_gone"].append(e["id"])
            out.append(f"NOTE: known finding {e['id']} of {prop} did not reproduce from its witness on this tree")
    return res


def main(argv=None) -> int:
    ap = argparse.ArgumentParser()
    ap.add_argument("prop")
    ap.add_argument("--tier", default=os.environ.get("VERIF_TIER", "quick"), choices=["quick", "thorough"])
    ap.add_argument("--replay")
    ap.add_argument("--facet", action="append")
    ap.add_argument("--jobs", type=int, default=int(os.environ.get("VERIF_JOBS", "0")))
    ap.add_argument("--scale", type=float, default=float(os.environ.get("VERIF_SCALE", "1")))
    ap.add_argument("--no-evidence", action="store_true")
    args = ap.parse_args(argv)
    prop = args.prop.upper()
    seed = int(os.environ.get("VERIF_SEED", "0") or 0)
    t0 = time.time()
    try:
        return _main(prop, args, seed, t0)
    except HarnessError as e:
        print(f"HARNESS-ERROR property={prop}: {e}", file=sys.stderr)
        return 2
    except (KeyboardInterrupt, SystemExit):
        raise
    except BaseException:  # noqa: BLE001
        traceback.print_exc()
        print(f"HARNESS-ERROR property={prop}: unexpected exception in runner", file=sys.stderr)
        return 2


def _main(prop: str, args, seed: int, t0: float) -> int:
    _setup_process()
    mod, facets = load_property(prop)
    known = Known(prop)
    root = deepali_root()

    if args.replay:
        doc, v = replay_file(prop, args.replay, facets)
        if v is None:
            print(f"replay {args.replay}: property held")
            return 0
        kid = known.match(doc["facet"], v.kind)
        if kid:
            print(f"KNOWN-FINDING: property={prop} {kid} {known.by_id(kid)['what']}")
            return 0
        print(f"replay {args.replay}: {v.kind}: {v.detail}")
        print(f"VIOLATION property={prop} replay={args.replay}")
        return 1

    # reference-model self test
    if hasattr(mod, "selftest"):
        try:
            mod.selftest()
        except Exception as e:  # noqa: BLE001
            raise HarnessError(f"reference self-test failed: {e!r}")

    tier = args.tier
    cap = QUICK_WALL_CAP if tier == "quick" else THOROUGH_WALL_CAP
    deadline = t0 + cap
    jobs = args.jobs or (8 if tier == "quick" else 16)
    jobs = max(1, min(jobs, os.cpu_count() or 1))
    lines: List[str] = []

    selected = [f for f in mod.FACETS if not args.facet or f.name in args.facet]
    reg = {"replayed": 0, "violations": [], "known_reproduced": [], "known_gone": []}
    if not args.facet:
        reg = run_regressions(prop, facets, known, lines)

    units = []
    for f in selected:
        total = int(round((f.quick if tier == "quick" else f.thorough) * args.scale))
        ns = f.quick_shards if tier == "quick" else f.shards
        ns = max(1, min(ns, max(1, total // 20) if total else ns))
        per = (total + ns - 1) // ns if total else 0
        for s in range(ns):
            units.append((prop, f.name, tier, seed, s, ns, per, deadline))

    results: List[dict] = []
    if jobs == 1 or len(units) == 1:
        for u in units:
            results.append(run_unit(*u))
    else:
        ctx = mp.get_context("forkserver")
        ctx.set_forkserver_preload(["vlib.preload"])
        with cf.ProcessPoolExecutor(max_workers=min(jobs, len(units)), mp_context=ctx) as ex:
            futs = [ex.submit(run_unit, *u) for u in units]
            for fu in futs:
                results.append(fu.result())

    # merge
    per_facet: Dict[str, dict] = {}
    harness_errors = []
    for r in results:
        pf = per_facet.setdefault(r["facet"], {
            "examples": 0, "skipped": 0, "nt": set(), "labels": collections.Counter(), "samples": [],
            "buckets": {}, "known_hits": collections.Counter(), "max_ratio": 0.0, "inconclusive": False,
            "steps": 0, "enumerated": 0, "wall_s": 0.0, "skip_reasons": collections.Counter(), "units": []})
        pf["examples"] += r["evaluations"]
        pf["skipped"] += r["skipped"]
        pf["skip_reasons"].update(r["skip_reasons"])
        pf["nt"].update(r["nt_hashes"])
        pf["labels"].update(r["labels"])
        if len(pf["samples"]) < MAX_SAMPLES:
            pf["samples"].extend(r["samples"][: MAX_SAMPLES - len(pf["samples"])])
        for k, b in r["buckets"].items():
            cur = pf["buckets"].get(k)
            if cur is None:
                pf["buckets"][k] = dict(b, shard=r["shard"])
            else:
                cur["count"] += b["count"]
                if b["size"] < cur["size"]:
                    cur.update(case=b["case"], detail=b["detail"], size=b["size"], shard=r["shard"])
        pf["known_hits"].update(r["known_hits"])
        pf["max_ratio"] = max(pf["max_ratio"], r["max_ratio"])
        pf["inconclusive"] |= r["inconclusive"]
        pf["steps"] += r["steps"]
        pf["enumerated"] += r["enumerated"]
        pf["wall_s"] = max(pf["wall_s"], r["wall_s"])
        if r["harness_error"]:
            harness_errors.append((r["facet"], r["harness_error"]))

    # violations: shrink (thorough) and write replay files
    violations = []
    for rel, v in reg["violations"]:
        violations.append((rel, v.kind, v.detail))
    unit_by_facet = {}
    for u in units:
        unit_by_facet.setdefault(u[1], []).append(u)
    for fname, pf in per_facet.items():
        for kind, b in sorted(pf["buckets"].items()):
            case, detail = b["case"], b["detail"]
            if tier == "thorough" and os.environ.get("VERIF_NO_SHRINK") != "1":
                try:
                    u = [x for x in unit_by_facet[fname] if x[4] == b["shard"]][0]
                    sr = run_unit(u[0], u[1], u[2], u[3], u[4], u[5], u[6], time.time() + 280, only_kind=kind)
                    sb = sr["buckets"].get(kind)
                    if sb is not None and sb["size"] <= b["size"]:
                        case, detail = sb["case"], sb["detail"]
                except Exception:  # noqa: BLE001
                    pass
            rel = _write_replay(prop, fname, case, kind, detail, seed, tier)
            violations.append((rel, kind, f"[{b['count']}x] {detail}"))

    for e in known.entries:
        hits = sum(pf["known_hits"].get(e["id"], 0) for pf in per_facet.values())
        if hits and e["id"] not in reg["known_reproduced"]:
            lines.append(f"KNOWN-FINDING: property={prop} {e['id']} {e['what']}")
            reg["known_reproduced"].append(e["id"])

    wall = time.time() - t0
    if not args.no_evidence and not args.facet:
        _write_evidence(prop, mod, tier, seed, wall, per_facet, selected, reg, violations, root, harness_errors)

    for ln in lines:
        print(ln)
    for fname, pf in per_facet.items():
        flag = " INCONCLUSIVE(time cap)" if pf["inconclusive"] else ""
        print(f"  {prop}.{fname}: {pf['examples']} cases ({pf['enumerated']} enumerated), {len(pf['nt'])} distinct non-trivial, "
              f"skipped {pf['skipped']}, max err/bound {pf['max_ratio']:.3g}, {pf['wall_s']:.1f}s{flag}")
    if harness_errors:
        for fname, he in harness_errors:
            print(f"HARNESS-ERROR property={prop} facet={fname}:\n{he}", file=sys.stderr)
        return 2
    if violations:
        for rel, kind, detail in violations:
            print(f"  violation [{kind}] {detail}")
            print(f"VIOLATION property={prop} replay={rel}")
        return 1
    print(f"OK property={prop} tier={tier} seed={seed} wall={wall:.1f}s")
    return 0


def _write_evidence(prop, mod, tier, seed, wall, per_facet, selected, reg, violations, root, harness_errors):
    import platform

    import hypothesis
    import numpy
    import torch

    facets_doc = {}
    samples = []
    evaluations = 0
    nt_total = 0
    steps = 0
    rules = []
    exhaustive_all = True
    for f in selected:
        pf = per_facet.get(f.name)
        if pf is None:
            continue
        evaluations += pf["examples"]
        nt_total += len(pf["nt"])
        steps += pf["steps"]
        ex = bool(f.enumerate is not None and tier in f.exhaustive_tiers and not pf["inconclusive"])
        exhaustive_all &= ex and (f.strategy is None and f.machine is None)
        facets_doc[f.name] = {
            "examples": pf["examples"], "enumerated": pf["enumerated"], "nontrivial": len(pf["nt"]),
            "skipped": pf["skipped"], "skip_reasons": dict(pf["skip_reasons"]),
            "labels": dict(sorted(pf["labels"].items())), "max_err_over_bound": round(pf["max_ratio"], 6),
            "exhaustive_enumeration": ex, "excluded_known": dict(pf["known_hits"]),
            "inconclusive": pf["inconclusive"], "steps": pf["steps"], "wall_s": round(pf["wall_s"], 2),
            "rule": f.rule,
        }
        for s in pf["samples"][:2]:
            samples.append({"facet": f.name, "case": s})
        rules.append(f"[{f.name}] {f.rule}")
    doc = {
        "property_id": prop,
        "tier": tier,
        "seed": seed,
        "level": "exploration",
        "wall_s": round(wall, 2),
        "violations": len(violations),
        "coverage": {
            "evaluations": evaluations,
            "distinct_nontrivial": nt_total,
            "rule": "Cases are JSON descriptors drawn by Hypothesis (seeded from VERIF_SEED|property|facet|shard) "
                    "or enumerated; distinct = SHA-1 of the canonical JSON; non-trivial per facet: " + " ".join(rules),
            "samples": samples or [{"note": "no cases"}],
            "exhaustive": bool(exhaustive_all and facets_doc),
            "facets": facets_doc,
            "steps": steps,
            "regressions_replayed": reg["replayed"],
            "known_findings_reproduced": reg["known_reproduced"],
            "known_findings_not_reproduced": reg["known_gone"],
            "violation_kinds": [k for _, k, _ in violations],
            "harness_errors": len(harness_errors),
            "deepali_root": root,
            "versions": {"python": platform.python_version(), "torch": torch.__version__, "numpy": numpy.__version__,
                         "hypothesis": hypothesis.__version__},
        },
        "assumptions": list(getattr(mod, "ASSUMPTIONS", [])) + [
            "CPU only, single-threaded torch; float32/float64 only",
            "independent reference models in vlib/ref.py (numpy float64) are trusted",
        ],
    }
    d = os.path.join(ROOT, "evidence")
    os.makedirs(d, exist_ok=True)
    tmp = os.path.join(d, f".{prop}.json.tmp")
    with open(tmp, "w") as f:
        json.dump(doc, f, indent=1, default=_jd)
    os.replace(tmp, os.path.join(d, f"{prop}.json"))


if __name__ == "__main__":
    sys.exit(main())
