"""Base class for Hypothesis rule-based state machines used as facets.

A machine is a *generator of histories*: every rule draws arguments, turns them into a plain
op dict and hands it to `self.do(op)`.  `do` logs the op and calls `self.apply(op)`, the
interpreter that performs the operation on the real object and the model and checks the
oracle (raising vlib.core.Violation).  The recorded case {"init": ..., "steps": [...]} is
replayed without Hypothesis by `replay(machine_cls, case)`, which calls `start` and `apply`
directly - so the replay file is a pure function of its content.

In collect mode a violation marks the machine dead (remaining rules become no-ops), is
recorded in the runner statistics, and the search continues with the next history.
"""
from __future__ import annotations

from hypothesis.stateful import RuleBasedStateMachine

from vlib.core import Skip, Violation


class VMachine(RuleBasedStateMachine):
    ctx = None  # set by make_machine()

    def __init__(self):
        super().__init__()
        self.init_case = None
        self.steps = []
        self.dead = False
        self.started = False
        self.violation = None

    # ---- to be provided by subclasses ------------------------------------------------
    def start(self, init: dict) -> None:  # build real object + model from the init descriptor
        raise NotImplementedError

    def apply(self, op: dict) -> None:  # perform op on real object and model, check oracle
        raise NotImplementedError

    def is_nontrivial(self) -> bool:
        return len(self.steps) >= 2

    def run_labels(self):
        return sorted({s["op"] for s in self.steps})

    # ---- used by rules ------------------------------------------------------------------
    def begin(self, init: dict) -> None:
        self.init_case = init
        self._guard(lambda: self.start(init))
        self.started = True

    def do(self, op: dict) -> None:
        if self.dead or not self.started:
            return
        self.steps.append(op)
        self._guard(lambda: self.apply(op))

    def case(self) -> dict:
        return {"init": self.init_case, "steps": list(self.steps)}

    def _guard(self, fn) -> None:
        from vlib import runner

        try:
            fn()
        except Skip:
            if self.steps:
                self.steps.pop()
        except Violation as v:
            self._fail(v.kind, v.detail)
        except (KeyboardInterrupt, SystemExit):
            raise
        except BaseException as e:  # noqa: BLE001
            if type(e).__module__.startswith("hypothesis"):
                raise
            kind = runner.classify_exception(e)
            if kind is None:
                raise
            self._fail(kind, f"{type(e).__name__}: {str(e)[:300]}")

    def _fail(self, kind: str, detail: str) -> None:
        self.dead = True
        self.violation = (kind, detail)
        ctx = self.ctx
        if ctx is not None and ctx.only_kind is not None:
            if kind == ctx.only_kind:
                ctx.last["case"] = self.case()
                ctx.last["detail"] = detail
                raise Violation(kind, detail)

    def teardown(self):
        ctx = self.ctx
        if ctx is None or ctx.only_kind is not None or not self.started:
            return
        st = ctx.stats
        case = self.case()
        if self.violation is not None:
            st.record_violation(case, *self.violation)
        else:
            st.record_ok(case, {"labels": self.run_labels(), "nontrivial": self.is_nontrivial(), "steps": len(self.steps)})


def make_machine(base_cls):
    """Facet.machine factory: binds the runner context to a fresh subclass."""

    def factory(ctx):
        return type(base_cls.__name__ + "Bound", (base_cls,), {"ctx": ctx})

    return factory


def replay(machine_cls, case: dict) -> None:
    """Replay a recorded history without Hypothesis; raises Violation if it still fails."""
    m = machine_cls.__new__(machine_cls)
    # avoid RuleBasedStateMachine.__init__ requirements that need a running test
    try:
        machine_cls.__init__(m)
    except Exception:  # pragma: no cover - fall back to manual initialisation
        m.init_case = None
        m.steps = []
        m.dead = False
        m.started = False
        m.violation = None
    m.ctx = None
    m.init_case = case["init"]
    m.start(case["init"])
    m.started = True
    for op in case["steps"]:
        m.steps.append(op)
        try:
            m.apply(op)
        except Skip:
            m.steps.pop()
