"""Hypothesis strategies producing JSON-serialisable case descriptors.

All random choices go through Hypothesis.  Floats are drawn on a decimal lattice
(`qfloat`) so that descriptors stay short, shrink to round numbers and survive JSON.
"""
from __future__ import annotations

import math
from typing import Optional, Sequence

from hypothesis import strategies as st


def qfloat(lo: float, hi: float, step: float = 1e-3):
    """Floats k*step in [lo, hi]."""
    a, b = math.ceil(lo / step - 1e-9), math.floor(hi / step + 1e-9)
    nd = max(0, int(round(-math.log10(step))) + 1)
    return st.integers(a, b).map(lambda k: round(k * step, nd))


def logfloat(lo: float, hi: float, digits: int = 3):
    """Log-uniform positive floats in [lo, hi], rounded to `digits` significant digits."""
    la, lb = math.log(lo), math.log(hi)

    def conv(k):
        v = math.exp(la + (lb - la) * k / 10000.0)
        return float(f"{v:.{digits}g}")

    return st.integers(0, 10000).map(conv)


def dims():
    return st.sampled_from([2, 3])


def sizes(D: int, min_size: int = 1, max_size: int = 64):
    small = st.integers(min_size, max(min_size, min(3, max_size)))
    full = st.integers(min_size, max_size)
    one = st.one_of(small, full, full) if min_size <= 3 else full
    return st.lists(one, min_size=D, max_size=D)


def spacings(D: int, lo: float = 0.05, hi: float = 20.0):
    iso = logfloat(lo, hi).map(lambda s: [s] * D)
    aniso = st.lists(logfloat(lo, hi), min_size=D, max_size=D)
    if lo <= 1.0 <= hi:
        unit = st.just([1.0] * D)  # special value: unit spacing (identity linear part together with an identity direction)
        return st.one_of(iso, aniso, aniso.map(list), unit)
    return st.one_of(iso, aniso, aniso)


def centers(D: int, mag: float = 500.0):
    zero = st.just([0.0] * D)
    gen = st.lists(qfloat(-mag, mag, 0.01), min_size=D, max_size=D)
    return st.one_of(zero, gen, gen, gen)


def angles(lo=-math.pi, hi=math.pi):
    return qfloat(lo, hi, 1e-3)


@st.composite
def directions(draw, D: int, kinds: Sequence[str] = ("identity", "perm", "rotation", "rotation", "reflection")):
    """Descriptor of a direction matrix: rot angles + signed permutation; |det| = 1 by construction."""
    kind = draw(st.sampled_from(list(kinds)))
    nrot = 1 if D == 2 else 3
    rot = [0.0] * nrot
    perm = list(range(D))
    flip = [1] * D
    if kind in ("perm", "reflection"):
        perm = list(draw(st.permutations(range(D))))
        flip = draw(st.lists(st.sampled_from([1, -1]), min_size=D, max_size=D))
        # parity of the permutation
        sign = 1
        p = list(perm)
        for i in range(D):
            while p[i] != i:
                j = p[i]
                p[i], p[j] = p[j], p[i]
                sign = -sign
        det = sign * math.prod(flip)
        if kind == "perm" and det < 0:
            flip[0] = -flip[0]
        if kind == "reflection" and det > 0:
            flip[0] = -flip[0]
    if kind in ("rotation", "reflection"):
        rot = [draw(angles()) for _ in range(nrot)]
    return {"rot": rot, "perm": perm, "flip": flip, "kind": kind}


@st.composite
def grids(draw, D: Optional[int] = None, min_size: int = 1, max_size: int = 64, kinds=None, mag: float = 500.0,
          spacing_lo: float = 0.05, spacing_hi: float = 20.0, ac=None):
    if D is None:
        D = draw(dims())
    d = draw(directions(D) if kinds is None else directions(D, kinds))
    g = {
        "size": draw(sizes(D, min_size, max_size)),
        "spacing": draw(spacings(D, spacing_lo, spacing_hi)),
        "center": draw(centers(D, mag)),
        "rot": d["rot"], "perm": d["perm"], "flip": d["flip"], "kind": d["kind"],
        "ac": draw(st.booleans()) if ac is None else ac,
    }
    return g


def grid_is_oblique(g: dict) -> bool:
    return any(abs(math.sin(2 * a)) > 1e-3 for a in g["rot"])


def grid_is_anisotropic(g: dict) -> bool:
    s = g["spacing"]
    return max(s) / min(s) > 1.05


def point_lists(D: int, lo: float, hi: float, min_n: int = 1, max_n: int = 6, step: float = 1e-3):
    return st.lists(st.lists(qfloat(lo, hi, step), min_size=D, max_size=D), min_size=min_n, max_size=max_n)


def dtypes():
    return st.sampled_from(["float32", "float64"])


# ---------------------------------------------------------------------------------------
# grids obtained through deepali's own derivation methods from a parent grid that was already *used*
# (descriptor interpreted by vlib.case.derive_grid).  Purpose: state carried by Grid objects between calls
# (caches, shared tensors) is only visible on grids with a history.

DERIVE_OPS = ["spacing", "direction", "center", "origin", "align_corners", "resize", "resample", "downsample", "upsample",
              "crop", "pad", "center_crop", "center_pad", "narrow", "reshape", "clone", "copy", "deepcopy", "pickle", "use", "use",
              "downsample", "resample", "downsample"]  # (repeated entries = weights)
N_WARM = 16  # number of warm-up calls known to vlib.case.warm_grid


@st.composite
def derivation_steps(draw, D: int, max_steps: int = 2):
    """1..max_steps derivation steps, each {"op", "warm" (bitmask of read-only calls made on the grid first), args...}."""
    steps = []
    for _ in range(draw(st.integers(1, max_steps))):
        op = draw(st.sampled_from(DERIVE_OPS))
        step = {"op": op, "warm": draw(st.one_of(st.just(0), st.just((1 << N_WARM) - 1), st.integers(1, (1 << N_WARM) - 1)))}
        if op in ("spacing", "resample"):
            step["factor"] = draw(st.lists(st.sampled_from([0.5, 2.0, 0.25, 4.0] if op == "resample" else [0.5, 2.0, 1.25, 0.8, 3.0]),
                                           min_size=D, max_size=D))
        elif op == "direction":
            step["dir"] = draw(directions(D))
        elif op in ("center", "origin"):
            step["offset"] = draw(st.lists(qfloat(-20.0, 20.0, 0.01), min_size=D, max_size=D))
        elif op in ("resize", "reshape", "center_crop", "center_pad"):
            step["delta"] = draw(st.lists(st.integers(-3, 5), min_size=D, max_size=D))
        elif op in ("downsample", "upsample"):
            step["levels"] = draw(st.sampled_from([1, 1, 2]))
        elif op in ("crop", "pad"):
            step["num"] = draw(st.lists(st.integers(-2, 3), min_size=2 * D, max_size=2 * D))
        elif op == "narrow":
            step["dim"] = draw(st.integers(0, D - 1))
            step["start"] = draw(st.integers(0, 2))
            step["length"] = draw(st.integers(2, 6))
        steps.append(step)
    return steps
