"""Case descriptors -> deepali / torch objects, and closed-form tensor content."""
from __future__ import annotations

import numpy as np
import torch

from vlib import ref


def tdtype(name: str) -> torch.dtype:
    return {"float32": torch.float32, "float64": torch.float64, "uint8": torch.uint8, "int16": torch.int16,
            "int32": torch.int32, "int64": torch.int64, "bool": torch.bool}[name]


def make_grid(g: dict, route: str = "center"):
    """Build a deepali Grid from a grid descriptor (see vlib.gen.grids)."""
    from deepali.core import Grid

    R = ref.direction_matrix(g["rot"], g.get("perm"), g.get("flip"))
    kw = dict(size=list(g["size"]), spacing=list(g["spacing"]), direction=torch.tensor(R, dtype=torch.float64),
              align_corners=bool(g.get("ac", True)))
    if route == "origin" or "origin" in g:
        m = ref.GridModel.from_desc(g)
        kw["origin"] = [float(v) for v in m.o]
    else:
        kw["center"] = list(g.get("center", [0.0] * len(g["size"])))
    return Grid(**kw)


def axes_of(name: str):
    from deepali.core import Axes

    return Axes(name)


def hash_noise(shape, key: int = 0, lo: float = 0.0, hi: float = 1.0) -> np.ndarray:
    """Deterministic 'arbitrary content': counter-based integer hash mapped to [lo, hi)."""
    n = int(np.prod(shape)) if len(shape) else 1
    i = np.arange(n, dtype=np.uint64)
    x = (i + np.uint64(key) * np.uint64(0x9E3779B97F4A7C15)) & np.uint64(0xFFFFFFFFFFFFFFFF)
    x ^= x >> np.uint64(33)
    x = (x * np.uint64(0xFF51AFD7ED558CCD)) & np.uint64(0xFFFFFFFFFFFFFFFF)
    x ^= x >> np.uint64(33)
    x = (x * np.uint64(0xC4CEB9FE1A85EC53)) & np.uint64(0xFFFFFFFFFFFFFFFF)
    x ^= x >> np.uint64(33)
    u = (x >> np.uint64(11)).astype(np.float64) / float(1 << 53)
    return (lo + (hi - lo) * u).reshape(shape)


def smooth_field(shape, waves, amp: float, phase: float = 0.0) -> np.ndarray:
    """Product of sines vanishing at the boundary of the index box; shape (..., X), waves per axis."""
    D = len(shape)
    out = np.ones(shape, dtype=np.float64) * amp
    for ax in range(D):
        n = shape[ax]
        t = np.arange(n, dtype=np.float64) / max(n - 1, 1)
        s = np.sin(np.pi * waves[ax] * t + 0.0)
        sh = [1] * D
        sh[ax] = n
        out = out * s.reshape(sh)
    return out


def grid_state(grid):
    """Snapshot of every attribute of a deepali Grid (incl. the fractional internal size and the flag)."""
    return (grid._size.clone(), grid.spacing().clone(), grid.center().clone(), grid.direction().clone(), bool(grid.align_corners()))


def assert_grid_intact(grid, state, what: str = "grid"):
    """The Grid object must be exactly as it was when `state` was taken (no API call on it may modify it)."""
    from vlib.core import Violation

    now = grid_state(grid)
    names = ("size", "spacing", "center", "direction", "align_corners")
    for n, a, b in zip(names, state, now):
        same = (a == b) if isinstance(a, bool) else (a.shape == b.shape and bool(torch.equal(a, b)))
        if not same:
            raise Violation("grid_object_modified:" + n, f"{what}: attribute '{n}' of the Grid object changed from {a} to {b} during read-only calls")


# ---------------------------------------------------------------------------------------
# grids with a history (see vlib.gen.derivation_steps)


def warm_grid(grid, mask: int):
    """Read-only calls on `grid` selected by the bits of `mask`; they may fill caches but must not change the grid."""
    from deepali.core import Axes

    calls = [
        lambda: grid.origin(),
        lambda: grid.affine(),
        lambda: grid.inverse_affine(),
        lambda: grid.transform(Axes.GRID, Axes.WORLD),
        lambda: grid.transform(Axes.WORLD, Axes.CUBE),
        lambda: grid.transform(Axes.CUBE_CORNERS, Axes.GRID, vectors=True),
        lambda: grid.transform(Axes.CUBE, Axes.CUBE_CORNERS),
        lambda: grid.coords(),
        lambda: grid.points(),
        lambda: grid.cube(),
        lambda: (grid.extent(), grid.cube_extent(), grid.domain()),
        lambda: (repr(grid), grid == grid, grid.same_domain_as(grid)),
        lambda: grid.transform_vectors(torch.ones(1, grid.ndim), Axes.GRID, Axes.CUBE_CORNERS),
        lambda: grid.transform_vectors(torch.ones(1, grid.ndim), Axes.WORLD, Axes.CUBE),
        lambda: grid.world_to_index(grid.index_to_world(torch.zeros(1, grid.ndim))),
        lambda: (grid.size_tensor(), grid.shape, grid.size(), grid.numel()),
    ]
    small = int(grid.numel()) <= 20000  # coords() / points() materialise one vector per sample
    for i, f in enumerate(calls):
        if mask >> i & 1 and (small or i not in (7, 8)):
            f()


def derive_grid(grid, steps, min_size: int = 1, fractional: bool = False):
    """Apply derivation steps (vlib.gen.derivation_steps) to a deepali Grid with deepali's own methods.

    Every intermediate grid is warmed up (read-only calls) before the next step and must be left intact by it.
    Returns the final grid and the list of operations actually applied.  Raises Skip when a step would leave
    fewer than `min_size` samples along an axis or (unless `fractional`) produce a fractional internal size
    (deepali keeps the unrounded size of e.g. downsample() of an odd size; size() is its ceiling)."""
    import copy
    import pickle

    from vlib.core import Skip

    applied = []
    for step in steps:
        state = grid_state(grid)
        warm_grid(grid, int(step.get("warm", 0)))
        assert_grid_intact(grid, state, "read-only calls on a grid (coordinate maps, accessors)")
        op = step["op"]
        n = [int(v) for v in grid.size()]
        D = len(n)
        if op == "spacing":
            new = grid.spacing([float(s) * f for s, f in zip(grid.spacing().tolist(), step["factor"])])
        elif op == "resample":
            # coarser spacing only along axes whose size it divides (keeps the derived size integral)
            fac = [f if f < 1 or (fractional or a % int(f) == 0) and a // int(f) >= min_size else 1.0 / f for a, f in zip(n, step["factor"])]
            new = grid.resample([float(s) * f for s, f in zip(grid.spacing().tolist(), fac)])
        elif op == "direction":
            new = grid.direction(torch.tensor(ref.direction_matrix(step["dir"]["rot"], step["dir"]["perm"], step["dir"]["flip"]), dtype=torch.float64))
        elif op == "center":
            new = grid.center([float(c) + o for c, o in zip(grid.center().tolist(), step["offset"])])
        elif op == "origin":
            new = grid.origin([float(c) + o for c, o in zip(grid.origin().tolist(), step["offset"])])
        elif op == "align_corners":
            new = grid.align_corners(not grid.align_corners())
        elif op in ("resize", "reshape", "center_crop", "center_pad"):
            size = [max(min_size, a + d) for a, d in zip(n, step["delta"])]
            if op in ("resize", "reshape"):  # axes with a single sample have no extent to preserve: left alone
                size = [a if a < 2 else max(b, 2) for a, b in zip(n, size)]
            if op == "center_crop":
                size = [min(a, b) for a, b in zip(size, n)]
            if op == "center_pad":
                size = [max(a, b) for a, b in zip(size, n)]
            new = grid.reshape(size[::-1]) if op == "reshape" else getattr(grid, op)(size)
        elif op in ("downsample", "upsample"):
            k = 2 ** int(step["levels"])
            dims = [i for i, a in enumerate(n) if (fractional or a % k == 0) and a // k >= max(min_size, 2)] if op == "downsample" else []
            if not dims:
                op, dims = "upsample", [i for i, a in enumerate(n) if a >= 2]
            if not dims:
                raise Skip("no axis with more than one sample to resize")
            new = getattr(grid, op)(int(step["levels"]), dims=dims)
        elif op in ("crop", "pad"):
            num = list(step["num"])
            sign = -1 if op == "crop" else 1
            for i in range(D):  # keep at least min_size samples
                while n[i] + sign * (num[2 * i] + num[2 * i + 1]) < min_size:
                    num[2 * i] += sign
            new = getattr(grid, op)(num=num)
        elif op == "narrow":
            dim = int(step["dim"])
            start = min(int(step["start"]), max(n[dim] - min_size, 0))
            length = max(min(int(step["length"]), n[dim] - start), 1)
            new = grid.narrow(dim, start, length)
        elif op == "use":  # the same Grid object, only used (read-only calls above)
            new = grid
        elif op == "clone":
            new = grid.clone()
        elif op == "copy":
            new = copy.copy(grid)
        elif op == "deepcopy":
            new = copy.deepcopy(grid)
        elif op == "pickle":
            new = pickle.loads(pickle.dumps(grid))
        else:
            raise ValueError(op)
        if new is not grid:
            assert_grid_intact(grid, state, f"Grid.{op}() (derivation of a new grid)")
        if not fractional and not bool(torch.equal(new._size, new._size.round())):
            raise Skip("derived grid has a fractional internal size")
        if any(int(v) < min_size for v in new.size()):
            raise Skip("derived grid too small")
        applied.append(op)
        grid = new
    if fractional and bool(torch.equal(grid._size, grid._size.round())):
        # requested: a grid whose internal size is fractional - halve the axes with an odd number (>= 3) of samples
        odd = [i for i, a in enumerate(int(v) for v in grid.size()) if a % 2 == 1 and a >= max(3, 2 * min_size - 1)]
        if odd:
            state = grid_state(grid)
            new = grid.downsample(1, dims=odd)
            assert_grid_intact(grid, state, "Grid.downsample() (derivation of a new grid)")
            applied.append("downsample")
            grid = new
    return grid, applied


def model_of_grid(grid) -> "ref.GridModel":
    """Float64 model built from the attributes the Grid object reports (size, spacing, center, direction, flag)."""
    return ref.GridModel([int(v) for v in grid.size()], grid.spacing().double().numpy(), center=grid.center().double().numpy(),
                         direction=grid.direction().double().numpy(), align_corners=bool(grid.align_corners()))
