"""Case descriptors -> deepali / torch objects, and closed-form tensor content."""
from __future__ import annotations

import numpy as np
import torch

from vlib import ref


def tdtype(name: str) -> torch.dtype:
    return {"float32": torch.float32, "float64": torch.float64, "uint8": torch.uint8, "int16": torch.int16,
            "int32": torch.int32, "int64": torch.int64, "bool": torch.bool}[name]


def make_grid(g: dict, route: str = "center"):
    """Build a deepali Grid from a grid descriptor (see vlib.gen.grids)."""
    from deepali.core import Grid

    R = ref.direction_matrix(g["rot"], g.get("perm"), g.get("flip"))
    kw = dict(size=list(g["size"]), spacing=list(g["spacing"]), direction=torch.tensor(R, dtype=torch.float64),
              align_corners=bool(g.get("ac", True)))
    if route == "origin" or "origin" in g:
        m = ref.GridModel.from_desc(g)
        kw["origin"] = [float(v) for v in m.o]
    else:
        kw["center"] = list(g.get("center", [0.0] * len(g["size"])))
    return Grid(**kw)


def axes_of(name: str):
    from deepali.core import Axes

    return Axes(name)


def hash_noise(shape, key: int = 0, lo: float = 0.0, hi: float = 1.0) -> np.ndarray:
    """Deterministic 'arbitrary content': counter-based integer hash mapped to [lo, hi)."""
    n = int(np.prod(shape)) if len(shape) else 1
    i = np.arange(n, dtype=np.uint64)
    x = (i + np.uint64(key) * np.uint64(0x9E3779B97F4A7C15)) & np.uint64(0xFFFFFFFFFFFFFFFF)
    x ^= x >> np.uint64(33)
    x = (x * np.uint64(0xFF51AFD7ED558CCD)) & np.uint64(0xFFFFFFFFFFFFFFFF)
    x ^= x >> np.uint64(33)
    x = (x * np.uint64(0xC4CEB9FE1A85EC53)) & np.uint64(0xFFFFFFFFFFFFFFFF)
    x ^= x >> np.uint64(33)
    u = (x >> np.uint64(11)).astype(np.float64) / float(1 << 53)
    return (lo + (hi - lo) * u).reshape(shape)


def smooth_field(shape, waves, amp: float, phase: float = 0.0) -> np.ndarray:
    """Product of sines vanishing at the boundary of the index box; shape (..., X), waves per axis."""
    D = len(shape)
    out = np.ones(shape, dtype=np.float64) * amp
    for ax in range(D):
        n = shape[ax]
        t = np.arange(n, dtype=np.float64) / max(n - 1, 1)
        s = np.sin(np.pi * waves[ax] * t + 0.0)
        sh = [1] * D
        sh[ax] = n
        out = out * s.reshape(sh)
    return out


def grid_state(grid):
    """Snapshot of every attribute of a deepali Grid (incl. the fractional internal size and the flag)."""
    return (grid._size.clone(), grid.spacing().clone(), grid.center().clone(), grid.direction().clone(), bool(grid.align_corners()))


def assert_grid_intact(grid, state, what: str = "grid"):
    """The Grid object must be exactly as it was when `state` was taken (no API call on it may modify it)."""
    from vlib.core import Violation

    now = grid_state(grid)
    names = ("size", "spacing", "center", "direction", "align_corners")
    for n, a, b in zip(names, state, now):
        same = (a == b) if isinstance(a, bool) else (a.shape == b.shape and bool(torch.equal(a, b)))
        if not same:
            raise Violation("grid_object_modified:" + n, f"{what}: attribute '{n}' of the Grid object changed from {a} to {b} during read-only calls")
