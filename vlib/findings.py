"""known_findings.json: genuine defects that are recorded rather than repaired.

The file is committed and never written at run time.  Entry formats:

  {"status": "known", "property": "C19", "id": "K1", "what": "...",
   "facet": "programs" | ["a", "b"] | "*",
   "signature": "<regex, full match against Violation.kind>",
   "witness": "regressions/C19/K1-flip.json"}

  {"status": "fixed", "property": "C08", "id": "F1", "commit": "<sha>", "what": "...",
   "line": "fixed: property=C08 <sha> <what failed>",
   "regression": ["regressions/C08/F1-....json", ...]}

A `known` entry suppresses exactly the violations whose (facet, kind) it matches - any other
violation of the same property is still reported.  A `fixed` entry suppresses nothing: its
regression cases are replayed on every run and fail the check if the defect returns.
"""
from __future__ import annotations

import json
import os
import re
from typing import Dict, List, Optional

ROOT = os.path.dirname(os.path.dirname(os.path.abspath(__file__)))
PATH = os.path.join(ROOT, "known_findings.json")


def load_all() -> List[dict]:
    if not os.path.exists(PATH):
        return []
    with open(PATH) as f:
        return json.load(f).get("entries", [])


class Known:
    def __init__(self, prop: str):
        self.prop = prop
        self.entries = [e for e in load_all() if e.get("property") == prop and e.get("status") == "known"]
        self.fixed = [e for e in load_all() if e.get("property") == prop and e.get("status") == "fixed"]

    def active(self, fid: str) -> bool:
        """Is finding `fid` listed as known (so the generator may route around it)?"""
        return any(e["id"] == fid for e in self.entries)

    def match(self, facet: str, kind: str) -> Optional[str]:
        for e in self.entries:
            f = e.get("facet", "*")
            if f != "*" and facet != f and not (isinstance(f, list) and facet in f):
                continue
            if re.fullmatch(e["signature"], kind):
                return e["id"]
        return None

    def by_id(self, fid: str) -> Optional[dict]:
        for e in self.entries:
            if e["id"] == fid:
                return e
        return None
