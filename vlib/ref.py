"""Independent float64 reference models. This module must not import deepali.

Written from the documentation (README, docstrings) and the property statements:

* grid model: index -> world  x = o + R diag(s) i,  o = c - R diag(s) (n-1)/2
              index -> cube_corners  2 i/(n-1) - 1      (align_corners=True)
              index -> cube          (2 i + 1)/n - 1    (align_corners=False)
* elementary rotations, Euler products, quaternion / axis-angle formulas
* homogeneous composition
* multilinear / nearest interpolation with zeros / border / constant padding
* affine scaling-and-squaring closed form, matrix exponential
* cubic B-spline basis and derivatives
"""
from __future__ import annotations

import itertools
import math
from typing import Optional, Sequence, Tuple

import numpy as np

AXES = ("grid", "cube", "cube_corners", "world")


# --------------------------------------------------------------------------------------
# rotations


def rot2(a: float) -> np.ndarray:
    c, s = math.cos(a), math.sin(a)
    return np.array([[c, -s], [s, c]], dtype=np.float64)


def rotx(a: float) -> np.ndarray:
    c, s = math.cos(a), math.sin(a)
    return np.array([[1, 0, 0], [0, c, -s], [0, s, c]], dtype=np.float64)


def roty(a: float) -> np.ndarray:
    c, s = math.cos(a), math.sin(a)
    return np.array([[c, 0, s], [0, 1, 0], [-s, 0, c]], dtype=np.float64)


def rotz(a: float) -> np.ndarray:
    c, s = math.cos(a), math.sin(a)
    return np.array([[c, -s, 0], [s, c, 0], [0, 0, 1]], dtype=np.float64)


ELEMENTARY = {"x": rotx, "y": roty, "z": rotz}


def euler_matrix(angles: Sequence[float], order: str) -> np.ndarray:
    """Product of elementary rotations in the stated order: first angle = left-most factor."""
    order = order.lower()
    m = np.eye(3)
    for a, ax in zip(angles, order):
        m = m @ ELEMENTARY[ax](a)
    return m


def signed_permutation(perm: Sequence[int], flip: Sequence[int]) -> np.ndarray:
    d = len(perm)
    p = np.zeros((d, d))
    for col, row in enumerate(perm):
        p[row, col] = flip[col]
    return p


def direction_matrix(rot: Sequence[float], perm: Optional[Sequence[int]] = None, flip: Optional[Sequence[int]] = None) -> np.ndarray:
    """Direction cosines of a grid descriptor: R(angles) @ signed permutation."""
    d = 2 if len(rot) == 1 else 3
    r = rot2(rot[0]) if d == 2 else euler_matrix(rot, "zyx")
    if perm is None:
        perm = list(range(d))
    if flip is None:
        flip = [1] * d
    return r @ signed_permutation(perm, flip)


def quaternion_matrix(q: Sequence[float]) -> np.ndarray:
    """(w, x, y, z) unit quaternion -> rotation matrix."""
    w, x, y, z = [float(v) for v in q]
    n = math.sqrt(w * w + x * x + y * y + z * z)
    w, x, y, z = w / n, x / n, y / n, z / n
    return np.array([
        [1 - 2 * (y * y + z * z), 2 * (x * y - z * w), 2 * (x * z + y * w)],
        [2 * (x * y + z * w), 1 - 2 * (x * x + z * z), 2 * (y * z - x * w)],
        [2 * (x * z - y * w), 2 * (y * z + x * w), 1 - 2 * (x * x + y * y)],
    ])


def axis_angle_matrix(v: Sequence[float]) -> np.ndarray:
    """Rodrigues formula for rotation vector v (direction = axis, norm = angle)."""
    v = np.asarray(v, dtype=np.float64)
    th = float(np.linalg.norm(v))
    if th < 1e-300:
        return np.eye(3)
    k = v / th
    K = np.array([[0, -k[2], k[1]], [k[2], 0, -k[0]], [-k[1], k[0], 0]])
    return np.eye(3) + math.sin(th) * K + (1 - math.cos(th)) * (K @ K)


# --------------------------------------------------------------------------------------
# grid model


class GridModel:
    """Float64 model of an oriented sampling grid built from a descriptor dict."""

    def __init__(self, size, spacing, center=None, direction=None, origin=None, align_corners=True):
        self.n = np.asarray(size, dtype=np.float64)
        self.D = len(self.n)
        self.s = np.asarray(spacing, dtype=np.float64) * np.ones(self.D)
        self.R = np.eye(self.D) if direction is None else np.asarray(direction, dtype=np.float64).reshape(self.D, self.D)
        self.A = self.R @ np.diag(self.s)
        half = np.where(self.n > 0, self.n - 1, self.n) / 2
        if origin is not None:
            self.o = np.asarray(origin, dtype=np.float64) * np.ones(self.D)
            self.c = self.o + self.A @ half
        else:
            self.c = (np.zeros(self.D) if center is None else np.asarray(center, dtype=np.float64) * np.ones(self.D))
            self.o = self.c - self.A @ half
        self.ac = bool(align_corners)

    @classmethod
    def from_desc(cls, g: dict) -> "GridModel":
        R = direction_matrix(g["rot"], g.get("perm"), g.get("flip"))
        return cls(g["size"], g["spacing"], center=g.get("center"), direction=R, origin=g.get("origin"),
                   align_corners=g.get("ac", True))

    # (D, D+1) matrix mapping homogeneous coordinates w.r.t. `a` to coordinates w.r.t. `b`
    def to_index(self, a: str) -> np.ndarray:
        D, n = self.D, self.n
        if a == "grid":
            L, t = np.eye(D), np.zeros(D)
        elif a == "cube_corners":
            L, t = np.diag((n - 1) / 2), (n - 1) / 2
        elif a == "cube":
            L, t = np.diag(n / 2), (n - 1) / 2
        elif a == "world":
            Ai = np.diag(1 / self.s) @ self.R.T
            L, t = Ai, -Ai @ self.o
        else:
            raise ValueError(a)
        return hom(L, t)

    def from_index(self, b: str) -> np.ndarray:
        return hinv(self.to_index(b))

    def matrix(self, a: str, b: str, to: Optional["GridModel"] = None) -> np.ndarray:
        to = self if to is None else to
        if to is self:
            return hmul(self.from_index(b), self.to_index(a))
        return hmul(to.from_index(b), to.to_index("world"), self.from_index("world"), self.to_index(a))

    def points(self, p, a: str, b: str, to: Optional["GridModel"] = None) -> np.ndarray:
        return happly(self.matrix(a, b, to), np.asarray(p, dtype=np.float64))

    def vectors(self, v, a: str, b: str, to: Optional["GridModel"] = None) -> np.ndarray:
        M = self.matrix(a, b, to)[: self.D, : self.D]
        return np.asarray(v, dtype=np.float64) @ M.T

    def cond(self, a: str, b: str, p=None) -> float:
        """Magnitude against which eps is scaled when mapping a -> b (see DESIGN section 3)."""
        ext = float(np.abs(self.s * np.maximum(self.n, 1)).sum())
        pm = float(np.abs(p).max()) if p is not None and np.size(p) else 0.0
        w = float(np.abs(self.c).max()) + ext
        if a == "world":
            w = max(w, pm)
        elif p is not None and np.size(p):
            w = max(w, float(np.abs(self.points(p, a, "world")).max()))
        if b == "world":
            return max(1.0, w)
        if b == "grid":
            return max(1.0, w / float(self.s.min()) + float(self.n.max()))
        # cube axes: index units scaled by 2/n
        nmin = max(1.0, float(np.where(self.n > 1, self.n - 1, 1).min()))
        return max(1.0, (w / float(self.s.min()) + float(self.n.max())) * 2.0 / nmin)

    def index_points(self) -> np.ndarray:
        """All integer indices, shape (..., X, D) with (x, ...) component order."""
        sz = [int(v) for v in self.n]
        axes = [np.arange(k, dtype=np.float64) for k in sz[::-1]]  # order (..., X)
        mesh = np.meshgrid(*axes, indexing="ij")
        return np.stack(mesh[::-1], axis=-1)

    def world_points(self) -> np.ndarray:
        return self.points(self.index_points(), "grid", "world")


def hom(L: np.ndarray, t: np.ndarray) -> np.ndarray:
    D = L.shape[0]
    m = np.zeros((D, D + 1))
    m[:, :D] = L
    m[:, D] = t
    return m


def hfull(m: np.ndarray) -> np.ndarray:
    D = m.shape[0]
    f = np.eye(D + 1)
    f[:D, :] = m[:D, :]
    return f


def hmul(*ms: np.ndarray) -> np.ndarray:
    """Homogeneous product: hmul(a, b) applies b first, then a."""
    f = hfull(ms[0])
    for m in ms[1:]:
        f = f @ hfull(m)
    return f[:-1, :]


def hinv(m: np.ndarray) -> np.ndarray:
    D = m.shape[0]
    Li = np.linalg.inv(m[:, :D])
    return hom(Li, -Li @ m[:, D])


def happly(m: np.ndarray, p: np.ndarray) -> np.ndarray:
    D = m.shape[0]
    return p @ m[:, :D].T + m[:, D]


# --------------------------------------------------------------------------------------
# interpolation (data layout (..., X) for the spatial axes, index points in (x, ...) order)


def interp(data: np.ndarray, idx: np.ndarray, mode: str = "linear", padding="zeros") -> np.ndarray:
    """Sample `data` (spatial shape (..., X), optional leading channel axes handled by caller)
    at continuous indices idx[..., D] given in (x, ...) order.

    padding: "zeros", "border", or a float constant.  Zero/constant padding follows the
    torch.grid_sample definition: out-of-range *neighbours* contribute the padding value.
    """
    D = idx.shape[-1]
    sp = data.shape[-D:]
    lead = data.shape[:-D]
    n = np.array(sp[::-1], dtype=np.int64)  # (x, ...)
    out_shape = idx.shape[:-1]
    pts = idx.reshape(-1, D)
    const = 0.0
    if padding == "border":
        pts = np.clip(pts, 0, n - 1)
    elif padding != "zeros":
        const = float(padding)
    flat = data.reshape((-1,) + sp)
    res = np.zeros((flat.shape[0], pts.shape[0]))
    if mode == "nearest":
        # round half to even, as torch (nearbyint)
        r = np.rint(pts).astype(np.int64)
        ok = np.all((r >= 0) & (r < n), axis=1)
        rc = np.clip(r, 0, n - 1)
        vals = flat[(slice(None),) + tuple(rc[:, D - 1 - k] for k in range(D))]
        res = np.where(ok[None, :], vals, const)
    else:
        f = np.floor(pts)
        w = pts - f
        f = f.astype(np.int64)
        for corner in itertools.product((0, 1), repeat=D):
            c = np.array(corner)
            ii = f + c
            ww = np.prod(np.where(c == 1, w, 1 - w), axis=1)
            ok = np.all((ii >= 0) & (ii < n), axis=1)
            ic = np.clip(ii, 0, n - 1)
            vals = flat[(slice(None),) + tuple(ic[:, D - 1 - k] for k in range(D))]
            res = res + ww[None, :] * np.where(ok[None, :], vals, const)
    return res.reshape(lead + out_shape)


# --------------------------------------------------------------------------------------
# scaling and squaring


def sas_power(H: np.ndarray, steps: int, scale: float = 1.0) -> np.ndarray:
    """(I + scale*H/2^k)^(2^k) for the D x (D+1) generator H (homogeneous (D+1)x(D+1) result)."""
    D = H.shape[0]
    A = np.eye(D + 1)
    A[:D, :] += scale * H / (2.0 ** steps)
    return np.linalg.matrix_power(A, 2 ** steps)


def expm_h(H: np.ndarray, scale: float = 1.0) -> np.ndarray:
    from scipy.linalg import expm

    D = H.shape[0]
    G = np.zeros((D + 1, D + 1))
    G[:D, :] = scale * H
    return expm(G)


# --------------------------------------------------------------------------------------
# cubic B-spline


def bspline_basis(t: float, derivative: int = 0) -> np.ndarray:
    """Values of the 4 cubic B-spline basis functions B_{-1..2} at offset t in [0,1)."""
    if derivative == 0:
        return np.array([(1 - t) ** 3 / 6, (3 * t ** 3 - 6 * t ** 2 + 4) / 6, (-3 * t ** 3 + 3 * t ** 2 + 3 * t + 1) / 6, t ** 3 / 6])
    if derivative == 1:
        return np.array([-(1 - t) ** 2 / 2, (3 * t ** 2 - 4 * t) / 2, (-3 * t ** 2 + 2 * t + 1) / 2, t ** 2 / 2])
    if derivative == 2:
        return np.array([1 - t, 3 * t - 2, -3 * t + 1, t])
    if derivative == 3:
        return np.array([-1.0, 3.0, -3.0, 1.0])
    return np.zeros(4)


def bspline_eval_1d(coef: np.ndarray, u: np.ndarray, derivative: int = 0, axis: int = -1) -> np.ndarray:
    """Evaluate cubic B-spline with coefficients along `axis` at lattice coordinates u
    (coefficient k sits at lattice coordinate k; support needs floor(u)-1 .. floor(u)+2)."""
    coef = np.moveaxis(np.asarray(coef, dtype=np.float64), axis, -1)
    k = np.floor(u).astype(np.int64)
    t = u - k
    out = np.zeros(coef.shape[:-1] + (len(u),))
    for j, (kk, tt) in enumerate(zip(k, t)):
        w = bspline_basis(float(tt), derivative)
        out[..., j] = sum(w[m] * coef[..., kk - 1 + m] for m in range(4))
    return np.moveaxis(out, -1, axis)
