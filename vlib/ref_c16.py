"""Float64 numpy reference models for C16 (image similarity / overlap losses).

Written from the docstrings of deepali.losses.functional and the property statement; imports
nothing from deepali or torch.  Arrays are (N, C, ..., X); masks broadcast against them.
"""
from __future__ import annotations

import numpy as np

# ---------------------------------------------------------------------------------------
# pointwise losses


def pointwise(name: str, x: np.ndarray, y: np.ndarray, param: float = 1.0) -> np.ndarray:
    """Per-element loss values (no mask, no reduction)."""
    d = np.abs(np.asarray(x, np.float64) - np.asarray(y, np.float64))
    if name in ("mse", "ssd"):
        return d * d
    if name in ("mae", "l1"):
        return d
    if name == "huber":  # delta-scaled L1 beyond delta
        return np.where(d <= param, 0.5 * d * d, param * (d - 0.5 * param))
    if name == "smooth_l1":
        if param == 0:
            return d
        return np.where(d < param, 0.5 * d * d / param, d - 0.5 * param)
    raise ValueError(name)


def reduce_masked(loss: np.ndarray, mask, reduction: str, norm=None):
    """Documented mask semantics: 'none' = loss*m, 'sum' = sum(loss*m), 'mean' = sum(loss*m)/sum(m),
    m broadcast to the shape of loss; then divided by a positive norm."""
    if mask is None:
        lm = loss
        denom = loss.size
    else:
        m = np.broadcast_to(np.asarray(mask, np.float64), loss.shape)
        lm = loss * m
        denom = m.sum()
    if reduction == "none":
        out = lm
    elif reduction == "sum":
        out = lm.sum()
    elif reduction == "mean":
        out = lm.sum() / denom
    else:
        raise ValueError(reduction)
    if norm is not None and norm > 0:
        out = out / norm
    return out


def max_difference_sq(s: np.ndarray, t: np.ndarray) -> float:
    """Square of the maximum possible intensity difference (normalisation of images to [0, 1])."""
    return float(max(abs(s.max() - t.min()), abs(t.max() - s.min())) ** 2)


# ---------------------------------------------------------------------------------------
# correlation losses


def ncc(x: np.ndarray, y: np.ndarray, eps: float = 1e-15):
    """Global squared normalised cross correlation per batch item.

    Returns (loss (N,), B (N,), C (N,), n) with loss = 1 - A^2 / (B C + eps)."""
    N = x.shape[0]
    s = x.reshape(N, -1).astype(np.float64)
    t = y.reshape(N, -1).astype(np.float64)
    xs = s - s.mean(1, keepdims=True)
    ys = t - t.mean(1, keepdims=True)
    A = (xs * ys).sum(1)
    B = (xs * xs).sum(1)
    C = (ys * ys).sum(1)
    return 1.0 - A * A / (B * C + eps), B, C, s.shape[1]


def kernel_tuple(k, D: int):
    return (int(k),) * D if np.isscalar(k) else tuple(int(v) for v in k)


def box_sum(a: np.ndarray, k) -> np.ndarray:
    """Sum over the centred rectangular window (odd sizes k per spatial axis), zero outside the image."""
    D = a.ndim - 2
    k = kernel_tuple(k, D)
    out = np.asarray(a, np.float64)
    for ax in range(D):
        r = k[ax] // 2
        n = out.shape[2 + ax]
        pad = [(0, 0)] * out.ndim
        pad[2 + ax] = (r, r)
        p = np.pad(out, pad)
        acc = np.zeros_like(out)
        for o in range(k[ax]):
            sl = [slice(None)] * out.ndim
            sl[2 + ax] = slice(o, o + n)
            acc = acc + p[tuple(sl)]
        out = acc
    return out


def lcc(x: np.ndarray, y: np.ndarray, k, eps: float = 1e-15):
    """Local normalised cross correlation (plain window means over the in-image part of each window).

    Returns (loss, B, C, nw) arrays of the input shape."""
    x = np.asarray(x, np.float64)
    y = np.asarray(y, np.float64)
    nw = box_sum(np.ones_like(x), k)
    xs = x - box_sum(x, k) / nw
    ys = y - box_sum(y, k) / nw
    A = box_sum(xs * ys, k)
    B = box_sum(xs * xs, k)
    C = box_sum(ys * ys, k)
    return 1.0 - A * A / (B * C + eps), B, C, nw


def wlcc(x: np.ndarray, y: np.ndarray, k, eps: float = 1e-15, mask=None, source_mask=None, target_mask=None):
    """Weighted local normalised cross correlation as described by the wlcc_loss docstring.

    Returns (loss_before_mask_weighting, B, C, nw, mask_used_for_aggregation or None, undefined) where `undefined`
    marks windows containing a contributing sample whose weighted local mean has no support (sum of weights 0:
    the mean is 0/epsilon there, the centred value is not defined and nothing can be asserted)."""
    x = np.asarray(x, np.float64)
    y = np.asarray(y, np.float64)
    f = (lambda m: None if m is None else np.broadcast_to(np.asarray(m, np.float64), x.shape))
    mask, source_mask, target_mask = f(mask), f(source_mask), f(target_mask)
    if mask is not None and source_mask is None and target_mask is None:
        source_mask = target_mask = mask
    nw = box_sum(np.ones_like(x), k)

    def wmean(d, w):
        if w is None:
            return box_sum(d, k) / nw
        return box_sum(d * w, k) / (box_sum(w, k) + eps)

    xs = x - wmean(x, source_mask)
    ys = y - wmean(y, target_mask)
    nosup = np.zeros(x.shape, bool)
    for w in (source_mask, target_mask):
        if w is not None:
            nosup |= box_sum(w, k) == 0
    if mask is None and source_mask is not None and target_mask is not None:
        mask = source_mask * target_mask
    if mask is not None:
        xs = xs * mask
        ys = ys * mask
        nosup &= mask != 0
    undefined = box_sum(nosup.astype(np.float64), k) > 0
    A = box_sum(xs * ys, k)
    B = box_sum(xs * xs, k)
    C = box_sum(ys * ys, k)
    return 1.0 - A * A / (B * C + eps), B, C, nw, mask, undefined


# ---------------------------------------------------------------------------------------
# overlap


def _dot(a, b, w=None):
    c = np.asarray(a, np.float64) * np.asarray(b, np.float64)
    if w is not None:
        c = c * np.broadcast_to(np.asarray(w, np.float64), c.shape)
    return c.reshape(c.shape[0], c.shape[1], -1).sum(2)


def dice_binary(a, b, w=None, eps: float = 1e-15):
    """Dice coefficient 2|A n B| / (|A| + |B|) of binary maps per (N, C); weights multiply voxel counts."""
    return (2 * _dot(a, b, w) + eps) / (_dot(a, a, w) + _dot(b, b, w) + eps)


def tversky_binary(a, b, w=None, alpha: float = 0.5, beta: float = 0.5, eps: float = 1e-15):
    """Tversky index TP / (TP + alpha FP + beta FN) per (N, C) for prediction a and target b."""
    a = np.asarray(a, np.float64)
    b = np.asarray(b, np.float64)
    tp = _dot(a, b, w)
    fp = _dot(a, 1 - b, w)
    fn = _dot(1 - a, b, w)
    return (tp + eps) / (tp + alpha * fp + beta * fn + eps)


def reduce_plain(v: np.ndarray, reduction: str):
    return v if reduction == "none" else (v.mean() if reduction == "mean" else v.sum())


# ---------------------------------------------------------------------------------------
# mutual information (Parzen-window estimate with Gaussian kernel, Thevenaz & Unser 2000 / Qiu et al. 2021)


def mi(x, y, vmin=None, vmax=None, num_bins: int = 64, normalized: bool = False, centers=None):
    """Parzen-window (normalised) mutual information loss of single-channel images (N, 1, ..., X).

    Bin centres: `num_bins` equally spaced values from vmin to vmax (both included); Gaussian window whose full width at
    half maximum is one bin width (vmax - vmin) / num_bins.  vmin / vmax default to the joint intensity range of the
    pair.  The 1e-5 regularisers of the estimator (normalisation of the joint histogram, argument of the logarithms)
    are part of the model.  Returns dict(loss, Hx, Hy, Hxy (N,), S (N,) = sum of p (|log(p + 1e-5)| + 1) over the three
    distributions (first-order sensitivity of the entropies to relative perturbations of p), sigma, vmin, vmax,
    mass (N,) = joint histogram mass before normalisation)."""
    x = np.asarray(x, np.float64)
    y = np.asarray(y, np.float64)
    N = x.shape[0]
    s = x.reshape(N, -1)
    t = y.reshape(N, -1)
    vmin = float(min(s.min(), t.min())) if vmin is None else float(vmin)
    vmax = float(max(s.max(), t.max())) if vmax is None else float(vmax)
    width = (vmax - vmin) / num_bins
    sigma = width / (2.0 * np.sqrt(2.0 * np.log(2.0)))
    c = np.linspace(vmin, vmax, num_bins) if centers is None else np.asarray(centers, np.float64)
    amp = sigma / np.sqrt(2.0 * np.pi)

    def window(v):  # (N, bins, n)
        return amp * np.exp(-((v[:, None, :] - c[None, :, None]) ** 2) / (2.0 * sigma ** 2))

    ws, wt = window(s), window(t)
    joint = np.einsum("nik,njk->nij", ws, wt)
    mass = joint.reshape(N, -1).sum(1)
    pj = joint / (mass + 1e-5)[:, None, None]
    px = pj.sum(2)
    py = pj.sum(1)

    def ent(p):
        p = p.reshape(N, -1)
        return -(p * np.log(p + 1e-5)).sum(1), (p * (np.abs(np.log(p + 1e-5)) + 1.0)).sum(1)

    (Hx, Sx), (Hy, Sy), (Hxy, Sxy) = ent(px), ent(py), ent(pj)
    with np.errstate(divide="ignore", invalid="ignore"):
        loss = 2.0 - np.mean((Hx + Hy) / Hxy) if normalized else -np.mean(Hx + Hy - Hxy)
    return {"loss": float(loss), "Hx": Hx, "Hy": Hy, "Hxy": Hxy, "Sx": Sx, "Sy": Sy, "Sxy": Sxy, "sigma": sigma,
            "vmin": vmin, "vmax": vmax, "mass": mass}


# ---------------------------------------------------------------------------------------
# self-test of the reference models (closed-form cases)


def selftest():
    rng = np.random.RandomState(0)  # fixed numbers only for the self-test of the model
    x = rng.rand(2, 2, 5, 6)
    y = rng.rand(2, 2, 5, 6)
    # box_sum against a direct double loop
    k = (3, 5)
    bs = box_sum(x, k)
    for (i, j) in ((0, 0), (2, 3), (4, 5)):
        lo_i, hi_i = max(0, i - 1), min(5, i + 2)
        lo_j, hi_j = max(0, j - 2), min(6, j + 3)
        assert abs(bs[1, 0, i, j] - x[1, 0, lo_i:hi_i, lo_j:hi_j].sum()) < 1e-12
    # correlation of exactly linearly related images is 1 -> loss 0; invariance; range
    l, B, C, n = ncc(x, 3 * x - 2)
    assert np.abs(l).max() < 1e-12
    l1 = ncc(x, y)[0]
    l2 = ncc(-2.5 * x + 7, y)[0]
    assert np.abs(l1 - l2).max() < 1e-12 and (l1 >= 0).all() and (l1 <= 1).all()
    ll = lcc(x, y, 3)[0]
    assert np.abs(ll - lcc(y, x, 3)[0]).max() < 1e-12 and ll.min() >= -1e-12 and ll.max() <= 1 + 1e-12
    assert np.abs(lcc(x, 2 * x + 1, (3, 3))[0]).max() < 1e-9
    assert np.abs(ll - lcc(4 * x - 1, y, 3)[0]).max() < 1e-9
    # wlcc without masks / with all-ones mask is lcc
    assert np.abs(wlcc(x, y, 3)[0] - ll).max() < 1e-12
    assert np.abs(wlcc(x, y, 3, mask=np.ones((1, 1, 5, 6)))[0] - ll).max() < 1e-9
    # pointwise
    assert abs(pointwise("huber", np.array([3.0]), np.array([0.0]), 2.0)[0] - 2 * (3 - 1)) < 1e-15
    assert abs(pointwise("smooth_l1", np.array([0.5]), np.array([0.0]), 2.0)[0] - 0.0625) < 1e-15
    m = (rng.rand(2, 1, 5, 6) > 0.5).astype(float)
    v = reduce_masked(pointwise("mse", x, y), m, "mean")
    mm = np.broadcast_to(m, x.shape).astype(bool)
    assert abs(v - ((x - y) ** 2)[mm].mean()) < 1e-12
    # overlap
    a = (x > 0.5).astype(float)
    b = (y > 0.5).astype(float)
    assert np.abs(dice_binary(a, a) - 1).max() < 1e-12
    assert np.abs(tversky_binary(a, b) - dice_binary(a, b)).max() < 1e-12
    assert np.abs(tversky_binary(a, b, alpha=0.3, beta=0.7) - tversky_binary(b, a, alpha=0.7, beta=0.3)).max() < 1e-12
    # mutual information: symmetric; identical two-level images carry log(2) of information (well separated levels,
    # windows much narrower than the level distance); independent halves carry none
    a = np.zeros((1, 1, 4, 4))
    a[..., 2:, :] = 1.0
    b = np.zeros((1, 1, 4, 4))
    b[..., :, 2:] = 1.0
    r = mi(a, a, 0.0, 1.0, 32)
    assert abs(r["loss"] + np.log(2.0)) < 2e-2, r["loss"]
    assert abs(mi(a, b, 0.0, 1.0, 32)["loss"]) < 2e-2
    assert abs(mi(a, 1 - a, 0.0, 1.0, 32)["loss"] - r["loss"]) < 1e-12
    q = mi(x[:, :1], y[:, :1], num_bins=16)
    assert abs(q["loss"] - mi(y[:, :1], x[:, :1], num_bins=16)["loss"]) < 1e-12
    assert q["vmin"] == min(x[:, :1].min(), y[:, :1].min()) and q["vmax"] == max(x[:, :1].max(), y[:, :1].max())
    n1 = mi(a, a, 0.0, 1.0, 32, normalized=True)["loss"]
    n0 = mi(a, b, 0.0, 1.0, 32, normalized=True)["loss"]
    # independent halves: Hxy = Hx + Hy -> 1; identical images: below that (the window blur keeps it above 0)
    assert abs(n0 - 1.0) < 5e-2 and 0.0 <= n1 < n0 - 0.5, (n1, n0)
    # scale equivariance: a common affine intensity map with the range mapped along leaves the value unchanged up to
    # the absolute 1e-5 regulariser of the histogram mass (large masses: negligible)
    big = 1000.0
    q1 = mi(big * x[:, :1], big * y[:, :1], num_bins=16)["loss"]
    q2 = mi(big * (3 * x[:, :1] + 1), big * (3 * y[:, :1] + 1), num_bins=16)["loss"]
    assert abs(q1 - q2) < 1e-6, (q1, q2)
