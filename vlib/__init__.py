"""Verification framework for BioMedIA/deepali (property-based testing with Hypothesis).

Modules
-------
core      Facet / Violation / Skip definitions shared by property modules.
runner    Facet execution (collect mode), sharding, evidence, replay, exit codes.
findings  known_findings.json handling (KNOWN-FINDING / VIOLATION decisions).
ref       Independent float64 numpy reference models (imports nothing from deepali).
gen       Hypothesis strategies producing JSON-serialisable case descriptors.
case      Case descriptors -> deepali objects.
"""
