"""Facet, Violation, Skip: the vocabulary shared by the runner and the property modules."""
from __future__ import annotations

import dataclasses
import hashlib
import json
import math
from typing import Any, Callable, Dict, Iterable, List, Optional


class Violation(Exception):
    """The property does not hold for this case.

    kind: stable short identifier of *what* failed (used for bucketing and for matching
          entries of known_findings.json); keep free of case-specific numbers.
    detail: human readable explanation with the measured numbers.
    """

    def __init__(self, kind: str, detail: str = ""):
        super().__init__(f"{kind}: {detail}")
        self.kind = kind
        self.detail = detail


class Skip(Exception):
    """The generated case is outside the domain of the facet (counted, not evaluated)."""

    def __init__(self, reason: str = "skip"):
        super().__init__(reason)
        self.reason = reason


class HarnessError(Exception):
    """Something is wrong with the machinery itself (exit code 2, never a VIOLATION)."""


@dataclasses.dataclass
class Facet:
    """One executable statement of (part of) a property.

    strategy     Hypothesis strategy (or zero-arg callable returning one) that yields a
                 JSON-serialisable case descriptor (dict).
    run          run(case) evaluates the oracle; raises Violation / Skip; may return a dict
                 with optional keys 'labels' (list[str]), 'ratio' (float: measured error /
                 bound, for calibration evidence) and 'nontrivial' (bool override).
    nontrivial   nontrivial(case) -> bool: the stated rule for a case that counts.
    rule         text of the generator + non-triviality rule for the evidence file.
    quick, thorough   number of generated cases per tier.
    enumerate    optional callable(tier) -> iterable of cases: a finite sub-space that is
                 enumerated completely (in addition to the generated cases).
    exhaustive_tiers  tiers in which `enumerate` covers its finite space completely.
    machine      optional: callable(ctx) -> RuleBasedStateMachine subclass (stateful facet);
                 then `strategy` is unused and `run` replays a recorded step list.
    shards       how many parallel shards to split the thorough budget into.
    """

    name: str
    run: Callable[[dict], Optional[dict]]
    strategy: Any = None
    nontrivial: Callable[[dict], bool] = lambda case: True
    rule: str = ""
    quick: int = 200
    thorough: int = 4000
    labels: Optional[Callable[[dict], List[str]]] = None
    enumerate: Optional[Callable[[str], Iterable[dict]]] = None
    exhaustive_tiers: tuple = ()
    machine: Optional[Callable[[Any], Any]] = None
    quick_steps: int = 20
    thorough_steps: int = 30
    shards: int = 8
    quick_shards: int = 1


def canonical(case: Any) -> str:
    return json.dumps(case, sort_keys=True, separators=(",", ":"), default=_json_default)


def case_hash(case: Any) -> str:
    return hashlib.sha1(canonical(case).encode()).hexdigest()


def _json_default(o):
    try:
        import numpy as np

        if isinstance(o, np.generic):
            return o.item()
        if isinstance(o, np.ndarray):
            return o.tolist()
    except Exception:  # pragma: no cover
        pass
    if isinstance(o, (set, frozenset, tuple)):
        return list(o)
    raise TypeError(f"not JSON serialisable: {type(o)}")


def check_close(actual, expected, bound: float, kind: str, what: str = "", rel_to: float = 0.0) -> float:
    """Raise Violation(kind) if max|actual - expected| > bound. Returns err/bound ratio.

    Both arguments are converted to float64 numpy arrays. NaN/inf in `actual` where
    `expected` is finite is always a violation.
    """
    import numpy as np

    a = _np(actual)
    e = _np(expected)
    if a.shape != e.shape:
        try:
            a, e = np.broadcast_arrays(a, e)
        except ValueError:
            raise Violation(kind + ":shape", f"{what}: shape {a.shape} != expected {e.shape}")
    if a.size == 0:
        return 0.0
    bad = ~np.isfinite(a) & np.isfinite(e)
    if bad.any():
        raise Violation(kind + ":nonfinite", f"{what}: non-finite result where {e[bad].ravel()[:3]} expected")
    both = np.isfinite(a) & np.isfinite(e)
    if not both.any():
        return 0.0
    err = float(np.abs(a[both] - e[both]).max())
    b = float(bound)
    if not (err <= b):
        idx = int(np.argmax(np.where(both, np.abs(a - e), -1.0)))
        raise Violation(
            kind,
            f"{what}: max|delta|={err:.6g} > bound {b:.3g} (actual {a.ravel()[idx]:.9g}, expected {e.ravel()[idx]:.9g}, flat index {idx})",
        )
    return err / b if b > 0 else 0.0


def _np(x):
    import numpy as np

    try:
        import torch

        if isinstance(x, torch.Tensor):
            return x.detach().to("cpu").double().numpy()
    except Exception:  # pragma: no cover
        pass
    return np.asarray(x, dtype=np.float64)


EPS32 = 2.0 ** -23
EPS64 = 2.0 ** -52


def eps_of(dtype) -> float:
    s = str(dtype)
    return EPS64 if "64" in s else EPS32


def isfinite_num(x) -> bool:
    return isinstance(x, (int, float)) and math.isfinite(x)
