import torch, warnings, tempfile, os, math
warnings.filterwarnings("ignore")
from deepali.core import Grid, Axes
from deepali.data import Image, FlowField
import SimpleITK as sitk
def tryit(label, f):
    try:
        r = f(); print("OK ", label, "->", r)
    except Exception as e:
        print("ERR", label, type(e).__name__, str(e)[:200])
th = 0.3
d2 = [[math.cos(th), -math.sin(th)],[math.sin(th), math.cos(th)]]
g2 = Grid(size=(6,5), origin=(1.5,-2.0), spacing=(0.5,2.0), direction=d2)
g3 = Grid(size=(6,5,4), origin=(1.5,-2.0,3.0), spacing=(0.5,2.0,1.5))
tmp = tempfile.mkdtemp(dir="/tmp/exp")
def rt(grid, C, dtype, ext):
    data = (torch.rand((C,)+tuple(grid.shape))*100).to(dtype)
    im = Image(data, grid)
    p = os.path.join(tmp, f"x{ext}")
    im.write(p)
    im2 = Image.read(p)
    ok_data = im2.shape == im.shape and im2.dtype == im.dtype and torch.equal(im2.tensor(), im.tensor())
    ok_grid = im2.grid() == grid
    s = sitk.ReadImage(p)
    return dict(data=ok_data, grid=ok_grid, shape=tuple(im2.shape), dtype=str(im2.dtype), sitk_size=s.GetSize(), sitk_nc=s.GetNumberOfComponentsPerPixel(), sitk_origin=[round(v,3) for v in s.GetOrigin()])
for ext in [".mha", ".nii.gz", ".nrrd", ".nii", ".mhd"]:
    for (gname, grid) in [("2d", g2), ("3d", g3)]:
        for C in (1, 2, 3):
            for dtype in (torch.float32, torch.uint8, torch.int16):
                tryit(f"{ext} {gname} C={C} {dtype}", lambda: rt(grid, C, dtype, ext))
