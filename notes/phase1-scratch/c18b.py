import torch, warnings, tempfile, os, numpy as np
warnings.filterwarnings("ignore")
from deepali.data import Image, FlowField
import SimpleITK as sitk
tmp = tempfile.mkdtemp(dir="/tmp/exp")
for D in (2,3):
  for C in (1,2,3):
    arr = (np.random.default_rng(0).uniform(0,100,size=((4,5,6)[:D][::-1] if False else tuple([4,5,6][3-D:])) + ((C,) if C>1 else ()))).astype(np.float32)
    img = sitk.GetImageFromArray(arr, isVector=C>1); img.SetSpacing([0.5,2.0,1.5][:D]); img.SetOrigin([1.5,-2.0,3.0][:D])
    for ext in (".nii.gz", ".mha", ".nrrd"):
        p = os.path.join(tmp, "s"+ext); sitk.WriteImage(img, p)
        try:
            im = Image.read(p)
            ref = torch.from_numpy(arr); ref = ref.unsqueeze(0) if C==1 else ref.movedim(-1,0)
            print(D, C, ext, "OK shape", tuple(im.shape), "eq", im.shape==ref.shape and torch.equal(im.tensor(), ref), "origin", [round(v,3) for v in im.grid().origin().tolist()])
        except Exception as e:
            print(D, C, ext, "ERR", type(e).__name__, str(e)[:90])
