import torch, warnings, math, numpy as np, traceback
warnings.filterwarnings("ignore")
from deepali.core import Grid, Axes
from deepali.core import functional as U
import deepali.spatial as S
import deepali.losses.functional as L
torch.manual_seed(0)
def dircheck(f, theta, h=1e-6, nd=2):
    theta = theta.clone().requires_grad_(True)
    out = f(theta)
    w = torch.randn_like(out)
    s = (w*out).sum()
    (g,) = torch.autograd.grad(s, theta, allow_unused=True)
    if g is None: return "NO-GRAD"
    res=[]
    for _ in range(nd):
        d = torch.randn_like(theta); d = d/d.norm()
        with torch.no_grad():
            fd = ((w*f(theta+h*d)).sum() - (w*f(theta-h*d)).sum())/(2*h)
        ad = (g*d).sum()
        res.append((float(ad), float(fd)))
    return res
def report(label, f, theta, h=1e-6):
    try:
        r = dircheck(f, theta, h)
        if isinstance(r,str): print("!! ", label, r); return
        bad = [ (a,b) for a,b in r if abs(a-b) > 1e-4*max(1,abs(a),abs(b)) + (2e-2*max(abs(a),abs(b)) if theta.dtype==torch.float32 else 0)]
        print("OK " if not bad else "BAD", label, ["%.4g/%.4g"%ab for ab in r])
    except Exception as e:
        tb = traceback.extract_tb(e.__traceback__)[-1]
        print("ERR", label, type(e).__name__, str(e)[:100], f"@{tb.filename.split('/')[-1]}:{tb.lineno}")
D=2; g = Grid(size=(7,6), spacing=(0.7,1.3), center=(1,2))
img = torch.rand(1,1,6,7,dtype=torch.float64)
x = (torch.rand(1,5,2,dtype=torch.float64)*1.4-0.7)
report("grid_sample wrt data", lambda d: U.grid_sample(d, x.reshape(1,1,5,2)), img)
report("grid_sample wrt coords", lambda c: U.grid_sample(img, c.reshape(1,1,5,2)), x)
report("sample_image wrt coords", lambda c: U.sample_image(img, c), x)
v = torch.randn(1,2,6,7,dtype=torch.float64)*0.05
report("expv", lambda t: U.expv(t, steps=3), v)
report("compose_flows u", lambda t: U.compose_flows(t, v), v.clone())
report("compose_svfs", lambda t: U.compose_svfs(t, v*2), v.clone())
report("logv", lambda t: U.logv(t, num_iters=2), v.clone())
report("jacobian_det", lambda t: U.jacobian_det(t), v.clone())
report("curl2d", lambda t: U.curl(t), v.clone())
report("divergence", lambda t: U.divergence(t), v.clone())
report("warp_image wrt flow", lambda t: U.warp_image(img, g.coords(dtype=torch.float64).unsqueeze(0), flow=U.move_dim(t,1,-1)), v.clone())
c = torch.randn(1,2,5,5,dtype=torch.float64)
report("evaluate_cubic_bspline", lambda t: U.evaluate_cubic_bspline(t, stride=3, size=(7,6)), c)
report("evaluate_cubic_bspline T", lambda t: U.evaluate_cubic_bspline(t, stride=3, size=(7,6), transpose=True), c)
report("subdivide", lambda t: U.subdivide_cubic_bspline(t), c)
a = torch.tensor([[0.3,0.5,-0.7]],dtype=torch.float64)
for order in ("ZXZ","XYZ","YXZ"):
    report(f"euler {order}", lambda t: U.euler_rotation_matrix(t, order=order), a)
q = torch.tensor([[0.9,0.1,-0.3,0.2]],dtype=torch.float64)
report("quat->R", lambda t: U.quaternion_to_rotation_matrix(t), q)
report("R->quat", lambda t: U.rotation_matrix_to_quaternion(U.quaternion_to_rotation_matrix(t)), q)
report("Grid.transform_points default", lambda t: g.transform_points(t, Axes.WORLD, Axes.CUBE), x*3)
report("Grid.transform_points decimals=None", lambda t: g.transform_points(t, Axes.WORLD, Axes.CUBE, decimals=None), x*3)
# losses (float32 internal)
xs = torch.rand(2,1,8,9,dtype=torch.float64); ys = torch.rand(2,1,8,9,dtype=torch.float64)
for name in ["mse_loss","mae_loss","huber_loss","ncc_loss","lcc_loss","wlcc_loss","mi_loss","nmi_loss","dice_loss"]:
    fn = getattr(L,name)
    report(name+" f64in", lambda t: fn(t, ys).reshape(1), xs, h=1e-3)
u = torch.randn(1,2,8,9,dtype=torch.float64)*0.1
for name in ["bending_loss","curvature_loss","diffusion_loss","divergence_loss","total_variation_loss"]:
    fn = getattr(L,name)
    report(name, lambda t: fn(t).reshape(1), u)
report("elasticity_loss", lambda t: L.elasticity_loss(t, first_parameter=1.0, second_parameter=0.5).reshape(1), u)
# transforms w.r.t. params
for name in ["Translation","EulerRotation","AnisotropicScaling","Shearing","AffineTransform","DisplacementFieldTransform","StationaryVelocityFieldTransform","FreeFormDeformation","StationaryVelocityFreeFormDeformation"]:
    t = getattr(S,name)(g)
    ps = list(t.parameters())
    flat0 = torch.cat([p.detach().flatten() for p in ps]) + 0.05*torch.randn(sum(p.numel() for p in ps))
    xx = x.float()
    def f(theta, t=t, ps=ps):
        # functional call: set params from theta
        i=0
        with torch.no_grad():
            pass
        outs=[]
        # use torch.func.functional_call
        names = [n for n,_ in t.named_parameters()]
        d={}
        for n,p in zip(names,ps):
            d[n]=theta[i:i+p.numel()].reshape(p.shape); i+=p.numel()
        return torch.func.functional_call(t, d, (xx,))
    report("T "+name+" wrt params (f32)", f, flat0.float(), h=1e-2)
