import torch, warnings, math, itertools, numpy as np, collections
warnings.filterwarnings("ignore")
from deepali.core import Grid, Axes
rng = np.random.default_rng(2)
def rand_rot(D):
    A = rng.normal(size=(D,D)); Q,_ = np.linalg.qr(A)
    if np.linalg.det(Q) < 0: Q[:,0] *= -1
    return Q
cnt = collections.Counter(); ex = {}
for it in range(20000):
    D = int(rng.integers(2,4))
    size = rng.integers(8, 70, size=D).tolist()
    spacing = np.exp(rng.uniform(-2, 2, size=D)).tolist()
    center = rng.uniform(-300, 300, size=D).tolist() if rng.integers(2) else rng.uniform(-5, 5, size=D).tolist()
    ac = bool(rng.integers(2))
    g = Grid(size=size, spacing=spacing, center=center, direction=rand_rot(D), align_corners=ac)
    ops = {
      "resize": lambda: g.resize(rng.integers(2, 70, size=D).tolist()),
      "down1": lambda: g.downsample(1),
      "down2": lambda: g.downsample(2),
      "up": lambda: g.upsample(int(rng.integers(1,3))),
      "pyramid2": lambda: g.pyramid(2),
    }
    for name, f in ops.items():
        try:
            f(); cnt[(name,ac,"ok")] += 1
        except Exception as e:
            cnt[(name,ac,type(e).__name__)] += 1; ex.setdefault((name,ac,type(e).__name__), (repr(g), str(e)[:100]))
for k,v in sorted(cnt.items()): print(k, v)
for k,v in ex.items(): print(k, v)
