import torch, warnings, math, numpy as np, collections
warnings.filterwarnings("ignore")
from deepali.core import Grid, Axes
from deepali.core import functional as U
rng = np.random.default_rng(4)
worst = collections.defaultdict(float)
for it in range(400):
    D = int(rng.integers(2,4)); ac = bool(rng.integers(2)); dt = torch.float64 if rng.integers(2) else torch.float32
    shape = rng.integers(2, 9, size=D).tolist()
    g = Grid(shape=shape, align_corners=ac)
    x = g.coords(align_corners=ac, dtype=torch.float64)  # (..., D) normalized (x,y,z)
    # hull half-widths per axis
    h = x.reshape(-1, D).abs().max(0).values.numpy()  # max |x_i| of samples
    h = np.where(h == 0, 1.0, h)
    # generator M (D x D) and t with weighted diag dominance: for each i: M_ii h_i + sum_{j!=i} |M_ij| h_j + |t_i| <= 0  -> v points inward at faces
    M = rng.uniform(-0.5, 0.5, size=(D,D)); t = rng.uniform(-0.2,0.2,size=D)
    for i in range(D):
        off = sum(abs(M[i,j])*h[j] for j in range(D) if j!=i) + abs(t[i])
        M[i,i] = -(off/h[i]) * rng.uniform(1.0, 2.0) - rng.uniform(0, 0.3)
    # also need |step| small enough: I + M/2^k maps hull into itself if 1 + M_ii/2^k >= 0 ... ensure
    steps = int(rng.integers(0, 9)); scale = float(rng.choice([1.0, 0.5, -0.0+1.0]))
    H = np.concatenate([M, t[:,None]], 1)
    Mk = scale*M/2**steps; tk = scale*t/2**steps
    if any(1 + Mk[i,i] < sum(abs(Mk[i,j])*h[j]/h[i] for j in range(D) if j != i) for i in range(D)):
        continue  # A would flip/leave hull
    v = (x @ torch.tensor(M).T + torch.tensor(t))  # (..., D)
    v = v.permute(D, *range(D)).unsqueeze(0).to(dt)  # (1, D, ..., X)
    out = U.expv(v, scale=scale, steps=steps, align_corners=ac)
    A = np.eye(D+1); A[:D,:D] += Mk; A[:D,D] = tk
    P = np.linalg.matrix_power(A, 2**steps)
    ref = x @ torch.tensor(P[:D,:D]-np.eye(D)).T + torch.tensor(P[:D,D])
    ref = ref.permute(D, *range(D)).unsqueeze(0)
    err = (out.double()-ref).abs().max().item()
    worst[(str(dt), ac)] = max(worst[(str(dt),ac)], err)
    inv = U.expv(v, scale=scale, steps=steps, align_corners=ac, inverse=True)
    inv2 = U.expv(-v, scale=scale, steps=steps, align_corners=ac)
    inv3 = U.expv(v, scale=-scale, steps=steps, align_corners=ac)
    worst[("inv", str(dt))] = max(worst[("inv", str(dt))], (inv-inv2).abs().max().item(), (inv-inv3).abs().max().item())
for k,v in worst.items(): print(k, f"{v:.3e}")
