import torch, warnings, math, numpy as np, collections, traceback, copy
warnings.filterwarnings("ignore")
from deepali.core import Grid, Axes
import deepali.spatial as S
def tryit(label, f):
    try:
        r = f(); print("OK ", label, "->", r)
    except Exception as e:
        tb = traceback.extract_tb(e.__traceback__)[-1]
        print("ERR", label, type(e).__name__, str(e)[:120], f"@{tb.filename.split('/')[-1]}:{tb.lineno}")
g = Grid(size=(9,8)); x = torch.rand(1,5,2)*1.6-0.8
# unlink on Parameter-held
t = S.Translation(g); 
with torch.no_grad(): t.params.fill_(0.1)
u = t.unlink()
print("after t.unlink(): t.params =", t.params)
# SVF grid() non-underscore mutating exp.align_corners
t = S.StationaryVelocityFieldTransform(g)
g2 = g.align_corners(False)
t2 = t.grid(g2)
print("SVF t.grid(g2): t.exp.align_corners =", t.exp.align_corners, " t.align_corners()", t.align_corners(), " same exp obj:", t.exp is t2.exp)
# DDF history: call, data_, disp
t = S.DisplacementFieldTransform(g, params=torch.zeros(1,2,8,9))
y0 = t(x)
t.data_(torch.full((1,2,8,9), 0.05))
print("DDF disp after data_ (expect .05):", t.disp().mean().item(), " call:", (t(x)-x).mean().item())
with torch.no_grad(): t.params.fill_(0.1)
print("DDF after inplace edit: disp() (may be stale)", t.disp().mean().item(), " call:", (t(x)-x).mean().item(), " disp after call:", t.disp().mean().item())
# reset
t.reset_parameters(); print("DDF after reset: disp", t.disp().abs().max().item())
# grid_ re-expression
t = S.DisplacementFieldTransform(g, params=torch.full((1,2,8,9), 0.1))
gw = Grid(size=(17,15), spacing=(0.5,0.5), center=g.center())  # same extent? g extent corners: (9-1)*1=8 ; new (17-1)*.5 = 8
w = torch.tensor([[[0.3,-1.2],[2.0,1.0]]])
before = t.points(w, axes=Axes.WORLD)
t.grid_(gw)
after = t.points(w, axes=Axes.WORLD)
print("DDF grid_ world preserved:", (before-after).abs().max().item(), t.params.shape)
# FFD grid_ subdivision
gf = Grid(size=(9,9)); f = S.FreeFormDeformation(gf, stride=4)
with torch.no_grad(): f.params.normal_(0, 0.05)
before = f.points(w*0.5, axes=Axes.WORLD)
tryit("FFD grid_(2n-1)", lambda: f.grid_(Grid(size=(17,17), spacing=(0.5,0.5), center=gf.center())) and None)
after = f.points(w*0.5, axes=Axes.WORLD)
print("FFD subdivision world preserved:", (before-after).abs().max().item(), f.params.shape)
# callable params + condition
net = lambda a=0.0, **k: torch.full((1,2), float(a))
t = S.Translation(g, params=net)
tryit("callable no condition", lambda: (t(x)-x).mean().item())
t.condition_(0.2); tryit("condition_(0.2) call", lambda: (t(x)-x).mean().item())
tryit("tensor() right after condition_(0.3) [no update]", lambda: (t.condition_(0.3).tensor()).flatten().tolist())
tryit("after update()", lambda: t.update().tensor().flatten().tolist())
# linked inverse tracks param change
t = S.Translation(g, params=torch.tensor([[0.1,0.2]]))
inv = t.inverse(link=True)
print("linked inv:", (inv(t(x))-x).abs().max().item())
t.data_(torch.tensor([[0.3,-0.1]]))
print("linked inv after data_:", (inv(t(x))-x).abs().max().item())
inv2 = S.Translation(g, params=torch.tensor([[0.1,0.2]])).inverse()
# unlinked inverse shares param tensor: in-place edit
t = S.Translation(g); inv = t.inverse()
with torch.no_grad(): t.params.fill_(0.25)
print("unlinked inv after in-place edit:", (inv(t(x))-x).abs().max().item())
t.data_(torch.tensor([[0.3,-0.1]]))
print("unlinked inv after data_ replace (param container shared):", (inv(t(x))-x).abs().max().item())
# deepcopy independence
t = S.StationaryVelocityFieldTransform(g); c = copy.deepcopy(t)
with torch.no_grad(): c.params.fill_(0.1)
print("deepcopy independent:", t.params.abs().max().item(), c.params.abs().max().item())
