import torch, warnings, numpy as np, traceback
warnings.filterwarnings("ignore")
from deepali.core import functional as U
rng = np.random.default_rng(16)
def tryit(label, f):
    try:
        r = f(); print("OK ", label, "->", r)
    except Exception as e:
        tb = traceback.extract_tb(e.__traceback__)[-1]; print("ERR", label, type(e).__name__, str(e)[:110], f"@{tb.filename.split('/')[-1]}:{tb.lineno}")
N, D, shape = 2, 2, (7, 8)
sp = np.array([[0.5, 2.0],[1.5, 0.25]])  # per item (x,y)
A = rng.uniform(-1,1,size=(N,D,D)); b = rng.uniform(-1,1,size=(N,D))
fields=[]
for n in range(N):
    ax = [torch.arange(k, dtype=torch.float64)*s for k, s in zip(shape, sp[n][::-1])]
    g = torch.stack(torch.meshgrid(*ax, indexing="ij"), -1).flip(-1)
    fields.append((g @ torch.tensor(A[n]).T + torch.tensor(b[n])).permute(2,0,1))
u = torch.stack(fields)
for mode in ("forward_central_backward","central","sobel","bspline"):
    def f():
        J = U.jacobian_matrix(u, mode=mode, spacing=torch.tensor(sp))
        sl = (slice(None), slice(1,-1), slice(1,-1)) if mode!="bspline" else (slice(None),)
        return float((J[sl] - torch.tensor(A).reshape(N,1,1,D,D)).abs().max()), tuple(J.shape)
    tryit(f"per-batch spacing (N,D) mode={mode}", f)
tryit("spacing (N,1)", lambda: U.jacobian_matrix(u, spacing=torch.tensor([[0.5],[1.5]])).shape)
tryit("spacing scalar", lambda: U.jacobian_matrix(u, spacing=0.5).shape)
tryit("spacing (D,)", lambda: U.jacobian_matrix(u, spacing=[0.5,2.0]).shape)
# subset == all
allk = U.flow_derivatives(u, order=1); sub = U.flow_derivatives(u, which=["dv/dx","du/dy"])
print("subset==all:", all(torch.equal(sub[k], allk[k]) for k in sub), list(allk.keys()))
mix = U.flow_derivatives(u, which=["du/dxy","du/dyx","dv/dxx"])
print("mixed symmetric identical:", torch.equal(mix["du/dxy"], mix["du/dyx"]), "same object:", mix["du/dxy"] is mix["du/dyx"])
# bspline mode derivative vs analytic: coefficients linear c(i) = a.i + b -> spline = same linear fn of lattice coord -> d/dx = a / spacing
c = u  # treat u as coefficients
d = U.flow_derivatives(c, which=["du/dx","du/dy","du/dxx"], mode="bspline", spacing=[1.0,1.0], stride=2)
print("bspline shapes:", {k: tuple(v.shape) for k,v in d.items()})
print("bspline du/dx const:", float(d["du/dx"][0].std()), float(d["du/dx"][0].mean()), "expected", A[0,0,0]*sp[0,0], " dxx max", float(d["du/dxx"].abs().max()))
