import torch, warnings, math, numpy as np, collections, traceback
warnings.filterwarnings("ignore")
from deepali.core import Grid, Axes
rng = np.random.default_rng(13)
def rand_rot(D):
    A = rng.normal(size=(D,D)); Q,_ = np.linalg.qr(A)
    if np.linalg.det(Q) < 0: Q[:,0] *= -1
    return Q
res = collections.defaultdict(lambda: [0, 0.0])
fails = {}
def rec(name, err, info=None):
    r = res[name]; r[0]+=1
    if err > r[1]: r[1] = err
    if err > 1e-3 and name not in fails: fails[name] = info
def w(g, idx): return g.index_to_world(torch.tensor(idx, dtype=torch.float64), ).double()
for it in range(1500):
    D = int(rng.integers(2,4)); ac = bool(rng.integers(2))
    size = rng.integers(4, 40, size=D).tolist(); sp = np.exp(rng.uniform(-1.5,1.5,size=D)); c = rng.uniform(-20,20,size=D)
    g = Grid(size=size, spacing=sp.tolist(), center=c.tolist(), direction=rand_rot(D), align_corners=ac)
    n = np.array(size, float); scale = float(np.abs(c).max() + (n*sp).max())
    try:
        # resize
        m = rng.integers(2, 40, size=D).tolist(); r = g.resize(m)
        rec("resize center", (r.center()-g.center()).abs().max().item()/scale)
        if ac:
            rec("resize ac corners first", (w(r,[0]*D)-w(g,[0]*D)).abs().max().item()/scale)
            rec("resize ac corners last", (w(r,[k-1 for k in m])-w(g,[k-1 for k in size])).abs().max().item()/scale, (g, m))
        else:
            rec("resize extent", (r.extent()-g.extent()).abs().max().item()/scale)
            rec("resize face", (w(r,[-0.5]*D)-w(g,[-0.5]*D)).abs().max().item()/scale)
        # downsample / upsample
        l = int(rng.integers(1,3))
        if all(k/2**l >= 2 for k in size):
            d = g.downsample(l); exp_size = [math.ceil(k/2**l) for k in size]
            rec("down size", float(list(d.size()) != exp_size), (g,l,d))
            rec("down same_domain", float(not d.same_domain_as(g)) if not ac else float(not torch.allclose(d.cube_extent(), g.cube_extent(), rtol=1e-4)), (g,l,d))
            u = d.upsample(l)
            rec("down-up == g", float(not (u == g) or list(u.size()) != size), (g,l,u))
        # pyramid
        L = int(rng.integers(1,4))
        if all(k/2**L >= 2 for k in size):
            p = g.pyramid(L)
            ext0 = p[0].cube_extent()
            for lev, gl in p.items():
                rec("pyramid cube_extent", (gl.cube_extent()-ext0).abs().max().item()/scale, (g,L,lev))
                rec("pyramid center", (gl.center()-g.center()).abs().max().item()/scale)
            rec("pyramid level0 size==g", float(list(p[0].size()) != size))   # may legitimately differ?
        # resample
        s2 = np.exp(rng.uniform(-1.5,1.5,size=D)); r = g.resample(s2.tolist())
        rec("resample center", (r.center()-g.center()).abs().max().item()/scale)
        rec("resample spacing", float(np.abs(r.spacing().numpy()-s2).max()/s2.max()))
        rec("resample size==ceil(extent/sp)", float(list(r.size()) != [max(1,math.ceil(round(a*b/c2,4))) for a,b,c2 in zip(size, sp, s2)]), (g, s2, r))
        # crop / pad num
        num = rng.integers(-3, 3, size=2*D).tolist()
        if all(size[i]-num[2*i]-num[2*i+1] >= 1 for i in range(D)):
            r = g.crop(num=num)
            rec("crop size", float(list(r.size()) != [size[i]-num[2*i]-num[2*i+1] for i in range(D)]))
            rec("crop origin", (w(r,[0]*D)-w(g,[num[2*i] for i in range(D)])).abs().max().item()/scale)
            r = g.pad(num=num)
        if all(size[i]+num[2*i]+num[2*i+1] >= 1 for i in range(D)):
            r = g.pad(num=num)
            rec("pad size", float(list(r.size()) != [size[i]+num[2*i]+num[2*i+1] for i in range(D)]))
            rec("pad origin", (w(r,[0]*D)-w(g,[-num[2*i] for i in range(D)])).abs().max().item()/scale)
        mg = rng.integers(0,2,size=D).tolist(); r = g.crop(*mg); rec("crop *args", float(list(r.size()) != [size[i]-2*mg[i] for i in range(D)]))
        r = g.crop(margin=mg); rec("crop margin=", (w(r,[0]*D)-w(g,mg)).abs().max().item()/scale)
        # center crop/pad
        cs = rng.integers(2, 45, size=D).tolist()
        r = g.center_crop(cs); es = [min(a,b) for a,b in zip(size,cs)]
        rec("center_crop size", float(list(r.size()) != es)); rec("center_crop origin", (w(r,[0]*D)-w(g,[(a-b)//2 for a,b in zip(size,es)])).abs().max().item()/scale)
        r = g.center_pad(cs); es = [max(a,b) for a,b in zip(size,cs)]
        rec("center_pad size", float(list(r.size()) != es)); rec("center_pad origin", (w(r,[0]*D)-w(g,[-((b-a)//2) for a,b in zip(size,es)])).abs().max().item()/scale)
        # narrow
        dim = int(rng.integers(D)); st = int(rng.integers(0, size[dim]-1)); ln = int(rng.integers(1, size[dim]-st+1))
        r = g.narrow(dim, st, ln); rec("narrow", (w(r,[0]*D)-w(g,[st if i==dim else 0 for i in range(D)])).abs().max().item()/scale + float(r.size(dim)!=ln))
        # roi
        start = rng.integers(-2, 4, size=D).tolist(); rs = rng.integers(1, 6, size=D).tolist()
        r = g.region_of_interest(start, rs); rec("roi size", float(list(r.size()) != rs), (g,start,rs,r)); rec("roi origin", (w(r,[0]*D)-w(g,start)).abs().max().item()/scale)
        # pool
        k = int(rng.integers(1,4)); cm = bool(rng.integers(2)); r = g.pool(k, ceil_mode=cm)
        rec("pool size", float(list(r.size()) != [(math.ceil if cm else math.floor)(a/k) for a in size]))
        rec("pool origin", (w(r,[0]*D)-w(g,[(k-1)/2]*D)).abs().max().item()/scale); rec("pool spacing", (r.spacing()-g.spacing()*k).abs().max().item())
        for r2 in (r,): rec("pool direction", (r2.direction()-g.direction()).abs().max().item())
    except AssertionError as e:
        res["AssertionError"][0]+=1
    except Exception as e:
        tb = traceback.extract_tb(e.__traceback__)[-1]
        k = f"ERR {type(e).__name__} {str(e)[:60]} @{tb.lineno}"; res[k][0]+=1
for k,v in sorted(res.items()): print(f"{k:34s} n={v[0]:5d} worst={v[1]:.2e}")
for k,v in fails.items(): print("FAIL", k, v)
