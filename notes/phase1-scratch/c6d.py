import torch, warnings, math, numpy as np
warnings.filterwarnings("ignore")
from deepali.core import Grid, Axes
import deepali.spatial as S
def rot2(th): return np.array([[math.cos(th), -math.sin(th)],[math.sin(th), math.cos(th)]])
gt = Grid(size=(16,14), spacing=(1.0,1.2), center=(5,-3), direction=rot2(0.2))
others = {"own": gt, "same-domain": gt.resize(31,27), "same-domain ac=False": gt.resize(31,27).align_corners(False), "cropped": gt.crop(2), "other": Grid(size=(10,9), spacing=(0.9,0.8), center=(5.2,-3.1), direction=rot2(-0.4))}
for cls, p in ((S.Translation, torch.tensor([[0.1,-0.05]])), (S.EulerRotation, torch.tensor([[0.3]])), (S.AnisotropicScaling, torch.tensor([[1.2,0.9]]))):
    T = cls(gt, params=p)
    for name, g2 in others.items():
        d = T.disp(g2)
        xw2 = g2.points(Axes.WORLD).unsqueeze(0); yw2 = T.points(xw2, axes=Axes.WORLD)
        dwref = (yw2 - xw2)[0].double()
        dw = g2.transform_vectors(d.permute(0,2,3,1).double(), g2.axes(), Axes.WORLD)[0]
        print(f"{cls.__name__:20s} disp({name:22s}) world err = {(dw-dwref).abs().max().item():.2e}  (|d|max={dwref.abs().max().item():.2f})")
