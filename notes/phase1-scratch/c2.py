import torch, warnings, math, numpy as np, itertools
warnings.filterwarnings("ignore")
from deepali.core import Grid, Axes
from deepali.data import Image
import SimpleITK as sitk
rng = np.random.default_rng(7)
def rand_dir(D):
    A = rng.normal(size=(D,D)); Q,_ = np.linalg.qr(A)
    if np.linalg.det(Q) < 0: Q[:,0] *= -1
    if rng.integers(3)==0:  # permutation/flip proper rotation
        P = np.eye(D)[rng.permutation(D)] * rng.choice([-1,1], size=D)
        if np.linalg.det(P) < 0: P[:,0] *= -1
        Q = P
    return Q
w1=w2=w3=0
for it in range(500):
    D = int(rng.integers(2,4))
    size = rng.integers(1, 30, size=D).tolist(); sp = np.exp(rng.uniform(-2,2,size=D)); org = rng.uniform(-100,100,size=D); R = rand_dir(D)
    img = sitk.Image(size, sitk.sitkUInt8); img.SetOrigin(org.tolist()); img.SetSpacing(sp.tolist()); img.SetDirection(R.flatten().tolist())
    g = Grid.from_sitk(img)
    g2 = Grid(size=size, center=g.center(), spacing=sp.tolist(), direction=R)
    for gg in (g, g2):
        ci = rng.uniform(-5, 35, size=(5, D))
        for i in ci:
            p_ref = np.array(img.TransformContinuousIndexToPhysicalPoint(i.tolist()))
            p = gg.index_to_world(torch.tensor(i)).numpy()
            w1 = max(w1, np.abs(p-p_ref).max()/max(1,np.abs(p_ref).max()))
            i_back = gg.world_to_index(torch.tensor(p_ref), decimals=None).numpy()
            w2 = max(w2, np.abs(i_back - i).max())
    im = Image(torch.zeros((1,)+tuple(g.shape), dtype=torch.uint8), g)
    s = im.sitk()
    w3 = max(w3, np.abs(np.array(s.GetOrigin())-org).max()/max(1,np.abs(org).max()), np.abs(np.array(s.GetSpacing())-sp).max()/sp.max(), np.abs(np.array(s.GetDirection())-R.flatten()).max())
    assert s.GetSize() == tuple(size)
print(w1, w2, w3)
