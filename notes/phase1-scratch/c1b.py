import torch, warnings, numpy as np
warnings.filterwarnings("ignore")
from deepali.core import Grid, Axes
bad = []
worst = 0
for n in range(1, 4097):
    g = Grid(size=(n, 2))
    for ac in (True, False):
        for dt in (torch.float32, torch.float64):
            c = g.coords(dim=0, align_corners=ac, dtype=dt).flatten()
            i = np.arange(n, dtype=np.float64)
            ref = (2*i/(n-1) - 1) if (ac and n > 1) else ((2*i+1)/n - 1 if n > 1 else np.zeros(1))
            ok = (len(c) == n) and bool((c >= -1).all()) and bool((c <= 1).all()) and (n < 2 or bool((c[1:] > c[:-1]).all()))
            err = float(np.abs(c.double().numpy() - ref).max()) if len(c) == n else float('inf')
            worst = max(worst, err if err != float('inf') else 0)
            tol = 4e-7 if dt == torch.float32 else 1e-12
            if not ok or err > tol: bad.append((n, ac, str(dt), len(c), err))
print("bad:", bad[:20], len(bad), "worst err", worst)
# index_to_cube(arange) agreement for a few n
for n in (2,3,7,64,1000,4096):
    g = Grid(size=(n,2))
    for ac in (True,False):
        idx = torch.stack([torch.arange(n, dtype=torch.float64), torch.zeros(n, dtype=torch.float64)], -1)
        cc = g.index_to_cube(idx, align_corners=ac)[:,0]
        c = g.coords(dim=0, align_corners=ac, dtype=torch.float64).flatten()
        print(n, ac, float((cc-c).abs().max()))
