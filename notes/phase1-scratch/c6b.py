import torch, warnings, math, numpy as np
warnings.filterwarnings("ignore")
from deepali.core import Grid, Axes
import deepali.spatial as S
from deepali.data import Image
rng = np.random.default_rng(10)
def rand_rot(D, s=0.3):
    th = rng.uniform(-s, s); return np.array([[math.cos(th), -math.sin(th)],[math.sin(th), math.cos(th)]])
D=2
gt = Grid(size=(16,14), spacing=(1.0,1.2), center=(5,-3), direction=rand_rot(D))  # transform grid
src = Grid(size=(40,36), spacing=(0.6,0.7), center=(5.5,-2.5), direction=rand_rot(D)) # source image grid
a = np.array([0.7,-0.4]); b = 2.0
I = lambda w: (w @ torch.tensor(a) + b)
img = I(src.points(Axes.WORLD).double()).unsqueeze(0).unsqueeze(0).float()
def check(T, target, label):
    tr = S.ImageTransformer(T, target=target, source=src, padding="border")
    out = tr(img)[0,0].double()
    xw = target.points(Axes.WORLD).double().unsqueeze(0)
    yw = T.points(xw.float(), axes=Axes.WORLD).double()[0]   # T(x) in world via point API
    exp = I(yw)
    ci = src.transform_points(yw, Axes.WORLD, Axes.GRID, decimals=None); n = torch.tensor(src.size(), dtype=torch.float64)
    inside = ((ci>=0)&(ci<=n-1)).all(-1)
    print(label, "max err inside:", (out-exp)[inside].abs().max().item(), "n inside", int(inside.sum()))
# linear transform
T = S.AffineTransform(gt); 
with torch.no_grad():
    T.translation.params.fill_(0.05); T.rotation.params.fill_(0.05); T.scaling.params.add_(0.03)
for name, target in [("same", gt), ("diff-size-same-domain", gt.resize(31,27)), ("cropped", gt.crop(2)), ("other", Grid(size=(10,9), spacing=(0.9,0.8), center=(5.2,-3.1), direction=rand_rot(D)))]:
    check(T, target, "Affine  target="+name)
# non-rigid: world-affine displacement as DDF
xw = gt.points(Axes.WORLD).double()
M = rng.uniform(-0.03,0.03,size=(2,2)); t = rng.uniform(-0.5,0.5,size=2)
uw = xw @ torch.tensor(M).T + torch.tensor(t)
uc = gt.transform_vectors(uw, Axes.WORLD, Axes.CUBE_CORNERS).permute(2,0,1).unsqueeze(0).float()
T = S.DisplacementFieldTransform(gt, params=uc)
for name, target in [("same", gt), ("diff-size-same-domain", gt.resize(31,27)), ("cropped", gt.crop(2)), ("other", Grid(size=(10,9), spacing=(0.9,0.8), center=(5.2,-3.1), direction=rand_rot(D)))]:
    check(T, target, "DDF     target="+name)
