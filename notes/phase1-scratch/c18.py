import torch, warnings, tempfile, os, math, numpy as np
warnings.filterwarnings("ignore")
from deepali.core import Grid
from deepali.data import Image
import deepali.utils.imageio.nifti as NI
import nibabel as nib, SimpleITK as sitk
def write_fixed(data, grid, path):
    data = data.detach().cpu()
    if data.ndim == grid.ndim: data = data.unsqueeze(0)
    D = grid.ndim
    dataobj = np.transpose(data.numpy(), axes=tuple(reversed(range(data.ndim))))  # (X,Y,[Z],C)
    affine = np.eye(4)
    affine[:D,:D] = grid.affine().double().numpy(); affine[:D,3] = grid.origin().double().numpy()
    affine[:2] *= -1
    C = dataobj.shape[-1]
    if C == 1:
        dataobj = dataobj[..., 0]
        img = nib.Nifti1Image(dataobj, affine)
    else:
        shp = dataobj.shape[:-1] + (1,)*(4-D) + (C,)
        img = nib.Nifti1Image(dataobj.reshape(shp), affine)
        img.header.set_intent(1007)
    nib.save(img, path)
th=0.3
g2 = Grid(size=(6,5), origin=(1.5,-2.0), spacing=(0.5,2.0), direction=[[math.cos(th), -math.sin(th)],[math.sin(th), math.cos(th)]])
A = np.linalg.qr(np.random.default_rng(0).normal(size=(3,3)))[0]; A[:,0]*=np.sign(np.linalg.det(A))
g3 = Grid(size=(6,5,4), origin=(1.5,-2.0,3.0), spacing=(0.5,2.0,1.5), direction=A)
tmp = tempfile.mkdtemp(dir="/tmp/exp")
for gname, g in (("2d",g2),("3d",g3)):
    for C in (1,2,3):
        for dt in (torch.float32, torch.uint8, torch.int16):
            data = (torch.rand((C,)+tuple(g.shape))*100).to(dt)
            p = os.path.join(tmp, "x.nii.gz")
            try:
                write_fixed(data, g, p)
                d2, gg = NI.read_nifti_image(p)
                s = sitk.ReadImage(p)
                print(gname, C, dt, "read shape", tuple(d2.shape), "data eq", d2.shape==data.shape and torch.equal(d2.to(data.dtype), data), "grid eq", gg==g if gg.ndim==g.ndim else f"ndim {gg.ndim}", "| sitk", s.GetSize(), s.GetNumberOfComponentsPerPixel(), s.GetDimension())
            except Exception as e:
                print(gname, C, dt, "ERR", type(e).__name__, str(e)[:100])
