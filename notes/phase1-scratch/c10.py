import torch, warnings, math, numpy as np, collections, traceback, itertools
warnings.filterwarnings("ignore")
from deepali.core import Grid, Axes
from deepali.data import Image, ImageBatch, FlowField, FlowFields
rng = np.random.default_rng(9)
def rand_rot(D):
    A = rng.normal(size=(D,D)); Q,_ = np.linalg.qr(A)
    if np.linalg.det(Q) < 0: Q[:,0] *= -1
    return Q
def tryit(label, f):
    try:
        r = f(); print("OK ", label, "->", r)
    except Exception as e:
        tb = traceback.extract_tb(e.__traceback__)[-1]
        print("ERR", label, type(e).__name__, str(e)[:120], f"@{tb.filename.split('/')[-1]}:{tb.lineno}")
D=2
g = Grid(size=(12,10), spacing=(0.5,1.5), center=(3,-2), direction=rand_rot(D), align_corners=True)
# world-affine displacement field u_w(x_w) = M x_w + t
M = rng.uniform(-0.05,0.05,size=(D,D)); t = rng.uniform(-0.3,0.3,size=D)
xw = g.points(Axes.WORLD).double()
uw = (xw @ torch.tensor(M).T + torch.tensor(t))
data = uw.permute(2,0,1).unsqueeze(0).float()
f = FlowFields(data, g, axes=Axes.WORLD)
# path independence of axes
worst=0
for a,b,c in itertools.permutations(list(Axes),3):
    x1 = f.axes(a).axes(c).tensor(); x2 = f.axes(a).axes(b).axes(c).tensor()
    worst=max(worst,(x1-x2).abs().max().item())
print("axes path independence:", worst)
back = f.axes(Axes.CUBE).axes(Axes.GRID).axes(Axes.CUBE_CORNERS).axes(Axes.WORLD)
print("axes roundtrip:", (back.tensor()-data).abs().max().item())
# sample on another grid: world result should equal affine evaluated at new grid points
g2 = Grid(size=(7,6), spacing=(0.4,0.9), center=(3.2,-1.8), direction=rand_rot(D), align_corners=False)
exp2 = (g2.points(Axes.WORLD).double() @ torch.tensor(M).T + torch.tensor(t)).permute(2,0,1).unsqueeze(0)
for ax in Axes:
    r = f.axes(ax).sample(g2)
    rw = r.axes(Axes.WORLD).tensor().double()
    # inside mask
    ci = g.transform_points(g2.points(Axes.WORLD).double(), Axes.WORLD, Axes.GRID, decimals=None)
    inside = ((ci>=0)&(ci<=torch.tensor(g.size())-1)).all(-1)
    print("sample", ax.value, "axes kept:", r.axes().value, " world err:", (rw-exp2)[0][:,inside].abs().max().item())
# exp on different axes -> same world result
ref = f.axes(Axes.CUBE_CORNERS).exp(steps=3).axes(Axes.WORLD).tensor()
for ax in Axes:
    r = f.axes(ax).exp(steps=3)
    print("exp", ax.value, "->", r.axes().value, " world diff vs CUBE_CORNERS:", (r.axes(Axes.WORLD).tensor()-ref).abs().max().item())
# warp image
img = Image(torch.rand(1,10,12), g)
refw = f.axes(Axes.CUBE_CORNERS).warp_image(img).tensor()
for ax in Axes:
    r = f.axes(ax).warp_image(img)
    print("warp", ax.value, "diff:", (r.tensor()-refw).abs().max().item(), type(r).__name__)
# batch N=2 single grid sample
f2 = FlowFields(torch.cat([data, 2*data]), [g, g.center(4,-2)], axes=Axes.WORLD)
tryit("N=2 sample single grid", lambda: (lambda r: (type(r).__name__, tuple(r.shape), len(r.grids())))(f2.axes(Axes.CUBE).sample(g2)))
tryit("N=2 sample two grids", lambda: (lambda r: (type(r).__name__, tuple(r.shape), len(r.grids())))(f2.axes(Axes.CUBE).sample([g2, g2])))
