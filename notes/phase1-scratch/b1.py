import torch, warnings, math, itertools, numpy as np, collections
warnings.filterwarnings("ignore")
from deepali.core import Grid, Axes
rng = np.random.default_rng(1)
def rand_rot(D):
    A = rng.normal(size=(D,D)); Q,_ = np.linalg.qr(A)
    if np.linalg.det(Q) < 0: Q[:,0] *= -1
    return Q
def rand_grid(D, big=False):
    size = rng.integers(2, 70, size=D).tolist()
    spacing = np.exp(rng.uniform(-2, 2, size=D)).tolist()
    center = rng.uniform(-300, 300, size=D).tolist() if big else rng.uniform(-5, 5, size=D).tolist()
    return Grid(size=size, spacing=spacing, center=center, direction=rand_rot(D), align_corners=bool(rng.integers(2)))
cnt = collections.Counter(); ex = {}
for it in range(4000):
    D = int(rng.integers(2,4)); g = rand_grid(D, big=bool(rng.integers(2)))
    ops = {
      "resize": lambda: g.resize(rng.integers(2, 70, size=D).tolist()),
      "down": lambda: g.downsample(int(rng.integers(1,3))),
      "up": lambda: g.upsample(int(rng.integers(1,3))),
      "pyramid": lambda: g.pyramid(int(rng.integers(1,4))),
      "downup": lambda: g.downsample().upsample(),
      "resample": lambda: g.resample(np.exp(rng.uniform(-2,2,size=D)).tolist()),
      "crop": lambda: g.crop(num=rng.integers(-3, 4, size=2*D).tolist()),
      "pool": lambda: g.pool(int(rng.integers(1,4))),
    }
    for name, f in ops.items():
        try:
            f(); cnt[(name,"ok")] += 1
        except AssertionError as e:
            cnt[(name,"AssertionError")] += 1; ex.setdefault(name, repr(g))
        except Exception as e:
            cnt[(name,type(e).__name__)] += 1; ex.setdefault((name,type(e).__name__), (repr(g), str(e)[:100]))
for k,v in sorted(cnt.items()): print(k, v)
for k,v in ex.items(): print(k, v)
