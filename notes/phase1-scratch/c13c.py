import torch, warnings, math, numpy as np
warnings.filterwarnings("ignore")
from deepali.core import functional as U
from deepali.core.flow import normalize_flow, denormalize_flow
exec(open("c13.py").read().split("for D, shape in")[0].split("torch.manual_seed(0)")[1])
for D, shape in ((2,(32,40)),(3,(16,20,24))):
    for amp in (0.25, 0.5, 1.0, 2.0):
        uv = smooth_field(shape, amp, D); vv = smooth_field(shape, -0.8*amp, D).flip(-1).roll(1,1)
        u = normalize_flow(uv); v = normalize_flow(vv)
        ref = U.compose_flows(U.expv(u, steps=6), U.expv(v, steps=6))   # exp(v) o exp(u)
        errs = []
        for k in range(0,6):
            w = U.compose_svfs(u, v, bch_terms=k)
            e = denormalize_flow(U.expv(w, steps=6) - ref).abs().max().item()
            errs.append(e)
        # inverse consistency second order
        ident = denormalize_flow(U.compose_flows(U.expv(u, steps=6), U.expv(u, steps=6, inverse=True))).abs().max().item()
        print(D, amp, "BCH errs (vox):", ["%.2e"%e for e in errs], " exp(v)oexp(-v) err:", "%.2e"%ident, " ratio/amp^2: %.3e" % (ident/amp**2))
