import torch, warnings, math, numpy as np, collections
warnings.filterwarnings("ignore")
from deepali.core import Grid, Axes
from deepali.data import Image
import SimpleITK as sitk
rng = np.random.default_rng(3)
def rand_rot(D, small=True):
    A = rng.normal(size=(D,D)); Q,_ = np.linalg.qr(A)
    if np.linalg.det(Q) < 0: Q[:,0] *= -1
    return Q
worst = collections.defaultdict(float); cnt=collections.Counter()
for it in range(300):
    D = int(rng.integers(2,4))
    def rg(center0=None):
        size = rng.integers(3, 14, size=D).tolist()
        spacing = np.exp(rng.uniform(-1, 1, size=D)).tolist()
        center = (rng.uniform(-50, 50, size=D) if center0 is None else np.asarray(center0) + rng.uniform(-2,2,size=D)).tolist()
        return Grid(size=size, spacing=spacing, center=center, direction=rand_rot(D), align_corners=bool(rng.integers(2)))
    src = rg(); tgt = rg(src.center().tolist())
    data = torch.tensor(rng.uniform(0, 100, size=(1,)+tuple(src.shape)), dtype=torch.float32)
    im = Image(data, src)
    for mode in ("linear", "nearest"):
        out = im.sample(tgt, mode=mode)
        assert out.grid() == tgt
        s = im.sitk()
        s = sitk.Cast(s, sitk.sitkFloat64)
        ref_img = sitk.Image(list(tgt.size()), sitk.sitkFloat64)
        ref_img.SetOrigin(tgt.origin().double().tolist()); ref_img.SetSpacing(tgt.spacing().double().tolist()); ref_img.SetDirection(tgt.direction().double().flatten().tolist())
        interp = sitk.sitkLinear if mode == "linear" else sitk.sitkNearestNeighbor
        r = sitk.Resample(s, ref_img, sitk.Transform(), interp, float('nan'))
        ref = torch.from_numpy(sitk.GetArrayFromImage(r)).unsqueeze(0)
        # continuous source index of each target point (float64)
        pts = tgt.points(Axes.WORLD).double()
        ci = src.transform_points(pts, Axes.WORLD, Axes.GRID, decimals=None)
        n = torch.tensor(src.size(), dtype=torch.float64)
        inside = ((ci >= 0.01) & (ci <= n - 1 - 0.01)).all(-1)
        if mode == "nearest":
            frac = (ci - ci.floor() - 0.5).abs().min(-1).values
            inside = inside & (frac > 0.02)
        valid = inside & ~ref[0].isnan()
        cnt[(mode, "pts")] += int(valid.sum()); cnt[(mode,"cases")] += 1
        if valid.any():
            err = (out.tensor()[0].double() - ref[0])[valid].abs().max().item()
            worst[(mode, src.align_corners(), tgt.align_corners(), D)] = max(worst[(mode, src.align_corners(), tgt.align_corners(), D)], err)
for k,v in sorted(worst.items()): print(k, f"{v:.3e}")
print(cnt)
