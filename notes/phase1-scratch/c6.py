import torch, warnings, math, numpy as np, collections, traceback
warnings.filterwarnings("ignore")
from deepali.core import Grid, Axes
from deepali.core import functional as U
import deepali.spatial as S
rng = np.random.default_rng(5)
def rand_rot(D):
    A = rng.normal(size=(D,D)); Q,_ = np.linalg.qr(A)
    if np.linalg.det(Q) < 0: Q[:,0] *= -1
    return Q
def grid(D, ac):
    return Grid(size=[9,8,7][:D], spacing=[0.5,1.5,1.0][:D], center=[3,-2,5][:D], direction=rand_rot(D), align_corners=ac)
classes = ["Translation","EulerRotation","QuaternionRotation","IsotropicScaling","AnisotropicScaling","Shearing","HomogeneousTransform",
           "RigidTransform","RigidQuaternionTransform","SimilarityTransform","AffineTransform","FullAffineTransform",
           "DisplacementFieldTransform","StationaryVelocityFieldTransform","FreeFormDeformation","StationaryVelocityFreeFormDeformation"]
for name in classes:
    for D in (2,3):
        for ac in (True, False):
            tag = f"{name} D={D} ac={ac}"
            try:
                g = grid(D, ac)
                cls = getattr(S, name)
                t = cls(g)
                x = torch.tensor(rng.uniform(-0.8,0.8,size=(1,6,D)), dtype=torch.float32)
                y = t(x)
                e0 = (y-x).abs().max().item()
                # perturb params
                with torch.no_grad():
                    for p in t.parameters():
                        p.add_(torch.tensor(rng.uniform(-0.05,0.05,size=tuple(p.shape)), dtype=p.dtype))
                y = t(x)
                # disp on own grid, sampled at grid points vs forward at grid points
                gx = g.coords(align_corners=ac).unsqueeze(0)
                yg = t(gx)
                u = t.disp()
                e1 = (U.move_dim(u,1,-1) - (yg-gx)).abs().max().item()
                # world api
                xw = g.transform_points(x, t.axes(), Axes.WORLD)
                yw = t.points(xw, axes=Axes.WORLD)
                yw2 = g.transform_points(y, t.axes(), Axes.WORLD, decimals=None)
                e2 = (yw-yw2).abs().max().item()
                try:
                    inv = t.inverse()
                    xi = inv(t(x))
                    e3 = (xi-x).abs().max().item()
                except NotImplementedError as e:
                    e3 = "NotImpl"
                print("OK ", tag, f"id={e0:.1e} disp={e1:.1e} world={e2:.1e} inv={e3 if isinstance(e3,str) else format(e3,'.1e')}")
            except Exception as e:
                tb = traceback.extract_tb(e.__traceback__)[-1]
                print("ERR", tag, type(e).__name__, str(e)[:100], f"@{tb.filename.split('/')[-1]}:{tb.lineno}")
