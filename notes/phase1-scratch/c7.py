import torch, warnings, math, numpy as np, traceback
warnings.filterwarnings("ignore")
from deepali.core import Grid, Axes
import deepali.spatial as S
from deepali.spatial.generic import GenericSpatialTransform, TransformConfig
rng = np.random.default_rng(12)
g2 = Grid(size=(12,10), spacing=(0.5,1.5), center=(3,-2)); g3 = Grid(size=(9,8,7), spacing=(0.5,1.5,1.0))
def tryit(label, f):
    try:
        r = f(); print("OK ", label, "->", r)
    except Exception as e:
        tb = traceback.extract_tb(e.__traceback__)[-1]
        print("ERR", label, type(e).__name__, str(e)[:110], f"@{tb.filename.split('/')[-1]}:{tb.lineno}")
def rt(t, x):
    inv = t.inverse(); return max((inv(t(x))-x).abs().max().item(), (t(inv(x))-x).abs().max().item())
for g in (g2, g3):
    D = g.ndim; x = torch.tensor(rng.uniform(-0.6,0.6,size=(1,7,D)), dtype=torch.float32)
    shapes = {"Translation":(1,D), "EulerRotation":(1,1 if D==2 else 3), "IsotropicScaling":(1,1), "AnisotropicScaling":(1,D), "Shearing":(1,1 if D==2 else 3), "HomogeneousTransform":(1,D,D+1)}
    if D==3: shapes["QuaternionRotation"]=(1,4)
    for name, shp in shapes.items():
        cls = getattr(S,name)
        def val():
            if name in ("IsotropicScaling","AnisotropicScaling"): return torch.tensor(rng.uniform(0.7,1.4,size=shp),dtype=torch.float32)
            if name=="HomogeneousTransform": return (torch.eye(D,D+1).unsqueeze(0)+torch.tensor(rng.uniform(-0.2,0.2,size=shp),dtype=torch.float32))
            if name=="QuaternionRotation": q=torch.tensor(rng.normal(size=shp),dtype=torch.float32); return q/q.norm()
            return torch.tensor(rng.uniform(-0.4,0.4,size=shp),dtype=torch.float32)
        p = val()
        tryit(f"D{D} {name} buffer", lambda: rt(cls(g, params=p), x))
        tryit(f"D{D} {name} callable", lambda: rt(cls(g, params=lambda: p), x))
        def param_case():
            t = cls(g); 
            with torch.no_grad(): t.params.copy_(p if name not in ("EulerRotation","Shearing","IsotropicScaling","AnisotropicScaling") else t.params + 0.3*torch.randn_like(t.params))
            return rt(t,x)
        tryit(f"D{D} {name} Parameter", param_case)
    for name in ("RigidTransform","SimilarityTransform","AffineTransform","FullAffineTransform") + (("RigidQuaternionTransform",) if D==3 else ()):
        def comp():
            t = getattr(S,name)(g)
            with torch.no_grad():
                for p in t.parameters(): p.add_(0.2*torch.randn_like(p))
            return rt(t,x)
        tryit(f"D{D} {name}", comp)
    # Generic
    for model in ("Affine", "SVF", "Affine o SVF", "SVFFD o Affine", "FFD", "DDF o Affine"):
        def gen():
            t = GenericSpatialTransform(g, config=TransformConfig(transform=model, affine_model="TRS", control_point_spacing=1 if "FFD" not in model else 3))
            e0 = (t(x)-x).abs().max().item()
            with torch.no_grad():
                for p in t.parameters(): p.add_(0.02*torch.randn_like(p))
            try: r = rt(t,x)
            except NotImplementedError: r = "NotImpl"
            return (e0, r)
        tryit(f"D{D} Generic[{model}]", gen)
    # SVF inverse with update_buffers
    t = S.StationaryVelocityFieldTransform(g)
    with torch.no_grad(): t.params.add_(0.01*torch.randn_like(t.params))
    tryit(f"D{D} SVF inverse(update_buffers=True) no prior update", lambda: (t.inverse(update_buffers=True)(t(x))-x).abs().max().item())
    tryit(f"D{D} SVF inverse(update_buffers=True).tensor() without call", lambda: t.inverse(update_buffers=True).tensor().abs().max().item() - t.tensor().abs().max().item())
    t2 = S.StationaryVelocityFieldTransform(g, params=t.params.detach().clone())
    tryit(f"D{D} SVF .inv buffer params", lambda: (t2.inv(t2(x))-x).abs().max().item())
