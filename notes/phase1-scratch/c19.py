import torch, warnings, traceback, copy, pickle, io
import torch.nn.functional as F
warnings.filterwarnings("ignore")
from deepali.core import Grid, Axes
from deepali.data import Image, ImageBatch, FlowField, FlowFields
N,C,H,W = 3,2,5,6
grids = [Grid(size=(W,H), center=(100*i, 0)) for i in range(N)]
ids = torch.arange(N, dtype=torch.float32).reshape(N,1,1,1).expand(N,C,H,W).clone()
def mk(kind):
    if kind=="ImageBatch": return ImageBatch(ids.clone(), grids)
    return FlowFields(ids.clone(), grids, axes=Axes.WORLD)
def describe(r):
    if isinstance(r,(tuple,list)): return [describe(x) for x in r]
    if not isinstance(r, torch.Tensor): return type(r).__name__
    t = type(r).__name__
    if hasattr(r, "grids"):
        gs = r.grids(); cen = [int(round(g.center()[0].item()/100)) for g in gs]
        data_ids = [int(r.tensor()[i].flatten()[0].item()) if r.shape[0]>i and r[i].numel() else None for i in range(r.shape[0])]
        ok = (len(gs)==r.shape[0]) and all(g.shape==r.shape[2:] for g in gs)
        aligned = cen == data_ids
        return f"{t}{tuple(r.shape)} grids={cen} data={data_ids} {'OK' if ok and aligned else 'MISMATCH'}" + (f" axes={r.axes().value}" if hasattr(r,'axes') else "")
    if hasattr(r, "grid"):
        return f"{t}{tuple(r.shape)} grid={int(round(r.grid().center()[0].item()/100))} data={int(r.tensor().flatten()[0].item())}"
    return f"{t}{tuple(r.shape)}"
progs = {
 "b+1": lambda b: b+1, "b*b": lambda b: b*b, "neg": lambda b: -b, "b[1]": lambda b: b[1], "b[1:]": lambda b: b[1:], "b[[2,0]]": lambda b: b[[2,0]],
 "b[tensor]": lambda b: b[torch.tensor([2,0])], "b[::2]": lambda b: b[::2], "b[-1]": lambda b: b[-1], "b[1:, :1]": lambda b: b[1:, :1], "b[:, 0]": lambda b: b[:,0],
 "b[1:, :, 1:3]": lambda b: b[1:, :, 1:3], "b[..., 1:]": lambda b: b[..., 1:], "b[None]": lambda b: b[None],
 "select(0,1)": lambda b: b.select(0,1), "narrow(0,1,2) [Tensor.narrow override]": lambda b: b.narrow(0,1,2), "torch.narrow": lambda b: torch.narrow(b,0,1,2),
 "cat": lambda b: torch.cat([b,b]), "cat dim=0 kw": lambda b: torch.cat([b[1:],b[:1]], dim=0), "cat dim1": lambda b: torch.cat([b,b],dim=1), "cat pos1": lambda b: torch.cat([b,b],1),
 "stack": lambda b: torch.stack([b,b]), "split(1)": lambda b: b.split(1), "split([1,2])": lambda b: b.split([1,2]), "torch.split(b,2)": lambda b: torch.split(b,2),
 "chunk": lambda b: b.chunk(3), "unbind": lambda b: b.unbind(), "tensor_split(3)": lambda b: b.tensor_split(3), "tensor_split([1])": lambda b: b.tensor_split([1]),
 "iter": lambda b: list(b), "permute spatial": lambda b: b.permute(0,1,3,2), "transpose(0,1)": lambda b: b.transpose(0,1), "flip(2)": lambda b: b.flip(2),
 "expand N=1": lambda b: b[:1].expand(3,-1,-1,-1), "repeat": lambda b: b.repeat(2,1,1,1), "reshape": lambda b: b.reshape(N,C,-1), "flatten": lambda b: b.flatten(2),
 "sum(0)": lambda b: b.sum(0), "sum(0,keepdim)": lambda b: b.sum(0,keepdim=True), "mean(1,keepdim)": lambda b: b.mean(1,keepdim=True), "sum((2,3))": lambda b: b.sum((2,3)), "max()": lambda b: b.max(),
 "interpolate": lambda b: F.interpolate(b, scale_factor=2), "avg_pool2d": lambda b: F.avg_pool2d(b,2), "pad": lambda b: F.pad(b,(1,1,1,1)), "pad0": lambda b: F.pad(b,(0,0,0,0)),
 "float()": lambda b: b.float(), "double()": lambda b: b.double(), "to(int)": lambda b: b.to(torch.int32), "clone": lambda b: b.clone(), "detach": lambda b: b.detach(), "contiguous": lambda b: b.contiguous(),
 "copy": lambda b: copy.copy(b), "deepcopy": lambda b: copy.deepcopy(b), "pickle": lambda b: pickle.loads(pickle.dumps(b)),
 "sort dim0 desc": lambda b: b.sort(0, descending=True)[0], "where": lambda b: torch.where(b>1, b, b), "b[b>1]": lambda b: b[b>1],
 "squeeze N=1": lambda b: b[:1].squeeze(0), "unsqueeze(0) of item": lambda b: b[1].unsqueeze(0), "Image*2": lambda b: b[1]*2, "Image.flip": lambda b: b[1].flip(1),
}
for kind in ("ImageBatch","FlowFields"):
    print("=====", kind)
    for name, f in progs.items():
        b = mk(kind)
        try:
            print(f"{name:28s}", describe(f(b)))
        except Exception as e:
            tb = traceback.extract_tb(e.__traceback__)[-1]
            print(f"{name:28s}", "ERR", type(e).__name__, str(e)[:70], f"@{tb.filename.split('/')[-1]}:{tb.lineno}")
