import torch, warnings, math, numpy as np, traceback
warnings.filterwarnings("ignore")
from deepali.core import Grid, Axes
from deepali.core import functional as U
from deepali.data import Image, ImageBatch
from deepali.modules import SampleImage, AlignImage, TransformImage
import deepali.losses.functional as L
rng = np.random.default_rng(15)
def rot2(th): return np.array([[math.cos(th), -math.sin(th)],[math.sin(th), math.cos(th)]])
src = Grid(size=(12,10), spacing=(0.5,1.5), center=(3,-2), direction=rot2(0.3), align_corners=False)
tgt = Grid(size=(9,8), spacing=(0.7,1.1), center=(3.3,-1.5), direction=rot2(-0.2), align_corners=True)
data = torch.rand(1,2,10,12)
im = ImageBatch(data, src)
ref = im.sample(tgt).tensor()
for ac_name, tg in (("tgt ac=True", tgt), ("tgt ac=False", tgt.align_corners(False))):
    sm = SampleImage(target=tg, source=src, padding="zeros")
    out = sm(tg.coords(align_corners=tg.align_corners()), data)
    print("SampleImage", ac_name, "vs Image.sample:", (out - ref).abs().max().item())
    al = AlignImage(target=tg, source=src, padding="zeros")
    print("AlignImage(None)", ac_name, (al(None, data)-ref).abs().max().item())
    ti = TransformImage(target=tg, source=src, padding="zeros")
    print("TransformImage(None)", ac_name, (ti(None, data)-ref).abs().max().item())
    ident = torch.eye(2,3).unsqueeze(0)
    print("AlignImage(I)", ac_name, (al(ident, data)-ref).abs().max().item())
# padding modes: outside values
big = Grid(size=(30,30), spacing=(0.5,0.5), center=(3,-2), direction=rot2(0.3))
for pad in ("zeros", "border", 7.5):
    o = im.sample(big, padding=pad).tensor()
    ci = src.transform_points(big.points(Axes.WORLD).double(), Axes.WORLD, Axes.GRID, decimals=None)
    n = torch.tensor(src.size(), dtype=torch.float64)
    far = ((ci < -1.0) | (ci > n)).any(-1)
    vals = o[0,0][far]
    print("padding", pad, "far-outside values: min", vals.min().item(), "max", vals.max().item())
# inverse consistency units
g = Grid(size=(12,10), spacing=(0.5,1.5), align_corners=True)
A = torch.tensor([[[1.05,0.02,0.01],[-0.03,0.97,-0.02]]]); Ainv = torch.linalg.inv(torch.cat([A, torch.tensor([[[0,0,1.]]])],1))[:, :2]
for units in ("cube","voxel","world"):
    print("IC exact pair", units, L.inverse_consistency_loss(A, Ainv, grid=g, units=units).item())
shift = torch.tensor([[[0.1],[0.0]]])  # translation 0.1 cube units in x ; inverse = identity => error = 0.1 cube in x
ident = torch.zeros(1,2,1)
for gg in (g, g.align_corners(False)):
    for units in ("cube","voxel","world"):
        e = L.inverse_consistency_loss(shift, ident, grid=gg, units=units).item()
        n = gg.size(0); expv = {"cube":0.1, "voxel":0.1*((n-1) if gg.align_corners() else n)/2}; expv["world"]=expv["voxel"]*0.5
        print("IC known error ac=",gg.align_corners(), units, e, "expected", expv[units])
