import torch, warnings, math, numpy as np, collections, traceback
warnings.filterwarnings("ignore")
from deepali.core import Grid, Axes
from deepali.data import Image, ImageBatch
rng = np.random.default_rng(6)
def rand_rot(D):
    A = rng.normal(size=(D,D)); Q,_ = np.linalg.qr(A)
    if np.linalg.det(Q) < 0: Q[:,0] *= -1
    return Q
def rg(D, ac):
    return Grid(size=rng.integers(6, 14, size=D).tolist(), spacing=np.exp(rng.uniform(-1,1,size=D)).tolist(), center=rng.uniform(-20,20,size=D).tolist(), direction=rand_rot(D), align_corners=ac)
def ramp(grid, a, b):
    w = grid.points(Axes.WORLD).double()
    return (w @ torch.tensor(a) + b).unsqueeze(0).float()
res = collections.defaultdict(lambda: [0,0.0,None])
for it in range(200):
    D = int(rng.integers(2,4)); ac = bool(rng.integers(2)); g = rg(D, ac)
    a = rng.uniform(-1,1,size=D); b = float(rng.uniform(-5,5))
    im = Image(ramp(g,a,b), g)
    n = list(g.size())
    ops = {
      "resize": lambda: im.resize(rng.integers(4, 16, size=D).tolist()),
      "resample": lambda: im.resample(np.exp(rng.uniform(-1,1,size=D)).tolist()),
      "downsample(sigma=0)": lambda: im.downsample(1, sigma=0),
      "upsample": lambda: im.upsample(1),
      "crop": lambda: im.crop(num=rng.integers(0, 3, size=2*D).tolist()),
      "pad(-)": lambda: im.pad(num=(-rng.integers(0, 3, size=2*D)).tolist()),
      "center_crop": lambda: im.center_crop(rng.integers(3, 8, size=D).tolist()),
      "narrow": lambda: im.narrow(1+int(rng.integers(D)), 1, 3),
      "avg_pool2": lambda: im.avg_pool(2),
      "roi": lambda: im.region_of_interest([1]*D, [3]*D) ,
      "conv": lambda: im.conv(torch.tensor([0.25,0.5,0.25]), padding="none") if False else im.conv(torch.tensor([0.25,0.5,0.25]), padding=0),
      "pyramid[1]": lambda: im.pyramid(2, sigma=0)[1],
      "sample(grid)": lambda: im.sample(Grid(size=[4]*D, spacing=(g.spacing()*0.7).tolist(), center=g.center().tolist(), direction=rand_rot(D), align_corners=not ac)),
    }
    for name, f in ops.items():
        try:
            out = f()
            assert isinstance(out, Image), type(out)
            assert tuple(out.grid().shape) == tuple(out.shape[1:]), (out.grid().shape, out.shape)
            exp = ramp(out.grid(), a, b)
            # restrict to inside original FOV: index coords of out points in g
            ci = g.transform_points(out.grid().points(Axes.WORLD).double(), Axes.WORLD, Axes.GRID, decimals=None)
            nn = torch.tensor(g.size(), dtype=torch.float64)
            inside = ((ci >= -1e-4) & (ci <= nn-1+1e-4)).all(-1)
            if name in ("avg_pool2",):
                pass
            err = ((out.tensor().double()-exp.double())[0][inside]).abs().max().item() if inside.any() else 0.0
            r = res[name]; r[0]+=1; 
            if err > r[1]: r[1]=err; r[2]=(D,ac,n)
        except Exception as e:
            tb = traceback.extract_tb(e.__traceback__)[-1]
            res[name+" ERR "+type(e).__name__+" "+str(e)[:60]+f" @{tb.filename.split('/')[-1]}:{tb.lineno}"][0]+=1
for k,v in sorted(res.items()): print(k, v[0], f"{v[1]:.2e}", v[2])
