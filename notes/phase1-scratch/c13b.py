import torch, warnings, math
warnings.filterwarnings("ignore")
import deepali.core.flow as F
from deepali.core.flow import normalize_flow, denormalize_flow, expv, compose_flows, compose_svfs
exec(open("c13.py").read().split("for D, shape in")[0].split("torch.manual_seed(0)")[1])
def logv_fixed(flow, num_iters=5, bch_terms=1, sigma=1.0, spacing=None, exp_steps=None, align_corners=True):
    v = flow
    for _ in range(num_iters):
        u = expv(v, steps=exp_steps, align_corners=align_corners, inverse=True)
        u = compose_flows(flow, u, align_corners=align_corners)
        v = compose_svfs(u, v, bch_terms=bch_terms, sigma=sigma, spacing=spacing)
    return v
for D, shape in ((2, (24, 32)), (3, (12, 16, 20))):
    uv = smooth_field(shape, 2.0, D); out = {}
    for ac in (True, False):
        u = normalize_flow(uv, align_corners=ac)
        e = expv(u, steps=5, align_corners=ac)
        sp = [2/(n-1) if ac else 2/n for n in reversed(shape)]
        out[ac] = denormalize_flow(logv_fixed(e, align_corners=ac, spacing=sp), align_corners=ac)
    print(D, "fixed logv T-vs-F diff:", (out[True]-out[False]).abs().max().item(), "err:", (out[True]-uv).abs().max().item())
