import torch, warnings, math, numpy as np, collections
warnings.filterwarnings("ignore")
from deepali.core import Grid, Axes
from deepali.core import functional as U
from deepali.core.flow import normalize_flow, denormalize_flow
torch.manual_seed(0)
def smooth_field(shape, amp_vox, D):
    # band-limited field vanishing at boundary: product of sines, in voxel units
    grids = torch.meshgrid(*[torch.linspace(0, 1, n, dtype=torch.float64) for n in shape], indexing="ij")
    comps = []
    for c in range(D):
        f = torch.ones(shape, dtype=torch.float64)
        for d, gg in enumerate(grids):
            k = 1 + (c + d) % 2
            f = f * torch.sin(math.pi * k * gg)
        comps.append(amp_vox * f * (1 if c % 2 == 0 else -0.7))
    return torch.stack(comps, 0).unsqueeze(0)  # (1, D, ...) voxel units, channel order x,y,z? fine for test
for D, shape in ((2, (24, 32)), (3, (12, 16, 20))):
    for amp in (0.5, 2.0):
        uv = smooth_field(shape, amp, D); vv = smooth_field(shape, -0.6*amp, D).flip(-1)
        out = {}
        for ac in (True, False):
            u = normalize_flow(uv, align_corners=ac); v = normalize_flow(vv, align_corners=ac)
            w = U.compose_flows(u, v, align_corners=ac)
            out[("compose", ac)] = denormalize_flow(w, align_corners=ac)
            e = U.expv(u, steps=5, align_corners=ac)
            out[("exp", ac)] = denormalize_flow(e, align_corners=ac)
            sp = [2/(n-1) if ac else 2/n for n in reversed(shape)]
            l = U.logv(e, align_corners=ac, spacing=sp)
            out[("log", ac)] = denormalize_flow(l, align_corners=ac)
        for name in ("compose","exp","log"):
            d = (out[(name,True)]-out[(name,False)]).abs().max().item()
            print(D, amp, name, f"T-vs-F diff (voxels) = {d:.3e}", "log err T:", f"{(out[('log',True)]-uv).abs().max().item():.3e}" if name=="log" else "")
