import torch, warnings, math, numpy as np, collections, itertools
warnings.filterwarnings("ignore")
from deepali.core import functional as U
rng = np.random.default_rng(11)
worst = collections.defaultdict(float)
def field(shape, sp, A, b, Q=None):
    D = len(shape)
    ax = [torch.arange(n, dtype=torch.float64)*s for n, s in zip(shape, reversed(sp))]  # tensor order z,y,x ; sp given x-first
    g = torch.stack(torch.meshgrid(*ax, indexing="ij"), -1).flip(-1)  # (..., D) as (x,y,z)
    u = g @ torch.tensor(A).T + torch.tensor(b)
    if Q is not None:
        u = u + torch.einsum("...i,cij,...j->...c", g, torch.tensor(Q), g)
    return u.permute(D, *range(D)).unsqueeze(0), g
for it in range(60):
    D = int(rng.integers(2,4)); shape = rng.integers(5, 10, size=D).tolist(); sp = np.exp(rng.uniform(-1,1,size=D)).tolist()
    A = rng.uniform(-1,1,size=(D,D)); b = rng.uniform(-1,1,size=D); B = rng.uniform(-1,1,size=(D,D)); c = rng.uniform(-1,1,size=D)
    u, g = field(shape, sp, A, b); v, _ = field(shape, sp, B, c)
    for mode in ("forward","backward","central","forward_central_backward","prewitt","sobel"):
        J = U.jacobian_matrix(u, mode=mode, spacing=sp)  # (N, ..., D, D)
        inner = tuple(slice(1,-1) for _ in range(D))
        sel = (slice(None),) + (inner if mode != "forward_central_backward" else tuple(slice(None) for _ in range(D)))
        err = (J[sel] - torch.tensor(A)).abs().max().item()
        worst[("jac", mode)] = max(worst[("jac",mode)], err)
        det = U.jacobian_det(u, mode=mode, spacing=sp)[:,0]
        worst[("det", mode)] = max(worst[("det",mode)], (det[sel] - np.linalg.det(np.eye(D)+A)).abs().max().item())
        div = U.divergence(u, mode=mode, spacing=sp)[:,0]
        worst[("div", mode)] = max(worst[("div",mode)], (div[sel]-np.trace(A)).abs().max().item())
        lb = U.lie_bracket(v, u, mode=mode, spacing=sp)  # Jv u - Ju v = B(Ax+b) - A(Bx+c)
        exp = (g @ torch.tensor(B@A - A@B).T + torch.tensor(B@b - A@c)).permute(D,*range(D)).unsqueeze(0)
        sel2 = (slice(None), slice(None)) + sel[1:]
        worst[("lb", mode)] = max(worst[("lb",mode)], (lb-exp)[sel2].abs().max().item())
    # BCH exact for affine (fcb)
    def br(X, Y):  # [X,Y] for affine (M,t): J_X Y - J_Y X
        (MX,tX),(MY,tY) = X,Y
        return (MX@MY - MY@MX, MX@tY - MY@tX)
    Uf=(A,b); Vf=(B,c)
    vu = br(Vf,Uf); vvu = br(Vf,vu); uvu = br(Uf,vu); uvvu = br(Uf,vvu)
    for k in range(6):
        M = B + A; t = c + b
        if k>=1: M = M + 0.5*vu[0]; t = t + 0.5*vu[1]
        if k>=2: M = M + vvu[0]/12; t = t + vvu[1]/12
        if k>=3: M = M - uvu[0]/12; t = t - uvu[1]/12
        if k>=4: cc = (1 if k==4 else 2)/48; M = M - cc*uvvu[0]; t = t - cc*uvvu[1]
        exp = (g @ torch.tensor(M).T + torch.tensor(t)).permute(D,*range(D)).unsqueeze(0)
        w = U.compose_svfs(u, v, mode="forward_central_backward", spacing=sp, bch_terms=k)
        worst[("bch", k)] = max(worst[("bch",k)], (w-exp).abs().max().item()/max(1,exp.abs().max().item()))
    # second derivs of quadratic
    Q = rng.uniform(-0.3,0.3,size=(D,D,D)); Q = Q + Q.transpose(0,2,1)
    uq, _ = field(shape, sp, A, b, Q)
    keys = [f"d{'uvw'[cidx]}/d{'xyz'[i]}{'xyz'[j]}" for cidx in range(D) for i in range(D) for j in range(D)]
    d2 = U.flow_derivatives(uq, which=keys, mode="forward_central_backward", spacing=sp)
    inner2 = (slice(None), slice(None)) + tuple(slice(2,-2) for _ in range(D))
    for cidx in range(D):
        for i in range(D):
            for j in range(D):
                val = d2[f"d{'uvw'[cidx]}/d{'xyz'[i]}{'xyz'[j]}"][inner2]
                if val.numel(): worst[("hess",)] = max(worst[("hess",)], (val - 2*Q[cidx,i,j]).abs().max().item())
for k,v in sorted(worst.items(), key=str): print(k, f"{v:.2e}")
