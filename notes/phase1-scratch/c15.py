import torch, warnings, traceback
warnings.filterwarnings("ignore")
from deepali.core import functional as U, Grid
import deepali.losses.functional as L
torch.manual_seed(0)
def scan(label, fn, *args, **kw):
    tens = [(i,a) for i,a in enumerate(args) if isinstance(a, torch.Tensor)] + [(k,a) for k,a in kw.items() if isinstance(a, torch.Tensor)]
    snap = {k:(a.clone(), a._version) for k,a in tens}
    try:
        out = fn(*args, **kw)
    except Exception as e:
        print("ERR", label, type(e).__name__, str(e)[:80]); return
    # mutate result in place to detect aliasing-then-write? only report aliasing
    outs = out if isinstance(out,(tuple,list)) else (list(out.values()) if isinstance(out,dict) else [out])
    msgs=[]
    for k,a in tens:
        c,v = snap[k]
        same = torch.equal(a, c) if not a.is_floating_point() else bool(((a==c)|(a.isnan()&c.isnan())).all())
        if not same: msgs.append(f"arg {k} VALUE CHANGED")
        elif a._version != v: msgs.append(f"arg {k} version bumped")
        for o in outs:
            if isinstance(o, torch.Tensor) and o.data_ptr()==a.data_ptr() and o.numel()>0: msgs.append(f"result aliases arg {k}")
    print("OK " if not any("CHANGED" in m for m in msgs) else "MUT", label, "; ".join(sorted(set(msgs))))
img = torch.rand(2,2,8,9); imgi = (img*100).to(torch.int16); g = Grid(shape=(8,9)); co = g.coords().unsqueeze(0)
nc = img.transpose(2,3)  # non-contiguous
flow = torch.randn(2,2,8,9)*0.05; mask = (torch.rand(2,1,8,9)>0.5).float()
scan("grid_sample pad=5", U.grid_sample, img, co, padding=5.0)
scan("grid_sample pad=5 f64 data", U.grid_sample, img.double(), co, padding=5.0)
scan("grid_sample int data nearest", U.grid_sample, imgi, co, mode="nearest", padding=3)
scan("grid_sample N=1 expand", U.grid_sample, img[:1], co.expand(2,-1,-1,-1), padding=2.0)
scan("normalize_image", U.normalize_image, img)
scan("normalize_image zscore", U.normalize_image, img, mode="zscore", min=0.1, max=0.9)
scan("rescale", U.rescale, img, 0, 1)
scan("rescale int", U.rescale, imgi, 0, 255, dtype=torch.uint8)
scan("conv 1d float", U.conv, img, torch.tensor([0.25,0.5,0.25]))
scan("conv 1d int", U.conv, imgi, torch.tensor([0.25,0.5,0.25]))
scan("conv1d int", U.conv1d, imgi, torch.tensor([0.25,0.5,0.25]))
scan("downsample levels=0", U.downsample, img, 0)
scan("downsample", U.downsample, img, 1)
scan("upsample sigma", U.upsample, img, 1, sigma=0.7)
scan("crop 0", U.crop, img, margin=0)
scan("pad", U.pad, img, margin=1)
scan("fill_border", U.fill_border, img, 1, 7.0)
scan("spatial_derivatives", U.spatial_derivatives, img, order=1)
scan("spatial_derivatives sigma", U.spatial_derivatives, img, order=2, sigma=1.0, mode="sobel")
scan("flow_derivatives", U.flow_derivatives, flow, order=1)
scan("jacobian_det", U.jacobian_det, flow)
scan("jacobian_det bspline", U.jacobian_det, flow, mode="bspline")
scan("divergence", U.divergence, flow)
scan("curl", U.curl, flow)
scan("lie_bracket", U.lie_bracket, flow, flow*2)
scan("compose_flows", U.compose_flows, flow, flow*2)
scan("compose_svfs", U.compose_svfs, flow, flow*2, bch_terms=5)
scan("expv", U.expv, flow); scan("expv steps0 scale1", U.expv, flow, steps=0); scan("logv", U.logv, flow, num_iters=1)
scan("normalize_flow", U.normalize_flow, flow); scan("denormalize_flow", U.denormalize_flow, flow)
scan("warp_image", U.warp_image, img, co, flow=U.move_dim(flow,1,-1))
scan("sample_flow", U.sample_flow, flow, co.reshape(1,-1,2))
scan("affine_flow", U.affine_flow, torch.eye(2,3).unsqueeze(0), g)
scan("homogeneous_matrix", U.homogeneous_matrix, torch.eye(2,3), torch.tensor([1.,2.]))
scan("hmm", U.hmm, torch.eye(2,3), torch.tensor([1.,2.]))
scan("homogeneous_transform", U.homogeneous_transform, torch.eye(2,3), co)
scan("round_decimals", U.round_decimals, co, 3)
scan("as_one_hot", U.as_one_hot_tensor, (img[:, :1]*3).long(), 4)
scan("evaluate_cubic_bspline", U.evaluate_cubic_bspline, img, stride=2)
scan("subdivide", U.subdivide_cubic_bspline, img)
for name in ["mse_loss","ssd_loss","mae_loss","huber_loss","smooth_l1_loss","lcc_loss","wlcc_loss"]:
    scan(name+" mask", getattr(L,name), img, img.flip(0), mask=mask)
scan("ssd norm", L.ssd_loss, img, img.flip(0), norm=torch.tensor(4.0), reduction="none")
scan("mse norm none", L.mse_loss, img, img.flip(0), norm=torch.tensor(4.0), reduction="none")
scan("mae norm none nomask", L.mae_loss, img, img.flip(0), norm=torch.tensor(4.0), reduction="none")
scan("ncc", L.ncc_loss, img, img.flip(0)); scan("mi", L.mi_loss, img[:, :1], img[:, 1:], mask=mask)
scan("dice", L.dice_score, mask, mask.flip(0), weight=mask); scan("tversky", L.tversky_index, mask, mask.flip(0), weight=mask)
for name in ["bending_loss","curvature_loss","diffusion_loss","divergence_loss","total_variation_loss","grad_loss"]:
    scan(name, getattr(L,name), flow)
scan("elasticity", L.elasticity_loss, flow, first_parameter=1.0, second_parameter=0.5)
scan("inverse_consistency", L.inverse_consistency_loss, flow, -flow, mask=mask)
scan("inverse_consistency world", L.inverse_consistency_loss, flow, -flow, units="world", reduction="none")
scan("kld", L.kld_loss, flow, flow*0.1); scan("focal", L.focal_loss_with_logits, img[:, :1], mask, weight=mask)
scan("bbce", L.balanced_binary_cross_entropy_with_logits, img[:, :1], mask, weight=mask)
scan("label_smoothing", L.label_smoothing, torch.cat([mask,1-mask],1))
