import torch, warnings, math, numpy as np, itertools, collections
warnings.filterwarnings("ignore")
from deepali.core import Grid, Axes
from deepali.core import functional as U
from deepali.core.bspline import cubic_bspline_interpolation_weights as W, evaluate_cubic_bspline as E, subdivide_cubic_bspline as SUB, cubic_bspline_control_point_grid_size as CPS
import deepali.spatial as S
rng = np.random.default_rng(8)
def B(t):  # analytic cubic B-spline, float64 numpy
    t = np.abs(t); return np.where(t<1, 2/3 - t**2 + t**3/2, np.where(t<2, (2-t)**3/6, 0.0))
def dB(t, d):
    # derivative d of B at t via piecewise polynomials
    s = np.sign(t); a = np.abs(t)
    if d==1: r = np.where(a<1, -2*a+1.5*a**2, np.where(a<2, -0.5*(2-a)**2, 0.0)); return r*s
    if d==2: return np.where(a<1, -2+3*a, np.where(a<2, (2-a), 0.0))
    if d==3: return np.where(a<1, 3.0, np.where(a<2, -1.0, 0.0))*s
worst = collections.defaultdict(float)
for s in range(1, 17):
    off = np.arange(s)/s
    for d in range(0,4):
        w = W(s, derivative=d, dtype=torch.float64).numpy()
        # weight k multiplies coefficient at index floor(t)-1+k, t = offset: position relative = off - (k-1)
        ref = np.stack([ (B(off-(k-1)) if d==0 else dB(off-(k-1), d)) for k in range(4)], 1)
        if d == 3: # at knots derivative discontinuous; take right-limit -> compare only sums/consistency for off=0? use off+1e-9
            ref = np.stack([dB(off+1e-9-(k-1), 3) for k in range(4)],1)
        if d == 2: ref = np.stack([dB(off+1e-12-(k-1), 2) for k in range(4)],1)
        worst[("weights", d)] = max(worst[("weights", d)], np.abs(w-ref).max())
# linear precision + two algorithms + coverage
for it in range(150):
    D = int(rng.integers(1,4)); size = rng.integers(1, 14, size=D).tolist(); stride = rng.integers(1, 7, size=D).tolist()
    cps = CPS(size, stride)  # order as given (x,...)
    shape_c = tuple(reversed(cps))
    # coefficients linear in control lattice coordinate
    idx = torch.stack(torch.meshgrid(*[torch.arange(n, dtype=torch.float64) for n in shape_c], indexing="ij"), 0)  # (D, ...z,y,x order)
    a = torch.tensor(rng.uniform(-1,1,size=D)); b = float(rng.uniform(-1,1))
    coef = (idx * a.reshape(-1, *[1]*D)).sum(0) + b
    coef = coef.reshape(1,1,*shape_c)
    out = E(coef, stride=stride, size=size)
    assert tuple(out.shape[2:]) == tuple(reversed(size)), (out.shape, size)
    # expected: lattice coord of image point j along axis with stride s: 1 + j/s ; idx dims are tensor-order so a[k] pairs with tensor dim k; stride given in x-first order
    pos = torch.stack(torch.meshgrid(*[1 + torch.arange(n, dtype=torch.float64)/s for n, s in zip(reversed(size), reversed(stride))], indexing="ij"), 0)
    exp = (pos * a.reshape(-1, *[1]*D)).sum(0) + b
    worst["linprec"] = max(worst["linprec"], (out[0,0]-exp).abs().max().item())
    out_t = E(coef.float(), stride=stride, size=size, transpose=True) if D > 1 or True else None
    worst["transpose_vs_default"] = max(worst["transpose_vs_default"], (out_t.double()-out).abs().max().item())
for k,v in worst.items(): print(k, f"{v:.3e}")
