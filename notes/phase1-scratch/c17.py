import torch, warnings, math, numpy as np, traceback
warnings.filterwarnings("ignore")
import deepali.losses.functional as L
from deepali.core import Grid
torch.manual_seed(0)
def tryit(label, f):
    try:
        r = f(); print("OK ", label, "->", r)
    except Exception as e:
        tb = traceback.extract_tb(e.__traceback__)[-1]
        print("ERR", label, type(e).__name__, str(e)[:120], f"@{tb.filename.split('/')[-1]}:{tb.lineno}")
for D, shape in ((2,(9,11)),(3,(7,8,9))):
    g = Grid(shape=shape)
    x = g.coords(dtype=torch.float64)  # (...,D)
    A = torch.randn(D,D,dtype=torch.float64)*0.3; b = torch.randn(D,dtype=torch.float64)
    u = (x @ A.T + b).permute(D,*range(D)).unsqueeze(0)
    tr = b.reshape(1,D,*[1]*D).expand(1,D,*shape).clone()
    print("D",D)
    for mode in (None,"forward_central_backward","central","forward","backward","sobel","prewitt"):
        tryit(f"bending affine mode={mode}", lambda: (float(L.bending_loss(u, mode=mode)), float(L.bending_loss(u, mode=mode, reduction='none').max())))
        tryit(f"curvature affine mode={mode}", lambda: float(L.curvature_loss(u, mode=mode)))
        tryit(f"diffusion transl mode={mode}", lambda: float(L.diffusion_loss(tr, mode=mode)))
    # analytic diffusion for affine with default spacing (cube units): 0.5*sum A_ij^2
    tryit("diffusion affine vs analytic", lambda: (float(L.diffusion_loss(u)), float(0.5*(A**2).sum())))
    tryit("divergence affine vs analytic", lambda: (float(L.divergence_loss(u)), float(0.5*torch.trace(A)**2)))
    tryit("tv affine vs analytic", lambda: (float(L.total_variation_loss(u)), float(A.abs().sum())))
    lam, mu = 1.3, 0.7
    E = 0.5*lam*torch.trace(A)**2 + mu/4*((A+A.T)**2).sum()
    tryit("elasticity affine vs analytic", lambda: (float(L.elasticity_loss(u, first_parameter=lam, second_parameter=mu)), float(E)))
    tryit("lame(E,nu)", lambda: L.lame_parameters(youngs_modulus=2.0, poissons_ratio=0.3))
    tryit("lame(lambda,E)", lambda: L.lame_parameters(first_parameter=1.0, youngs_modulus=2.0))
    tryit("lame(G,E)", lambda: L.lame_parameters(shear_modulus=0.8, youngs_modulus=2.0))
    tryit("lame(G,nu)", lambda: L.lame_parameters(shear_modulus=0.8, poissons_ratio=0.3))
    tryit("lame(lambda,nu)", lambda: L.lame_parameters(first_parameter=1.0, poissons_ratio=0.3))
