import torch, traceback, warnings
warnings.filterwarnings("ignore")
from deepali.core import Grid, Axes
import deepali.spatial as S
from deepali.data import Image, ImageBatch, FlowField, FlowFields
def tryit(label, f):
    try:
        r = f(); print("OK ", label, "->", r)
    except Exception as e:
        print("ERR", label, type(e).__name__, str(e)[:160])
g = Grid(size=(8,7))
x = torch.rand(1,5,2)*2-1
# D7 quaternion identity
g3 = Grid(size=(6,5,4))
q = S.QuaternionRotation(g3)
print("D7 fresh quaternion matrix:", q.tensor().detach().tolist())
# D8 MultiLevel of two translations
t1 = S.Translation(g, params=torch.tensor([[0.1,0.0]])); t2 = S.Translation(g, params=torch.tensor([[0.0,0.2]]))
ml = S.MultiLevelTransform(t1, t2)
tryit("D8 multilevel linear y-x", lambda: (ml(x)-x)[0,:2].tolist())
print("   x =", x[0,:2].tolist())
h = S.HomogeneousTransform(g, params=torch.tensor([[[1,0,0.1],[0,1,0.0]]]))
ml2 = S.MultiLevelTransform(h, t2)
tryit("D8b multilevel homog+transl", lambda: (ml2(x)-x)[0,:2].tolist())
print("   h params after:", h.params.tolist())
# condition kwargs
t = S.Translation(g, params=lambda *a, **k: torch.full((1,2), float(k.get('v', 0.0))))
tc = t.condition(1, v=0.3)
print("condition(1, v=.3) ->", type(tc).__name__, tc.condition() if hasattr(tc,'condition') else tc)
tk = t.condition(v=0.3)
print("condition(v=.3) ->", type(tk).__name__, tk if not hasattr(tk,'condition') else tk.condition())
# D10 sample single grid with N>1 
b = ImageBatch(torch.rand(3,1,7,8), [Grid(size=(8,7), center=(i,0)) for i in range(3)])
r = b.sample(Grid(size=(4,4), spacing=(2,2)))
print("D10 sample->", type(r).__name__, tuple(r.shape), "ngrids", len(r.grids()))
# D11 narrow
r = b.narrow(3, 1, 4)
print("D11 narrow centers", [gg.center().tolist() for gg in r.grids()], "expected per-item distinct")
# D12 ellipsis
r = b[...]
print("D12 b[...] centers", [gg.center().tolist() for gg in r.grids()])
# bool mask
tryit("bool mask index", lambda: (lambda r: (type(r).__name__, tuple(r.shape), [gg.center().tolist() for gg in r.grids()]))(b[torch.tensor([True,False,True])]))
# D13 flip
r = torch.flip(b, (0,))
print("D13 flip type", type(r).__name__, [gg.center().tolist() for gg in r.grids()] if hasattr(r,'grids') else None)
r = b.index_select(0, torch.tensor([2,0,1]))
print("D13 index_select type", type(r).__name__, [gg.center().tolist() for gg in r.grids()] if hasattr(r,'grids') else None)
r = torch.roll(b, 1, 0)
print("D13 roll type", type(r).__name__, [gg.center().tolist() for gg in r.grids()] if hasattr(r,'grids') else None)
# D14 split along channels
b2 = ImageBatch(torch.rand(3,2,7,8), b.grids())
tryit("split(1, dim=1)", lambda: [type(a).__name__ for a in b2.split(1, dim=1)])
tryit("torch.split(b2,1,1)", lambda: [type(a).__name__ for a in torch.split(b2,1,1)])
b6 = ImageBatch(torch.rand(6,1,7,8))
tryit("tensor_split(2) N=6", lambda: [ (type(a).__name__, len(a)) for a in b6.tensor_split(2)])
tryit("chunk(2)", lambda: [ (type(a).__name__, len(a)) for a in b6.chunk(2)])
tryit("unbind", lambda: [ (type(a).__name__) for a in b.unbind(0)])
# D15 downsample/upsample odd
im = Image(torch.rand(1,5,5))
tryit("downsample().upsample() 5x5", lambda: tuple(im.downsample().upsample().shape))
im = Image(torch.rand(1,8,8))
tryit("downsample().upsample() 8x8", lambda: tuple(im.downsample().upsample().shape))
# region_of_interest 2D
tryit("roi 2D tuple", lambda: tuple(Image(torch.rand(1,8,8)).region_of_interest((1,2),(3,4)).shape))
tryit("roi 3D tuple", lambda: tuple(Image(torch.rand(1,8,8,8)).region_of_interest((1,2,1),(3,4,2)).shape))
# conv nD kernel
from deepali.core import functional as U
tryit("conv 2D kernel", lambda: U.conv(torch.rand(1,1,8,8), torch.ones(3,3)/9).shape)
