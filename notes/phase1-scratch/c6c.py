import torch, warnings, math, numpy as np, traceback
warnings.filterwarnings("ignore")
from deepali.core import Grid, Axes
import deepali.spatial as S
rng = np.random.default_rng(14)
def rot2(th): return np.array([[math.cos(th), -math.sin(th)],[math.sin(th), math.cos(th)]])
for ac in (True, False):
    gt = Grid(size=(16,14), spacing=(1.0,1.2), center=(5,-3), direction=rot2(0.2), align_corners=ac)
    M = rng.uniform(-0.03,0.03,size=(2,2)); t = rng.uniform(-0.5,0.5,size=2)
    xw = gt.points(Axes.WORLD).double(); uw = xw @ torch.tensor(M).T + torch.tensor(t)
    uc = gt.transform_vectors(uw, Axes.WORLD, gt.axes()).permute(2,0,1).unsqueeze(0).float()
    T = S.DisplacementFieldTransform(gt, params=uc)
    for name, g2 in [("own", gt), ("same-domain 31x27", gt.resize(31,27)), ("cropped", gt.crop(2)), ("other+flip ac", Grid(size=(10,9), spacing=(0.9,0.8), center=(5.2,-3.1), direction=rot2(-0.4), align_corners=not ac))]:
        try:
            d = T.disp(g2)  # (1,2,...) in g2's cube axes
            fl = T.flow(g2)
            dw = g2.transform_vectors(d.permute(0,2,3,1).double(), g2.axes(), Axes.WORLD)[0]
            x2 = g2.points(Axes.WORLD).double(); exp = x2 @ torch.tensor(M).T + torch.tensor(t)
            ci = gt.transform_points(x2, Axes.WORLD, Axes.GRID, decimals=None); n = torch.tensor(gt.size(), dtype=torch.float64)
            inside = ((ci>=0)&(ci<=n-1)).all(-1)
            print(f"ac={ac} disp({name}): world err inside = {(dw-exp)[inside].abs().max().item():.2e}  flow axes={fl.axes().value} grid ok={fl.grid()==g2}")
        except Exception as e:
            tb = traceback.extract_tb(e.__traceback__)[-1]; print(f"ac={ac} disp({name}) ERR", type(e).__name__, str(e)[:100], f"@{tb.filename.split('/')[-1]}:{tb.lineno}")
    # linear transform disp on other grid
    A = S.AffineTransform(gt)
    with torch.no_grad():
        for p in A.parameters(): p.add_(0.05*torch.randn_like(p))
    for name, g2 in [("own", gt), ("other", Grid(size=(10,9), spacing=(0.9,0.8), center=(5.2,-3.1), direction=rot2(-0.4), align_corners=not ac))]:
        d = A.disp(g2)
        x2c = g2.coords(align_corners=g2.align_corners()).unsqueeze(0)
        # reference: map g2 cube -> world -> T -> world -> g2 cube via points API
        xw2 = g2.points(Axes.WORLD).unsqueeze(0)
        yw2 = A.points(xw2, axes=Axes.WORLD)
        dwref = (yw2 - xw2)[0].double()
        dw = g2.transform_vectors(d.permute(0,2,3,1).double(), g2.axes(), Axes.WORLD)[0]
        print(f"ac={ac} Affine.disp({name}) world err = {(dw-dwref).abs().max().item():.2e}")
