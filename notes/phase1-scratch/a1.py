import torch, warnings, math, itertools, numpy as np
warnings.filterwarnings("ignore")
from deepali.core import Grid, Axes
torch.manual_seed(0)
rng = np.random.default_rng(0)
def rand_rot(D):
    A = rng.normal(size=(D,D)); Q,_ = np.linalg.qr(A)
    if np.linalg.det(Q) < 0: Q[:,0] *= -1
    return Q
def rand_grid(D):
    size = rng.integers(1, 40, size=D).tolist()
    spacing = np.exp(rng.uniform(-2, 2, size=D)).tolist()
    center = rng.uniform(-200, 200, size=D).tolist()
    return Grid(size=size, spacing=spacing, center=center, direction=rand_rot(D), align_corners=bool(rng.integers(2)))
axes = list(Axes)
worst = {}
for it in range(2000):
    D = int(rng.integers(2,4))
    g = rand_grid(D)
    if any(n < 2 for n in g.size()): continue
    idx = torch.tensor(rng.uniform(-5, 45, size=(7, D)), dtype=torch.float64)
    # reference in float64 numpy
    n = np.array(g.size(), dtype=float); sp = g.spacing().double().numpy(); R = g.direction().double().numpy(); c = g.center().double().numpy()
    o = c - R @ (sp * (n-1)/2)
    def ref(idx, ax):
        i = idx.numpy()
        if ax is Axes.GRID: return i
        if ax is Axes.WORLD: return o + (i*sp) @ R.T
        if ax is Axes.CUBE_CORNERS: return 2*i/(n-1) - 1
        if ax is Axes.CUBE: return (2*i+1)/n - 1
    for a, b in itertools.product(axes, axes):
        pa = torch.tensor(ref(idx, a))
        pb = ref(idx, b)
        for dec in (-1, None):
            out = g.transform_points(pa, a, b, decimals=dec).numpy()
            scale = max(1.0, np.abs(pb).max()) if b is Axes.WORLD else (max(1.0, np.abs(pb).max()))
            err = np.abs(out - pb).max() / scale
            k = (a.value, b.value, dec)
            worst[k] = max(worst.get(k, 0), err)
for k, v in sorted(worst.items(), key=lambda kv: -kv[1])[:14]: print(k, f"{v:.2e}")
