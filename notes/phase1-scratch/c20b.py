import torch, warnings
warnings.filterwarnings("ignore")
import deepali.losses.functional as L
torch.manual_seed(1)
xs = torch.rand(2,1,12,13,dtype=torch.float64); ys = torch.rand(2,1,12,13,dtype=torch.float64)
for name in ("mi_loss","nmi_loss"):
    fn = getattr(L,name)
    f = lambda t: fn(t, ys, vmin=-0.5, vmax=1.5, num_bins=16)
    th = xs.clone().requires_grad_(True)
    (g,) = torch.autograd.grad(f(th), th)
    for h in (1e-3,1e-4):
        d = torch.randn_like(xs); d/=d.norm()
        fd = (f(xs+h*d)-f(xs-h*d))/(2*h)
        print(name, h, float((g*d).sum()), float(fd), f(xs).dtype)
