import torch, warnings, math, numpy as np, traceback
warnings.filterwarnings("ignore")
import deepali.losses.functional as L
import deepali.losses as LM
torch.manual_seed(0)
def tryit(label, f):
    try:
        r = f(); print("OK ", label, "->", r)
    except Exception as e:
        tb = traceback.extract_tb(e.__traceback__)[-1]
        print("ERR", label, type(e).__name__, str(e)[:120], f"@{tb.filename.split('/')[-1]}:{tb.lineno}")
for shape in ((2,1,12,14),(2,2,8,9,10)):
    x = torch.rand(shape)*10; y = torch.rand(shape)*10; m = (torch.rand((shape[0],1)+shape[2:])>0.4).float()
    print("shape", shape)
    for name in ["mse_loss","ssd_loss","mae_loss","l1_loss","huber_loss","smooth_l1_loss","ncc_loss","lcc_loss","wlcc_loss","mi_loss","nmi_loss"]:
        fn = getattr(L, name)
        tryit(f"{name}(x,x)", lambda: float(fn(x,x)))
        tryit(f"{name} sym", lambda: float(fn(x,y)-fn(y,x)))
        if name in ("ncc_loss","lcc_loss","wlcc_loss"):
            tryit(f"{name} affine inv", lambda: float(fn(3*x-2,y)-fn(x,y)))
        if name not in ("mi_loss","nmi_loss"):
            tryit(f"{name} mask", lambda: float(fn(x,y,mask=m)))
            tryit(f"{name} reductions", lambda: (float(fn(x,y,reduction='none').mean()-fn(x,y,reduction='mean')), float(fn(x,y,reduction='none').sum()-fn(x,y,reduction='sum'))))
        else:
            tryit(f"{name} mask", lambda: float(fn(x,y,mask=m)))
    # mask ignoring: change values where mask==0
    x2 = torch.where(m.bool().expand_as(x), x, x+100)
    for name in ["mse_loss","mae_loss","huber_loss","lcc_loss","wlcc_loss"]:
        fn = getattr(L, name)
        tryit(f"{name} masked-out change", lambda: float(fn(x2,y,mask=m)-fn(x,y,mask=m)))
b = (torch.rand(2,3,8,9)>0.5).float()
tryit("dice_score(b,b)", lambda: L.dice_score(b,b,reduction='none'))
b2 = (torch.rand(2,3,8,9)>0.5).float()
tryit("dice sym", lambda: float(L.dice_score(b,b2)-L.dice_score(b2,b)))
tryit("tversky .5 == dice", lambda: (L.tversky_index(b,b2,alpha=.5,beta=.5,reduction='none')-L.dice_score(b,b2,reduction='none')).abs().max())
tryit("tversky_loss", lambda: L.tversky_loss(b,b2))
tryit("NMI module == nmi_loss", lambda: float(LM.NMI()(b[:, :1]*3, b2[:, :1]*2) - L.nmi_loss(b[:, :1]*3, b2[:, :1]*2)))
